//! Verification shim for `tokio` (not in the offline cargo cache), for the log-store world only:
//! `octopii/src/wal/mod.rs`, `octopii/src/openraft/storage.rs` and `octopii/src/state_machine.rs`
//! await nothing but their own futures, `tokio::sync::{Mutex, RwLock}` and `tokio::time::sleep`.
//!
//! * `runtime::block_on` / `runtime::Handle::block_on`: polls the future on the calling thread with
//!   a no-op waker until it is ready (a pending future is re-polled after `yield_now`).
//! * `sync::Mutex` / `sync::RwLock`: wrappers over the std primitives; `lock().await`,
//!   `read().await`, `write().await` complete at the first poll (they block the thread if the lock
//!   is held elsewhere; the harness is single-threaded, so a lock that is already held by the same
//!   thread is a genuine self-deadlock of the code under test and is reported by the watchdog).
//! * `task::block_in_place(f)` = `f()`.
//! * `time::sleep(d)`: really sleeps (wall clock).
use std::future::Future;
use std::pin::Pin;
use std::task::{Context, Poll, RawWaker, RawWakerVTable, Waker};

fn noop_raw() -> RawWaker {
    fn clone(_: *const ()) -> RawWaker {
        noop_raw()
    }
    fn noop(_: *const ()) {}
    static VT: RawWakerVTable = RawWakerVTable::new(clone, noop, noop, noop);
    RawWaker::new(std::ptr::null(), &VT)
}

pub mod runtime {
    use super::*;

    /// Runs a future to completion on the calling thread.
    pub fn block_on<F: Future>(fut: F) -> F::Output {
        let waker = unsafe { Waker::from_raw(noop_raw()) };
        let mut cx = Context::from_waker(&waker);
        let mut fut = Box::pin(fut);
        loop {
            match Pin::as_mut(&mut fut).poll(&mut cx) {
                Poll::Ready(v) => return v,
                Poll::Pending => std::thread::yield_now(),
            }
        }
    }

    #[derive(Clone, Debug, Default)]
    pub struct Handle;

    impl Handle {
        pub fn current() -> Handle {
            Handle
        }
        pub fn block_on<F: Future>(&self, fut: F) -> F::Output {
            block_on(fut)
        }
    }
}

pub mod task {
    pub fn block_in_place<F: FnOnce() -> R, R>(f: F) -> R {
        f()
    }
}

pub mod time {
    pub use std::time::Duration;

    pub async fn sleep(d: Duration) {
        std::thread::sleep(d);
    }
}

pub mod sync {
    use std::fmt;
    use std::ops::{Deref, DerefMut};

    pub struct Mutex<T: ?Sized> {
        inner: std::sync::Mutex<T>,
    }

    pub struct MutexGuard<'a, T: ?Sized> {
        g: std::sync::MutexGuard<'a, T>,
    }

    impl<T> Mutex<T> {
        pub fn new(t: T) -> Self {
            Mutex { inner: std::sync::Mutex::new(t) }
        }
        pub fn into_inner(self) -> T {
            self.inner.into_inner().unwrap_or_else(|e| e.into_inner())
        }
    }

    impl<T: ?Sized> Mutex<T> {
        pub async fn lock(&self) -> MutexGuard<'_, T> {
            MutexGuard { g: self.inner.lock().unwrap_or_else(|e| e.into_inner()) }
        }
        pub fn try_lock(&self) -> Result<MutexGuard<'_, T>, TryLockError> {
            match self.inner.try_lock() {
                Ok(g) => Ok(MutexGuard { g }),
                Err(std::sync::TryLockError::Poisoned(e)) => Ok(MutexGuard { g: e.into_inner() }),
                Err(std::sync::TryLockError::WouldBlock) => Err(TryLockError(())),
            }
        }
    }

    #[derive(Debug)]
    pub struct TryLockError(());

    impl<T: Default> Default for Mutex<T> {
        fn default() -> Self {
            Mutex::new(T::default())
        }
    }

    impl<T: ?Sized + fmt::Debug> fmt::Debug for Mutex<T> {
        fn fmt(&self, f: &mut fmt::Formatter<'_>) -> fmt::Result {
            match self.inner.try_lock() {
                Ok(g) => f.debug_struct("Mutex").field("data", &&*g).finish(),
                Err(_) => f.debug_struct("Mutex").field("data", &"<locked>").finish(),
            }
        }
    }

    impl<'a, T: ?Sized> Deref for MutexGuard<'a, T> {
        type Target = T;
        fn deref(&self) -> &T {
            &self.g
        }
    }

    impl<'a, T: ?Sized> DerefMut for MutexGuard<'a, T> {
        fn deref_mut(&mut self) -> &mut T {
            &mut self.g
        }
    }

    pub struct RwLock<T: ?Sized> {
        inner: std::sync::RwLock<T>,
    }

    pub struct RwLockReadGuard<'a, T: ?Sized> {
        g: std::sync::RwLockReadGuard<'a, T>,
    }

    pub struct RwLockWriteGuard<'a, T: ?Sized> {
        g: std::sync::RwLockWriteGuard<'a, T>,
    }

    impl<T> RwLock<T> {
        pub fn new(t: T) -> Self {
            RwLock { inner: std::sync::RwLock::new(t) }
        }
    }

    impl<T: ?Sized> RwLock<T> {
        pub async fn read(&self) -> RwLockReadGuard<'_, T> {
            RwLockReadGuard { g: self.inner.read().unwrap_or_else(|e| e.into_inner()) }
        }
        pub async fn write(&self) -> RwLockWriteGuard<'_, T> {
            RwLockWriteGuard { g: self.inner.write().unwrap_or_else(|e| e.into_inner()) }
        }
    }

    impl<T: Default> Default for RwLock<T> {
        fn default() -> Self {
            RwLock::new(T::default())
        }
    }

    impl<T: ?Sized + fmt::Debug> fmt::Debug for RwLock<T> {
        fn fmt(&self, f: &mut fmt::Formatter<'_>) -> fmt::Result {
            match self.inner.try_read() {
                Ok(g) => f.debug_struct("RwLock").field("data", &&*g).finish(),
                Err(_) => f.debug_struct("RwLock").field("data", &"<locked>").finish(),
            }
        }
    }

    impl<'a, T: ?Sized> Deref for RwLockReadGuard<'a, T> {
        type Target = T;
        fn deref(&self) -> &T {
            &self.g
        }
    }

    impl<'a, T: ?Sized> Deref for RwLockWriteGuard<'a, T> {
        type Target = T;
        fn deref(&self) -> &T {
            &self.g
        }
    }

    impl<'a, T: ?Sized> DerefMut for RwLockWriteGuard<'a, T> {
        fn deref_mut(&mut self) -> &mut T {
            &mut self.g
        }
    }
}
