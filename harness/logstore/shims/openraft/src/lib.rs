//! Verification shim for the vendored `openraft` (`/repo/octopii/openraft/openraft`), whose own
//! dependencies are not in the offline cargo cache. Only the *data types* and *storage traits*
//! that `octopii/src/openraft/{types,storage}.rs` name are provided. Their field layout, derives
//! (ordering of `LogId` = (leader_id, index), `LeaderId` = (term, node_id)), serde shape and the
//! semantics that storage.rs depends on follow the real definitions (read from
//! `/repo/octopii/openraft/openraft/src/{log_id,vote,entry,membership,storage}`); no Raft logic
//! exists here. Differences that matter to a reader of the checks:
//!
//! * the storage traits use plain `async fn` (the real ones are `-> impl Future + Send`): the
//!   `Send`-ness of storage.rs's futures is not checked here;
//! * `IOFlushed` records the completion result in a slot the harness reads (the real one notifies
//!   RaftCore through a channel); `ApplyResponder` records the response likewise;
//! * `declare_raft_types!` accepts the keys `D`, `R`, `NodeId`, `Node`, `Term` (any subset, any
//!   order) and fixes `LeaderId = impls::leader_id_adv::LeaderId<Self>`, `Vote = impls::Vote<Self>`,
//!   `Entry = impls::Entry<Self>`, `SnapshotData = Cursor<Vec<u8>>` (the real defaults).
use serde::de::DeserializeOwned;
use serde::{Deserialize, Serialize};
use std::collections::{BTreeMap, BTreeSet};
use std::fmt::{self, Debug, Display};
use std::hash::Hash;
use std::io;
use std::sync::{Arc, Mutex};

pub trait OptionalSend: Send {}
impl<T: Send + ?Sized> OptionalSend for T {}
pub trait OptionalSync: Sync {}
impl<T: Sync + ?Sized> OptionalSync for T {}

pub trait AppData: Clone + Debug + Send + Sync + Serialize + DeserializeOwned + 'static {}
impl<T: Clone + Debug + Send + Sync + Serialize + DeserializeOwned + 'static> AppData for T {}
pub trait AppDataResponse: Send + Sync + Serialize + DeserializeOwned + 'static {}
impl<T: Send + Sync + Serialize + DeserializeOwned + 'static> AppDataResponse for T {}

pub trait NodeId:
    Sized + Send + Sync + Eq + PartialEq + Ord + PartialOrd + Debug + Display + Hash + Clone + Copy + Default
    + Serialize + DeserializeOwned + 'static
{
}
impl<T> NodeId for T where
    T: Sized + Send + Sync + Eq + PartialEq + Ord + PartialOrd + Debug + Display + Hash + Clone + Copy + Default
        + Serialize + DeserializeOwned + 'static
{
}

pub trait Node: Sized + Send + Sync + Eq + PartialEq + Debug + Clone + Default + Serialize + DeserializeOwned + 'static {}
impl<T> Node for T where
    T: Sized + Send + Sync + Eq + PartialEq + Debug + Clone + Default + Serialize + DeserializeOwned + 'static
{
}

pub trait RaftTerm:
    Sized + Send + Sync + Eq + PartialEq + Ord + PartialOrd + Debug + Display + Clone + Copy + Default + Serialize
    + DeserializeOwned + 'static
{
}
impl<T> RaftTerm for T where
    T: Sized + Send + Sync + Eq + PartialEq + Ord + PartialOrd + Debug + Display + Clone + Copy + Default + Serialize
        + DeserializeOwned + 'static
{
}

pub trait RaftTypeConfig:
    Sized + Send + Sync + Debug + Clone + Copy + Default + Eq + PartialEq + Ord + PartialOrd + 'static
{
    type D: AppData;
    type R: AppDataResponse;
    type NodeId: NodeId;
    type Node: Node;
    type Term: RaftTerm;
    type LeaderId: Sized + Send + Sync + Debug + Clone + Copy + Default + Eq + Ord + Serialize + DeserializeOwned + 'static;
    type Vote: Sized + Send + Sync + Debug + Clone + PartialEq + Eq + Serialize + DeserializeOwned + 'static;
    type Entry: Sized + Send + Sync + Debug + Clone + 'static;
    type SnapshotData: Send + 'static;
}

pub mod alias {
    use crate::RaftTypeConfig;
    pub type DOf<C> = <C as RaftTypeConfig>::D;
    pub type ROf<C> = <C as RaftTypeConfig>::R;
    pub type NodeIdOf<C> = <C as RaftTypeConfig>::NodeId;
    pub type NodeOf<C> = <C as RaftTypeConfig>::Node;
    pub type TermOf<C> = <C as RaftTypeConfig>::Term;
    pub type LeaderIdOf<C> = <C as RaftTypeConfig>::LeaderId;
    pub type VoteOf<C> = <C as RaftTypeConfig>::Vote;
    pub type EntryOf<C> = <C as RaftTypeConfig>::Entry;
    pub type SnapshotDataOf<C> = <C as RaftTypeConfig>::SnapshotData;
    pub type LogIdOf<C> = crate::LogId<C>;
    pub type CommittedLeaderIdOf<C> = crate::impls::leader_id_adv::LeaderId<C>;
}

pub type SnapshotId = String;

// ---- leader id (impls::leader_id_adv) -----------------------------------------------------------

#[derive(Debug, Default, Clone, Copy, PartialEq, Eq, PartialOrd, Ord, Serialize, Deserialize)]
#[serde(bound = "")]
pub struct AdvLeaderId<C: RaftTypeConfig> {
    pub term: C::Term,
    pub node_id: C::NodeId,
}

impl<C: RaftTypeConfig> AdvLeaderId<C> {
    pub fn new(term: C::Term, node_id: C::NodeId) -> Self {
        Self { term, node_id }
    }
}

impl<C: RaftTypeConfig> Display for AdvLeaderId<C> {
    fn fmt(&self, f: &mut fmt::Formatter<'_>) -> fmt::Result {
        write!(f, "T{}-N{}", self.term, self.node_id)
    }
}

// ---- log id ---------------------------------------------------------------------------------------

#[derive(Debug, Default, Clone, Copy, PartialOrd, Ord, PartialEq, Eq, Serialize, Deserialize)]
#[serde(bound = "")]
pub struct LogId<C: RaftTypeConfig> {
    pub leader_id: AdvLeaderId<C>,
    pub index: u64,
}

impl<C: RaftTypeConfig> LogId<C> {
    pub fn new(leader_id: AdvLeaderId<C>, index: u64) -> Self {
        LogId { leader_id, index }
    }
    pub fn committed_leader_id(&self) -> &AdvLeaderId<C> {
        &self.leader_id
    }
    pub fn index(&self) -> u64 {
        self.index
    }
}

impl<C: RaftTypeConfig> Display for LogId<C> {
    fn fmt(&self, f: &mut fmt::Formatter<'_>) -> fmt::Result {
        write!(f, "{}.{}", self.leader_id, self.index)
    }
}

// ---- vote (impls::Vote) --------------------------------------------------------------------------

#[derive(Debug, Clone, Copy, Default, PartialEq, Eq, Serialize, Deserialize)]
#[serde(bound = "")]
pub struct Vote<C: RaftTypeConfig> {
    pub leader_id: AdvLeaderId<C>,
    pub committed: bool,
}

impl<C: RaftTypeConfig> Vote<C> {
    pub fn new(term: C::Term, node_id: C::NodeId) -> Self {
        Self { leader_id: AdvLeaderId::new(term, node_id), committed: false }
    }
    pub fn new_committed(term: C::Term, node_id: C::NodeId) -> Self {
        Self { leader_id: AdvLeaderId::new(term, node_id), committed: true }
    }
    pub fn is_committed(&self) -> bool {
        self.committed
    }
    pub fn leader_id(&self) -> &AdvLeaderId<C> {
        &self.leader_id
    }
}

impl<C: RaftTypeConfig> Display for Vote<C> {
    fn fmt(&self, f: &mut fmt::Formatter<'_>) -> fmt::Result {
        write!(f, "<{}:{}>", self.leader_id, if self.committed { "Q" } else { "-" })
    }
}

// ---- membership -----------------------------------------------------------------------------------

#[derive(Debug, Clone, Default, PartialEq, Eq, Serialize, Deserialize)]
pub struct BasicNode {
    pub addr: String,
}

impl BasicNode {
    pub fn new(addr: impl ToString) -> Self {
        Self { addr: addr.to_string() }
    }
}

#[derive(Debug, Clone, Default, PartialEq, Eq, Serialize, Deserialize)]
pub struct EmptyNode {}

#[derive(Clone, Debug, PartialEq, Eq, Serialize, Deserialize)]
#[serde(bound = "")]
pub struct Membership<C: RaftTypeConfig> {
    configs: Vec<BTreeSet<C::NodeId>>,
    nodes: BTreeMap<C::NodeId, C::Node>,
}

impl<C: RaftTypeConfig> Default for Membership<C> {
    fn default() -> Self {
        Membership { configs: vec![], nodes: BTreeMap::new() }
    }
}

impl<C: RaftTypeConfig> Membership<C> {
    /// Same normalisation as the real `Membership::new_unchecked` callers rely on: every voter gets
    /// a node entry (default node when none is given).
    pub fn new_with_nodes(configs: Vec<BTreeSet<C::NodeId>>, mut nodes: BTreeMap<C::NodeId, C::Node>) -> Self {
        for c in configs.iter() {
            for id in c.iter() {
                nodes.entry(*id).or_default();
            }
        }
        Membership { configs, nodes }
    }
    pub fn get_joint_config(&self) -> &Vec<BTreeSet<C::NodeId>> {
        &self.configs
    }
    pub fn voter_ids(&self) -> impl Iterator<Item = C::NodeId> + '_ {
        let mut all = BTreeSet::new();
        for c in self.configs.iter() {
            all.extend(c.iter().copied());
        }
        all.into_iter()
    }
    pub fn nodes(&self) -> impl Iterator<Item = (&C::NodeId, &C::Node)> {
        self.nodes.iter()
    }
}

impl<C: RaftTypeConfig> Display for Membership<C> {
    fn fmt(&self, f: &mut fmt::Formatter<'_>) -> fmt::Result {
        write!(f, "{:?}", self)
    }
}

#[derive(Clone, Debug, Default, PartialEq, Eq, Serialize, Deserialize)]
#[serde(bound = "")]
pub struct StoredMembership<C: RaftTypeConfig> {
    log_id: Option<LogId<C>>,
    membership: Membership<C>,
}

impl<C: RaftTypeConfig> StoredMembership<C> {
    pub fn new(log_id: Option<LogId<C>>, membership: Membership<C>) -> Self {
        Self { log_id, membership }
    }
    pub fn log_id(&self) -> &Option<LogId<C>> {
        &self.log_id
    }
    pub fn membership(&self) -> &Membership<C> {
        &self.membership
    }
}

// ---- entries --------------------------------------------------------------------------------------

#[derive(PartialEq, Serialize, Deserialize)]
#[serde(bound = "")]
pub enum EntryPayload<C: RaftTypeConfig> {
    Blank,
    Normal(C::D),
    Membership(Membership<C>),
}

impl<C: RaftTypeConfig> Clone for EntryPayload<C> {
    fn clone(&self) -> Self {
        match self {
            EntryPayload::Blank => EntryPayload::Blank,
            EntryPayload::Normal(n) => EntryPayload::Normal(n.clone()),
            EntryPayload::Membership(m) => EntryPayload::Membership(m.clone()),
        }
    }
}

impl<C: RaftTypeConfig> Debug for EntryPayload<C> {
    fn fmt(&self, f: &mut fmt::Formatter<'_>) -> fmt::Result {
        match self {
            EntryPayload::Blank => write!(f, "blank"),
            EntryPayload::Normal(d) => write!(f, "normal:{:?}", d),
            EntryPayload::Membership(m) => write!(f, "membership:{:?}", m),
        }
    }
}

#[derive(Serialize, Deserialize)]
#[serde(bound = "")]
pub struct Entry<C: RaftTypeConfig> {
    pub log_id: LogId<C>,
    pub payload: EntryPayload<C>,
}

impl<C: RaftTypeConfig> Clone for Entry<C> {
    fn clone(&self) -> Self {
        Self { log_id: self.log_id, payload: self.payload.clone() }
    }
}

impl<C: RaftTypeConfig> Debug for Entry<C> {
    fn fmt(&self, f: &mut fmt::Formatter<'_>) -> fmt::Result {
        f.debug_struct("Entry").field("log_id", &self.log_id).field("payload", &self.payload).finish()
    }
}

impl<C: RaftTypeConfig> Default for Entry<C> {
    fn default() -> Self {
        Self { log_id: LogId::default(), payload: EntryPayload::Blank }
    }
}

impl<C: RaftTypeConfig> PartialEq for Entry<C>
where
    C::D: PartialEq,
{
    fn eq(&self, other: &Self) -> bool {
        self.log_id == other.log_id && self.payload == other.payload
    }
}

// ---- errors ---------------------------------------------------------------------------------------

#[derive(Debug)]
pub struct StorageError<C: RaftTypeConfig> {
    pub source: io::Error,
    _p: std::marker::PhantomData<C>,
}

impl<C: RaftTypeConfig> StorageError<C> {
    pub fn from_io_error(e: io::Error) -> Self {
        Self { source: e, _p: std::marker::PhantomData }
    }
}

impl<C: RaftTypeConfig> Display for StorageError<C> {
    fn fmt(&self, f: &mut fmt::Formatter<'_>) -> fmt::Result {
        write!(f, "storage error: {}", self.source)
    }
}

impl<C: RaftTypeConfig> std::error::Error for StorageError<C> {}

// ---- storage --------------------------------------------------------------------------------------

pub mod storage {
    use super::*;
    use futures::Stream;
    use std::ops::RangeBounds;

    #[derive(Clone, Debug, Default, PartialEq, Eq)]
    pub struct LogState<C: RaftTypeConfig> {
        pub last_purged_log_id: Option<LogId<C>>,
        pub last_log_id: Option<LogId<C>>,
    }

    #[derive(Debug, Clone, Default, PartialEq, Eq, Serialize, Deserialize)]
    #[serde(bound = "")]
    pub struct SnapshotMeta<C: RaftTypeConfig> {
        pub last_log_id: Option<LogId<C>>,
        pub last_membership: StoredMembership<C>,
        pub snapshot_id: SnapshotId,
    }

    pub struct Snapshot<C: RaftTypeConfig> {
        pub meta: SnapshotMeta<C>,
        pub snapshot: C::SnapshotData,
    }

    /// Result slot the harness reads after `append` returned: `None` = callback never completed.
    pub type FlushSlot = Arc<Mutex<Option<Result<(), String>>>>;

    pub struct IOFlushed<C: RaftTypeConfig> {
        slot: FlushSlot,
        _p: std::marker::PhantomData<C>,
    }

    #[deprecated(note = "Use `IOFlushed` instead")]
    pub type LogFlushed<C> = IOFlushed<C>;

    impl<C: RaftTypeConfig> IOFlushed<C> {
        /// Harness-side constructor (the real one is created by RaftCore).
        pub fn for_harness() -> (Self, FlushSlot) {
            let slot: FlushSlot = Arc::new(Mutex::new(None));
            (IOFlushed { slot: slot.clone(), _p: std::marker::PhantomData }, slot)
        }
        pub async fn io_completed(self, result: Result<(), io::Error>) {
            *self.slot.lock().unwrap() = Some(result.map_err(|e| e.to_string()));
        }
    }

    pub type RespSlot<C> = Arc<Mutex<Vec<<C as RaftTypeConfig>::R>>>;

    pub struct ApplyResponder<C: RaftTypeConfig> {
        slot: RespSlot<C>,
    }

    impl<C: RaftTypeConfig> ApplyResponder<C> {
        pub fn for_harness(slot: RespSlot<C>) -> Self {
            ApplyResponder { slot }
        }
        pub fn send(self, response: C::R) {
            self.slot.lock().unwrap().push(response);
        }
    }

    pub type EntryResponder<C> = (<C as RaftTypeConfig>::Entry, Option<ApplyResponder<C>>);

    #[allow(async_fn_in_trait)]
    pub trait RaftLogReader<C: RaftTypeConfig>: OptionalSend + OptionalSync + 'static {
        async fn try_get_log_entries<RB: RangeBounds<u64> + Clone + Debug + OptionalSend>(
            &mut self,
            range: RB,
        ) -> Result<Vec<C::Entry>, io::Error>;

        async fn read_vote(&mut self) -> Result<Option<C::Vote>, io::Error>;

        async fn limited_get_log_entries(&mut self, start: u64, end: u64) -> Result<Vec<C::Entry>, io::Error> {
            self.try_get_log_entries(start..end).await
        }
    }

    #[allow(async_fn_in_trait)]
    pub trait RaftLogStorage<C: RaftTypeConfig>: OptionalSend + OptionalSync + 'static {
        type LogReader: RaftLogReader<C>;

        async fn get_log_state(&mut self) -> Result<LogState<C>, io::Error>;
        async fn get_log_reader(&mut self) -> Self::LogReader;
        async fn save_vote(&mut self, vote: &C::Vote) -> Result<(), io::Error>;
        async fn save_committed(&mut self, _committed: Option<LogId<C>>) -> Result<(), io::Error> {
            Ok(())
        }
        async fn read_committed(&mut self) -> Result<Option<LogId<C>>, io::Error> {
            Ok(None)
        }
        async fn append<I>(&mut self, entries: I, callback: IOFlushed<C>) -> Result<(), io::Error>
        where
            I: IntoIterator<Item = C::Entry> + OptionalSend,
            I::IntoIter: OptionalSend;
        async fn truncate(&mut self, log_id: LogId<C>) -> Result<(), io::Error>;
        async fn purge(&mut self, log_id: LogId<C>) -> Result<(), io::Error>;
    }

    #[allow(async_fn_in_trait)]
    pub trait RaftSnapshotBuilder<C: RaftTypeConfig>: OptionalSend + OptionalSync + 'static {
        async fn build_snapshot(&mut self) -> Result<Snapshot<C>, io::Error>;
    }

    #[allow(async_fn_in_trait)]
    pub trait RaftStateMachine<C: RaftTypeConfig>: OptionalSend + OptionalSync + 'static {
        type SnapshotBuilder: RaftSnapshotBuilder<C>;

        async fn applied_state(&mut self) -> Result<(Option<LogId<C>>, StoredMembership<C>), io::Error>;
        async fn apply<Strm>(&mut self, entries: Strm) -> Result<(), io::Error>
        where
            Strm: Stream<Item = Result<EntryResponder<C>, io::Error>> + Unpin + OptionalSend;
        async fn try_create_snapshot_builder(&mut self, force: bool) -> Option<Self::SnapshotBuilder> {
            let _ = force;
            Some(self.get_snapshot_builder().await)
        }
        async fn get_snapshot_builder(&mut self) -> Self::SnapshotBuilder;
        async fn begin_receiving_snapshot(&mut self) -> Result<C::SnapshotData, io::Error>;
        async fn install_snapshot(&mut self, meta: &SnapshotMeta<C>, snapshot: C::SnapshotData) -> Result<(), io::Error>;
        async fn get_current_snapshot(&mut self) -> Result<Option<Snapshot<C>>, io::Error>;
    }
}

pub use storage::{RaftLogReader, RaftLogStorage, RaftSnapshotBuilder, RaftStateMachine, Snapshot, SnapshotMeta};

pub mod impls {
    pub use crate::BasicNode;
    pub use crate::EmptyNode;
    pub use crate::Entry;
    pub use crate::LogId;
    pub use crate::Vote;
    pub mod leader_id_adv {
        pub use crate::AdvLeaderId as LeaderId;
    }
}

// ---- declare_raft_types! --------------------------------------------------------------------------

#[doc(hidden)]
#[macro_export]
macro_rules! __openraft_shim_pick {
    // ($key; $default; pairs...) -> the type given for $key, else the default
    (D; $d:ty; ) => { $d };
    (D; $d:ty; D = $t:ty, $($rest:tt)*) => { $t };
    (R; $d:ty; ) => { $d };
    (R; $d:ty; R = $t:ty, $($rest:tt)*) => { $t };
    (NodeId; $d:ty; ) => { $d };
    (NodeId; $d:ty; NodeId = $t:ty, $($rest:tt)*) => { $t };
    (Node; $d:ty; ) => { $d };
    (Node; $d:ty; Node = $t:ty, $($rest:tt)*) => { $t };
    (Term; $d:ty; ) => { $d };
    (Term; $d:ty; Term = $t:ty, $($rest:tt)*) => { $t };
    ($k:ident; $d:ty; $other:ident = $t:ty, $($rest:tt)*) => { $crate::__openraft_shim_pick!($k; $d; $($rest)*) };
}

#[doc(hidden)]
#[macro_export]
macro_rules! __openraft_shim_known_key {
    (D) => {};
    (R) => {};
    (NodeId) => {};
    (Node) => {};
    (Term) => {};
    ($other:ident) => {
        compile_error!(concat!("openraft shim: declare_raft_types! key not supported by the shim: ", stringify!($other)));
    };
}

#[macro_export]
macro_rules! declare_raft_types {
    ($(#[$outer:meta])* $visibility:vis $id:ident) => {
        $crate::declare_raft_types!($(#[$outer])* $visibility $id:);
    };
    ($(#[$outer:meta])* $visibility:vis $id:ident: $($type_id:ident = $type:ty),* $(,)? ) => {
        $(#[$outer])*
        #[derive(Debug, Clone, Copy, Default, Eq, PartialEq, Ord, PartialOrd)]
        $visibility struct $id {}

        $( $crate::__openraft_shim_known_key!($type_id); )*

        impl $crate::RaftTypeConfig for $id {
            type D = $crate::__openraft_shim_pick!(D; String; $($type_id = $type,)*);
            type R = $crate::__openraft_shim_pick!(R; String; $($type_id = $type,)*);
            type NodeId = $crate::__openraft_shim_pick!(NodeId; u64; $($type_id = $type,)*);
            type Node = $crate::__openraft_shim_pick!(Node; $crate::impls::BasicNode; $($type_id = $type,)*);
            type Term = $crate::__openraft_shim_pick!(Term; u64; $($type_id = $type,)*);
            type LeaderId = $crate::impls::leader_id_adv::LeaderId<Self>;
            type Vote = $crate::impls::Vote<Self>;
            type Entry = $crate::impls::Entry<Self>;
            type SnapshotData = std::io::Cursor<Vec<u8>>;
        }
    };
}
