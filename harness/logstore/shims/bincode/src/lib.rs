//! Verification shim for `bincode` 1.3 (the real crate is not in the offline cargo cache).
//!
//! A minimal serde data format with the layout of bincode 1.3's legacy top-level functions
//! (`bincode::serialize` / `bincode::deserialize`): little-endian fixed-width integers, `u64`
//! lengths for sequences / maps / strings / byte strings, `u32` enum variant indices, `u8` tags for
//! `Option` and `bool`, struct and tuple fields in declaration order without names, trailing bytes
//! accepted, no size limit. Not self-describing: `deserialize_any`, identifiers and
//! `ignored_any` are errors, exactly as in the real crate. `#[serde(default)]` has no effect on
//! missing trailing fields (as in the real crate: the input simply ends → `Io(UnexpectedEof)`).
//!
//! What this means for the checks built on it: byte layouts produced by the code under test are
//! the ones this file defines, not the real crate's; every property checked through this shim is
//! about what the code under test does with the (de)serialisation results, not about bincode.
use serde::de::{self, DeserializeOwned, DeserializeSeed, EnumAccess, IntoDeserializer, MapAccess, SeqAccess,
                VariantAccess, Visitor};
use serde::ser::{self, Serialize};
use std::fmt;
use std::io;

pub type Error = Box<ErrorKind>;
pub type Result<T> = std::result::Result<T, Error>;

#[derive(Debug)]
pub enum ErrorKind {
    Io(io::Error),
    InvalidUtf8Encoding(std::str::Utf8Error),
    InvalidBoolEncoding(u8),
    InvalidCharEncoding,
    InvalidTagEncoding(usize),
    DeserializeAnyNotSupported,
    SizeLimit,
    SequenceMustHaveLength,
    Custom(String),
}

impl fmt::Display for ErrorKind {
    fn fmt(&self, f: &mut fmt::Formatter<'_>) -> fmt::Result {
        match self {
            ErrorKind::Io(e) => write!(f, "io error: {}", e),
            ErrorKind::InvalidUtf8Encoding(e) => write!(f, "string is not valid utf8: {}", e),
            ErrorKind::InvalidBoolEncoding(b) => write!(f, "invalid u8 while decoding bool, expected 0 or 1, found {}", b),
            ErrorKind::InvalidCharEncoding => write!(f, "char is not valid"),
            ErrorKind::InvalidTagEncoding(t) => write!(f, "tag for enum is not valid, found {}", t),
            ErrorKind::DeserializeAnyNotSupported => {
                write!(f, "Bincode does not support the serde::Deserializer::deserialize_any method")
            }
            ErrorKind::SizeLimit => write!(f, "the size limit has been reached"),
            ErrorKind::SequenceMustHaveLength => {
                write!(f, "Bincode can only encode sequences and maps that have a knowable size ahead of time")
            }
            ErrorKind::Custom(s) => write!(f, "{}", s),
        }
    }
}

impl std::error::Error for ErrorKind {
    fn source(&self) -> Option<&(dyn std::error::Error + 'static)> {
        match self {
            ErrorKind::Io(e) => Some(e),
            ErrorKind::InvalidUtf8Encoding(e) => Some(e),
            _ => None,
        }
    }
}

impl From<io::Error> for Error {
    fn from(e: io::Error) -> Error {
        Box::new(ErrorKind::Io(e))
    }
}

impl ser::Error for Error {
    fn custom<T: fmt::Display>(msg: T) -> Self {
        Box::new(ErrorKind::Custom(msg.to_string()))
    }
}

impl de::Error for Error {
    fn custom<T: fmt::Display>(msg: T) -> Self {
        Box::new(ErrorKind::Custom(msg.to_string()))
    }
}

pub fn serialize<T: ?Sized + Serialize>(value: &T) -> Result<Vec<u8>> {
    let mut s = Serializer { out: Vec::new() };
    value.serialize(&mut s)?;
    Ok(s.out)
}

pub fn serialized_size<T: ?Sized + Serialize>(value: &T) -> Result<u64> {
    serialize(value).map(|v| v.len() as u64)
}

pub fn deserialize<T: DeserializeOwned>(bytes: &[u8]) -> Result<T> {
    let mut d = Deserializer { input: bytes };
    T::deserialize(&mut d)
}

// ------------------------------------------------------------------------------------------------
// serializer

pub struct Serializer {
    out: Vec<u8>,
}

macro_rules! ser_int {
    ($name:ident, $t:ty) => {
        fn $name(self, v: $t) -> Result<()> {
            self.out.extend_from_slice(&v.to_le_bytes());
            Ok(())
        }
    };
}

impl<'a> ser::Serializer for &'a mut Serializer {
    type Ok = ();
    type Error = Error;
    type SerializeSeq = Self;
    type SerializeTuple = Self;
    type SerializeTupleStruct = Self;
    type SerializeTupleVariant = Self;
    type SerializeMap = Self;
    type SerializeStruct = Self;
    type SerializeStructVariant = Self;

    fn serialize_bool(self, v: bool) -> Result<()> {
        self.out.push(v as u8);
        Ok(())
    }
    ser_int!(serialize_i8, i8);
    ser_int!(serialize_i16, i16);
    ser_int!(serialize_i32, i32);
    ser_int!(serialize_i64, i64);
    ser_int!(serialize_i128, i128);
    ser_int!(serialize_u8, u8);
    ser_int!(serialize_u16, u16);
    ser_int!(serialize_u32, u32);
    ser_int!(serialize_u64, u64);
    ser_int!(serialize_u128, u128);
    ser_int!(serialize_f32, f32);
    ser_int!(serialize_f64, f64);
    fn serialize_char(self, v: char) -> Result<()> {
        let mut b = [0u8; 4];
        self.out.extend_from_slice(v.encode_utf8(&mut b).as_bytes());
        Ok(())
    }
    fn serialize_str(self, v: &str) -> Result<()> {
        self.serialize_bytes(v.as_bytes())
    }
    fn serialize_bytes(self, v: &[u8]) -> Result<()> {
        self.out.extend_from_slice(&(v.len() as u64).to_le_bytes());
        self.out.extend_from_slice(v);
        Ok(())
    }
    fn serialize_none(self) -> Result<()> {
        self.out.push(0);
        Ok(())
    }
    fn serialize_some<T: ?Sized + Serialize>(self, v: &T) -> Result<()> {
        self.out.push(1);
        v.serialize(self)
    }
    fn serialize_unit(self) -> Result<()> {
        Ok(())
    }
    fn serialize_unit_struct(self, _name: &'static str) -> Result<()> {
        Ok(())
    }
    fn serialize_unit_variant(self, _name: &'static str, idx: u32, _variant: &'static str) -> Result<()> {
        self.serialize_u32(idx)
    }
    fn serialize_newtype_struct<T: ?Sized + Serialize>(self, _name: &'static str, v: &T) -> Result<()> {
        v.serialize(self)
    }
    fn serialize_newtype_variant<T: ?Sized + Serialize>(self, _name: &'static str, idx: u32, _variant: &'static str,
                                                        v: &T) -> Result<()> {
        self.out.extend_from_slice(&idx.to_le_bytes());
        v.serialize(self)
    }
    fn serialize_seq(self, len: Option<usize>) -> Result<Self> {
        let len = len.ok_or_else(|| Box::new(ErrorKind::SequenceMustHaveLength))?;
        self.out.extend_from_slice(&(len as u64).to_le_bytes());
        Ok(self)
    }
    fn serialize_tuple(self, _len: usize) -> Result<Self> {
        Ok(self)
    }
    fn serialize_tuple_struct(self, _name: &'static str, _len: usize) -> Result<Self> {
        Ok(self)
    }
    fn serialize_tuple_variant(self, _name: &'static str, idx: u32, _variant: &'static str, _len: usize)
                               -> Result<Self> {
        self.out.extend_from_slice(&idx.to_le_bytes());
        Ok(self)
    }
    fn serialize_map(self, len: Option<usize>) -> Result<Self> {
        let len = len.ok_or_else(|| Box::new(ErrorKind::SequenceMustHaveLength))?;
        self.out.extend_from_slice(&(len as u64).to_le_bytes());
        Ok(self)
    }
    fn serialize_struct(self, _name: &'static str, _len: usize) -> Result<Self> {
        Ok(self)
    }
    fn serialize_struct_variant(self, _name: &'static str, idx: u32, _variant: &'static str, _len: usize)
                                -> Result<Self> {
        self.out.extend_from_slice(&idx.to_le_bytes());
        Ok(self)
    }
    fn is_human_readable(&self) -> bool {
        false
    }
}

macro_rules! compound {
    ($tr:ident, $f:ident) => {
        impl<'a> ser::$tr for &'a mut Serializer {
            type Ok = ();
            type Error = Error;
            fn $f<T: ?Sized + Serialize>(&mut self, v: &T) -> Result<()> {
                v.serialize(&mut **self)
            }
            fn end(self) -> Result<()> {
                Ok(())
            }
        }
    };
}
compound!(SerializeSeq, serialize_element);
compound!(SerializeTuple, serialize_element);
compound!(SerializeTupleStruct, serialize_field);
compound!(SerializeTupleVariant, serialize_field);

impl<'a> ser::SerializeMap for &'a mut Serializer {
    type Ok = ();
    type Error = Error;
    fn serialize_key<T: ?Sized + Serialize>(&mut self, k: &T) -> Result<()> {
        k.serialize(&mut **self)
    }
    fn serialize_value<T: ?Sized + Serialize>(&mut self, v: &T) -> Result<()> {
        v.serialize(&mut **self)
    }
    fn end(self) -> Result<()> {
        Ok(())
    }
}

impl<'a> ser::SerializeStruct for &'a mut Serializer {
    type Ok = ();
    type Error = Error;
    fn serialize_field<T: ?Sized + Serialize>(&mut self, _k: &'static str, v: &T) -> Result<()> {
        v.serialize(&mut **self)
    }
    fn end(self) -> Result<()> {
        Ok(())
    }
}

impl<'a> ser::SerializeStructVariant for &'a mut Serializer {
    type Ok = ();
    type Error = Error;
    fn serialize_field<T: ?Sized + Serialize>(&mut self, _k: &'static str, v: &T) -> Result<()> {
        v.serialize(&mut **self)
    }
    fn end(self) -> Result<()> {
        Ok(())
    }
}

// ------------------------------------------------------------------------------------------------
// deserializer

pub struct Deserializer<'de> {
    input: &'de [u8],
}

impl<'de> Deserializer<'de> {
    fn take(&mut self, n: usize) -> Result<&'de [u8]> {
        if self.input.len() < n {
            return Err(Box::new(ErrorKind::Io(io::Error::new(io::ErrorKind::UnexpectedEof, "unexpected end of file"))));
        }
        let (a, b) = self.input.split_at(n);
        self.input = b;
        Ok(a)
    }
    fn len(&mut self) -> Result<usize> {
        let b = self.take(8)?;
        let v = u64::from_le_bytes(b.try_into().unwrap());
        usize::try_from(v).map_err(|_| Box::new(ErrorKind::Custom("length does not fit usize".into())))
    }
    fn str(&mut self) -> Result<&'de str> {
        let n = self.len()?;
        let b = self.take(n)?;
        std::str::from_utf8(b).map_err(|e| Box::new(ErrorKind::InvalidUtf8Encoding(e)))
    }
}

macro_rules! de_int {
    ($name:ident, $visit:ident, $t:ty, $n:expr) => {
        fn $name<V: Visitor<'de>>(self, visitor: V) -> Result<V::Value> {
            let b = self.take($n)?;
            visitor.$visit(<$t>::from_le_bytes(b.try_into().unwrap()))
        }
    };
}

impl<'de, 'a> de::Deserializer<'de> for &'a mut Deserializer<'de> {
    type Error = Error;

    fn deserialize_any<V: Visitor<'de>>(self, _v: V) -> Result<V::Value> {
        Err(Box::new(ErrorKind::DeserializeAnyNotSupported))
    }
    fn deserialize_bool<V: Visitor<'de>>(self, visitor: V) -> Result<V::Value> {
        match self.take(1)?[0] {
            0 => visitor.visit_bool(false),
            1 => visitor.visit_bool(true),
            b => Err(Box::new(ErrorKind::InvalidBoolEncoding(b))),
        }
    }
    de_int!(deserialize_i8, visit_i8, i8, 1);
    de_int!(deserialize_i16, visit_i16, i16, 2);
    de_int!(deserialize_i32, visit_i32, i32, 4);
    de_int!(deserialize_i64, visit_i64, i64, 8);
    de_int!(deserialize_i128, visit_i128, i128, 16);
    de_int!(deserialize_u8, visit_u8, u8, 1);
    de_int!(deserialize_u16, visit_u16, u16, 2);
    de_int!(deserialize_u32, visit_u32, u32, 4);
    de_int!(deserialize_u64, visit_u64, u64, 8);
    de_int!(deserialize_u128, visit_u128, u128, 16);
    de_int!(deserialize_f32, visit_f32, f32, 4);
    de_int!(deserialize_f64, visit_f64, f64, 8);
    fn deserialize_char<V: Visitor<'de>>(self, visitor: V) -> Result<V::Value> {
        let first = self.take(1)?[0];
        let width = if first < 0x80 {
            1
        } else if first >> 5 == 0b110 {
            2
        } else if first >> 4 == 0b1110 {
            3
        } else if first >> 3 == 0b11110 {
            4
        } else {
            return Err(Box::new(ErrorKind::InvalidCharEncoding));
        };
        let mut buf = [first, 0, 0, 0];
        if width > 1 {
            let rest = self.take(width - 1)?;
            buf[1..width].copy_from_slice(rest);
        }
        let s = std::str::from_utf8(&buf[..width]).map_err(|_| Box::new(ErrorKind::InvalidCharEncoding))?;
        visitor.visit_char(s.chars().next().ok_or_else(|| Box::new(ErrorKind::InvalidCharEncoding))?)
    }
    fn deserialize_str<V: Visitor<'de>>(self, visitor: V) -> Result<V::Value> {
        visitor.visit_borrowed_str(self.str()?)
    }
    fn deserialize_string<V: Visitor<'de>>(self, visitor: V) -> Result<V::Value> {
        visitor.visit_string(self.str()?.to_owned())
    }
    fn deserialize_bytes<V: Visitor<'de>>(self, visitor: V) -> Result<V::Value> {
        let n = self.len()?;
        visitor.visit_borrowed_bytes(self.take(n)?)
    }
    fn deserialize_byte_buf<V: Visitor<'de>>(self, visitor: V) -> Result<V::Value> {
        let n = self.len()?;
        visitor.visit_byte_buf(self.take(n)?.to_vec())
    }
    fn deserialize_option<V: Visitor<'de>>(self, visitor: V) -> Result<V::Value> {
        match self.take(1)?[0] {
            0 => visitor.visit_none(),
            1 => visitor.visit_some(self),
            b => Err(Box::new(ErrorKind::InvalidTagEncoding(b as usize))),
        }
    }
    fn deserialize_unit<V: Visitor<'de>>(self, visitor: V) -> Result<V::Value> {
        visitor.visit_unit()
    }
    fn deserialize_unit_struct<V: Visitor<'de>>(self, _n: &'static str, visitor: V) -> Result<V::Value> {
        visitor.visit_unit()
    }
    fn deserialize_newtype_struct<V: Visitor<'de>>(self, _n: &'static str, visitor: V) -> Result<V::Value> {
        visitor.visit_newtype_struct(self)
    }
    fn deserialize_seq<V: Visitor<'de>>(self, visitor: V) -> Result<V::Value> {
        let n = self.len()?;
        visitor.visit_seq(Counted { de: self, left: n })
    }
    fn deserialize_tuple<V: Visitor<'de>>(self, len: usize, visitor: V) -> Result<V::Value> {
        visitor.visit_seq(Counted { de: self, left: len })
    }
    fn deserialize_tuple_struct<V: Visitor<'de>>(self, _n: &'static str, len: usize, visitor: V) -> Result<V::Value> {
        visitor.visit_seq(Counted { de: self, left: len })
    }
    fn deserialize_map<V: Visitor<'de>>(self, visitor: V) -> Result<V::Value> {
        let n = self.len()?;
        visitor.visit_map(Counted { de: self, left: n })
    }
    fn deserialize_struct<V: Visitor<'de>>(self, _n: &'static str, fields: &'static [&'static str], visitor: V)
                                           -> Result<V::Value> {
        visitor.visit_seq(Counted { de: self, left: fields.len() })
    }
    fn deserialize_enum<V: Visitor<'de>>(self, _n: &'static str, _variants: &'static [&'static str], visitor: V)
                                         -> Result<V::Value> {
        visitor.visit_enum(self)
    }
    fn deserialize_identifier<V: Visitor<'de>>(self, _v: V) -> Result<V::Value> {
        Err(Box::new(ErrorKind::Custom("Bincode does not support Deserializer::deserialize_identifier".into())))
    }
    fn deserialize_ignored_any<V: Visitor<'de>>(self, _v: V) -> Result<V::Value> {
        Err(Box::new(ErrorKind::Custom("Bincode does not support Deserializer::deserialize_ignored_any".into())))
    }
    fn is_human_readable(&self) -> bool {
        false
    }
}

struct Counted<'a, 'de> {
    de: &'a mut Deserializer<'de>,
    left: usize,
}

impl<'de, 'a> SeqAccess<'de> for Counted<'a, 'de> {
    type Error = Error;
    fn next_element_seed<T: DeserializeSeed<'de>>(&mut self, seed: T) -> Result<Option<T::Value>> {
        if self.left == 0 {
            return Ok(None);
        }
        self.left -= 1;
        seed.deserialize(&mut *self.de).map(Some)
    }
    fn size_hint(&self) -> Option<usize> {
        Some(self.left)
    }
}

impl<'de, 'a> MapAccess<'de> for Counted<'a, 'de> {
    type Error = Error;
    fn next_key_seed<K: DeserializeSeed<'de>>(&mut self, seed: K) -> Result<Option<K::Value>> {
        if self.left == 0 {
            return Ok(None);
        }
        self.left -= 1;
        seed.deserialize(&mut *self.de).map(Some)
    }
    fn next_value_seed<V: DeserializeSeed<'de>>(&mut self, seed: V) -> Result<V::Value> {
        seed.deserialize(&mut *self.de)
    }
    fn size_hint(&self) -> Option<usize> {
        Some(self.left)
    }
}

impl<'de, 'a> EnumAccess<'de> for &'a mut Deserializer<'de> {
    type Error = Error;
    type Variant = Self;
    fn variant_seed<V: DeserializeSeed<'de>>(self, seed: V) -> Result<(V::Value, Self)> {
        let b = self.take(4)?;
        let idx = u32::from_le_bytes(b.try_into().unwrap());
        let val = seed.deserialize(IntoDeserializer::<Error>::into_deserializer(idx))?;
        Ok((val, self))
    }
}

impl<'de, 'a> VariantAccess<'de> for &'a mut Deserializer<'de> {
    type Error = Error;
    fn unit_variant(self) -> Result<()> {
        Ok(())
    }
    fn newtype_variant_seed<T: DeserializeSeed<'de>>(self, seed: T) -> Result<T::Value> {
        seed.deserialize(self)
    }
    fn tuple_variant<V: Visitor<'de>>(self, len: usize, visitor: V) -> Result<V::Value> {
        de::Deserializer::deserialize_tuple(self, len, visitor)
    }
    fn struct_variant<V: Visitor<'de>>(self, fields: &'static [&'static str], visitor: V) -> Result<V::Value> {
        de::Deserializer::deserialize_tuple(self, fields.len(), visitor)
    }
}

#[cfg(test)]
mod tests {
    use super::*;
    use std::collections::BTreeMap;

    #[test]
    fn layout() {
        assert_eq!(serialize(&7u64).unwrap(), 7u64.to_le_bytes().to_vec());
        assert_eq!(serialize(&Some(1u8)).unwrap(), vec![1, 1]);
        assert_eq!(serialize(&Option::<u8>::None).unwrap(), vec![0]);
        assert_eq!(serialize("ab").unwrap(), vec![2, 0, 0, 0, 0, 0, 0, 0, b'a', b'b']);
        let m: BTreeMap<String, String> = BTreeMap::new();
        assert_eq!(serialize(&m).unwrap(), vec![0u8; 8]);
        let back: BTreeMap<String, String> = deserialize(&[0u8; 8]).unwrap();
        assert!(back.is_empty());
        let a: std::net::SocketAddr = "127.0.0.1:5002".parse().unwrap();
        let b: std::net::SocketAddr = deserialize(&serialize(&a).unwrap()).unwrap();
        assert_eq!(a, b);
    }
}
