//! Verification shim for `futures` (not in the offline cargo cache): the pieces that
//! `octopii/src/openraft/storage.rs` names (`Stream`, `TryStreamExt::try_next`) plus `stream::iter`
//! for the harness to build the entry stream handed to `RaftStateMachine::apply`.
use std::future::Future;
use std::pin::Pin;
use std::task::{Context, Poll};

pub trait Stream {
    type Item;
    fn poll_next(self: Pin<&mut Self>, cx: &mut Context<'_>) -> Poll<Option<Self::Item>>;
}

impl<S: ?Sized + Stream + Unpin> Stream for &mut S {
    type Item = S::Item;
    fn poll_next(mut self: Pin<&mut Self>, cx: &mut Context<'_>) -> Poll<Option<Self::Item>> {
        Pin::new(&mut **self).poll_next(cx)
    }
}

impl<S: ?Sized + Stream + Unpin> Stream for Box<S> {
    type Item = S::Item;
    fn poll_next(mut self: Pin<&mut Self>, cx: &mut Context<'_>) -> Poll<Option<Self::Item>> {
        Pin::new(&mut **self).poll_next(cx)
    }
}

pub struct TryNext<'a, S: ?Sized> {
    s: &'a mut S,
}

impl<'a, S, T, E> Future for TryNext<'a, S>
where
    S: ?Sized + Stream<Item = Result<T, E>> + Unpin,
{
    type Output = Result<Option<T>, E>;
    fn poll(mut self: Pin<&mut Self>, cx: &mut Context<'_>) -> Poll<Self::Output> {
        match Pin::new(&mut *self.s).poll_next(cx) {
            Poll::Pending => Poll::Pending,
            Poll::Ready(None) => Poll::Ready(Ok(None)),
            Poll::Ready(Some(Ok(v))) => Poll::Ready(Ok(Some(v))),
            Poll::Ready(Some(Err(e))) => Poll::Ready(Err(e)),
        }
    }
}

pub trait TryStreamExt: Stream {
    fn try_next<T, E>(&mut self) -> TryNext<'_, Self>
    where
        Self: Stream<Item = Result<T, E>> + Unpin,
    {
        TryNext { s: self }
    }
}

impl<S: ?Sized + Stream> TryStreamExt for S {}

pub mod stream {
    use super::*;

    pub struct Iter<I> {
        it: I,
    }

    impl<I> Unpin for Iter<I> {}

    pub fn iter<I: IntoIterator>(i: I) -> Iter<I::IntoIter> {
        Iter { it: i.into_iter() }
    }

    impl<I: Iterator> Stream for Iter<I> {
        type Item = I::Item;
        fn poll_next(mut self: Pin<&mut Self>, _cx: &mut Context<'_>) -> Poll<Option<I::Item>> {
            Poll::Ready(self.it.next())
        }
    }
}
