//! Shim for `quinn`: octopii/src/error.rs names three error types in `#[from]` variants. Nothing
//! in the log-store / state-machine-adapter world constructs them.
use std::fmt;

macro_rules! err_type {
    ($name:ident) => {
        #[derive(Debug, Clone)]
        pub struct $name(pub String);
        impl fmt::Display for $name {
            fn fmt(&self, f: &mut fmt::Formatter<'_>) -> fmt::Result {
                write!(f, "{}", self.0)
            }
        }
        impl std::error::Error for $name {}
    };
}
err_type!(ConnectionError);
err_type!(WriteError);
err_type!(ReadError);
