//! C21: one process lifetime of one history against the real `WalLogStore` / `WriteAheadLog` /
//! peer-address functions. The store is constructed the way `OpenRaftNode::new` does it
//! (`<wal_dir>/openraft_log`, `<wal_dir>/peer_addrs`, batch size 100, flush interval 100 ms).
use crate::Sink;
use octopii::openraft::storage::{new_wal_log_store, WalLogStore};
use octopii::openraft::types::{AppEntry, AppTypeConfig};
use octopii::peer_addr;
use octopii::wal::WriteAheadLog;
use openraft::storage::{IOFlushed, RaftLogReader, RaftLogStorage};
use openraft::{AdvLeaderId, BasicNode, Entry, EntryPayload, LogId, Membership, Vote};
use serde_json::{json, Value};
use std::collections::{BTreeMap, BTreeSet};
use std::net::SocketAddr;
use std::panic::{catch_unwind, AssertUnwindSafe};
use std::path::{Path, PathBuf};
use std::sync::Arc;
use std::time::Duration;
use tokio::runtime::block_on;

type C = AppTypeConfig;

pub struct Store {
    log: WalLogStore,
    peer_wal: Arc<WriteAheadLog>,
}

// ---- abstract <-> concrete values ---------------------------------------------------------------

pub fn payload_bytes(d: u64) -> Vec<u8> {
    let mut v = format!("cmd-{}-", d).into_bytes();
    let fill = (d * 37 % 200) as usize;
    for i in 0..fill {
        v.push(b'a' + ((d as usize + i) % 26) as u8);
    }
    v
}

fn payload_key(b: &[u8]) -> Option<u64> {
    let s = std::str::from_utf8(b).ok()?;
    let rest = s.strip_prefix("cmd-")?;
    let d: u64 = rest.split('-').next()?.parse().ok()?;
    if payload_bytes(d) == b {
        Some(d)
    } else {
        None
    }
}

pub fn membership(d: u64) -> Membership<C> {
    let set = |ids: &[u64]| ids.iter().copied().collect::<BTreeSet<u64>>();
    let (configs, nodes): (Vec<BTreeSet<u64>>, Vec<u64>) = match d {
        1 => (vec![set(&[1])], vec![1]),
        2 => (vec![set(&[1, 2])], vec![1, 2]),
        3 => (vec![set(&[1]), set(&[1, 2, 3])], vec![1, 2, 3]),
        _ => (vec![set(&[1, 2, 3])], vec![1, 2, 3, 4]),
    };
    let nodes: BTreeMap<u64, BasicNode> = nodes.into_iter().map(|n| (n, BasicNode::new(format!("127.0.0.1:{}", 7000 + n)))).collect();
    Membership::new_with_nodes(configs, nodes)
}

fn membership_key(m: &Membership<C>) -> Option<u64> {
    (1..=4).find(|d| &membership(*d) == m)
}

fn log_id(v: &Value) -> LogId<C> {
    LogId::new(AdvLeaderId::new(v["t"].as_u64().unwrap_or(0), v["n"].as_u64().unwrap_or(0)), v["i"].as_u64().unwrap_or(0))
}

fn log_id_json(l: &LogId<C>) -> Value {
    json!({"t": l.leader_id.term, "n": l.leader_id.node_id, "i": l.index})
}

fn opt_log_id_json(l: &Option<LogId<C>>) -> Value {
    match l {
        None => json!([]),
        Some(l) => json!([log_id_json(l)]),
    }
}

fn entry(v: &Value) -> Entry<C> {
    let d = v["d"].as_u64().unwrap_or(0);
    let payload = match v["k"].as_str().unwrap_or("blank") {
        "normal" => EntryPayload::Normal(AppEntry(payload_bytes(d))),
        "membership" => EntryPayload::Membership(membership(d)),
        _ => EntryPayload::Blank,
    };
    Entry { log_id: log_id(v), payload }
}

fn entry_json(e: &Entry<C>) -> Value {
    let (k, d) = match &e.payload {
        EntryPayload::Blank => ("blank", 0),
        EntryPayload::Normal(a) => match payload_key(&a.0) {
            Some(d) => ("normal", d),
            None => ("foreign", 0),
        },
        EntryPayload::Membership(m) => match membership_key(m) {
            Some(d) => ("membership", d),
            None => ("foreign", 0),
        },
    };
    json!({"t": e.log_id.leader_id.term, "n": e.log_id.leader_id.node_id, "i": e.log_id.index, "k": k, "d": d})
}

fn vote(v: &Value) -> Vote<C> {
    let (t, n) = (v["t"].as_u64().unwrap_or(0), v["n"].as_u64().unwrap_or(0));
    if v["c"].as_bool().unwrap_or(false) {
        Vote::new_committed(t, n)
    } else {
        Vote::new(t, n)
    }
}

fn vote_json(v: &Vote<C>) -> Value {
    json!({"t": v.leader_id.term, "n": v.leader_id.node_id, "c": v.committed})
}

fn res<T, E: std::fmt::Display>(r: &Result<T, E>) -> (&'static str, Value) {
    match r {
        Ok(_) => ("ok", Value::Null),
        Err(e) => ("err", json!(e.to_string())),
    }
}

fn with_err(mut ev: Value, err: Value) -> Value {
    if !err.is_null() {
        ev["err"] = err;
    }
    ev
}

// ---- open / observe ---------------------------------------------------------------------------------

fn open(dir: &Path) -> Result<(Store, Vec<(u64, SocketAddr)>), String> {
    block_on(async {
        std::fs::create_dir_all(dir).map_err(|e| e.to_string())?;
        let flush = Duration::from_millis(100);
        let log_wal = WriteAheadLog::new(dir.join("openraft_log"), 100, flush).await.map_err(|e| e.to_string())?;
        let log = new_wal_log_store(Arc::new(log_wal)).await.map_err(|e| e.to_string())?;
        let peer_wal = Arc::new(WriteAheadLog::new(dir.join("peer_addrs"), 100, flush).await.map_err(|e| e.to_string())?);
        // exactly once per open, like OpenRaftNode::new (the call consumes the WAL topic)
        let map = peer_addr::load(&peer_wal).await;
        let mut peers: Vec<(u64, SocketAddr)> = map.into_iter().collect();
        peers.sort();
        Ok((Store { log, peer_wal }, peers))
    })
}

const ALL_HI: u64 = 1_000_000;

fn observe_one(st: &mut Store, op: &Value, sink: &mut Sink) {
    match op["op"].as_str().unwrap_or("") {
        "read_vote" => {
            let r = block_on(st.log.read_vote());
            let (s, e) = res(&r);
            let v = match &r {
                Ok(Some(v)) => json!([vote_json(v)]),
                _ => json!([]),
            };
            sink.emit(with_err(json!({"ev": "read_vote", "st": s, "v": v}), e));
        }
        "read_committed" => {
            let r = block_on(st.log.read_committed());
            let (s, e) = res(&r);
            let c = match &r {
                Ok(c) => opt_log_id_json(c),
                _ => json!([]),
            };
            sink.emit(with_err(json!({"ev": "read_committed", "st": s, "c": c}), e));
        }
        "get_log_state" => {
            let r = block_on(st.log.get_log_state());
            let (s, e) = res(&r);
            let (p, l) = match &r {
                Ok(ls) => (opt_log_id_json(&ls.last_purged_log_id), opt_log_id_json(&ls.last_log_id)),
                _ => (json!([]), json!([])),
            };
            sink.emit(with_err(json!({"ev": "get_log_state", "st": s, "purged": p, "last": l}), e));
        }
        "get_entries" => {
            let lo = op["lo"].as_u64().unwrap_or(0);
            let hi = op["hi"].as_u64().unwrap_or(ALL_HI);
            // through a log reader, as openraft's replication does
            let r = block_on(async {
                let mut rd = st.log.get_log_reader().await;
                rd.try_get_log_entries(lo..hi).await
            });
            let (s, e) = res(&r);
            let es: Vec<Value> = match &r {
                Ok(es) => es.iter().map(entry_json).collect(),
                _ => vec![],
            };
            sink.emit(with_err(json!({"ev": "get_entries", "lo": lo, "hi": hi, "st": s, "es": es}), e));
        }
        _ => {}
    }
}

fn observe_all(st: &mut Store, sink: &mut Sink) {
    for o in [json!({"op": "read_vote"}), json!({"op": "read_committed"}), json!({"op": "get_log_state"}),
              json!({"op": "get_entries", "lo": 0, "hi": ALL_HI})] {
        observe_one(st, &o, sink);
    }
}

fn emit_open(kind: &Value, proc_: &str, r: &Result<(Store, Vec<(u64, SocketAddr)>), String>, sink: &mut Sink) {
    let (s, e) = res(r);
    let ev = if kind == "first" {
        json!({"ev": "open", "res": s})
    } else {
        json!({"ev": "reopen", "kind": kind, "proc": proc_, "res": s})
    };
    sink.emit(with_err(ev, e));
    if let Ok((_, peers)) = r {
        let m: Vec<Value> = peers.iter().map(|(id, a)| json!([id, a.to_string()])).collect();
        sink.emit(json!({"ev": "load_peers", "m": m}));
    }
}

// ---- operations -------------------------------------------------------------------------------------

/// Adds the duration of the call ("us", microseconds; diagnostic, not seen by TLC) to its event.
struct TimedSink<'a> {
    inner: &'a mut Sink,
    t0: std::time::Instant,
}

impl<'a> TimedSink<'a> {
    fn emit(&mut self, mut v: Value) {
        v["us"] = json!(self.t0.elapsed().as_micros() as u64);
        self.inner.emit(v);
    }
}

fn mutate(st: &mut Store, op: &Value, sink: &mut Sink) {
    let t0 = std::time::Instant::now();
    let mut timed = TimedSink { inner: sink, t0 };
    let sink = &mut timed;
    match op["op"].as_str().unwrap_or("") {
        "append" => {
            let es: Vec<Entry<C>> = op["es"].as_array().map(|a| a.iter().map(entry).collect()).unwrap_or_default();
            let (cb, slot) = IOFlushed::<C>::for_harness();
            let r = block_on(st.log.append(es, cb));
            let (s, e) = res(&r);
            let fl = matches!(&*slot.lock().unwrap(), Some(Ok(())));
            sink.emit(with_err(json!({"ev": "append", "es": op["es"], "res": s, "fl": fl}), e));
        }
        "truncate" => {
            let r = block_on(st.log.truncate(log_id(&op["at"])));
            let (s, e) = res(&r);
            sink.emit(with_err(json!({"ev": "truncate", "at": op["at"], "res": s}), e));
        }
        "purge" => {
            let r = block_on(st.log.purge(log_id(&op["at"])));
            let (s, e) = res(&r);
            sink.emit(with_err(json!({"ev": "purge", "at": op["at"], "res": s}), e));
        }
        "save_vote" => {
            let r = block_on(st.log.save_vote(&vote(&op["v"])));
            let (s, e) = res(&r);
            sink.emit(with_err(json!({"ev": "save_vote", "v": op["v"], "res": s}), e));
        }
        "save_committed" => {
            let c = op["c"].as_array().and_then(|a| a.first()).map(log_id);
            let r = block_on(st.log.save_committed(c));
            let (s, e) = res(&r);
            sink.emit(with_err(json!({"ev": "save_committed", "c": op["c"], "res": s}), e));
        }
        "record_peer" => {
            let id = op["id"].as_u64().unwrap_or(0);
            let addr: SocketAddr = op["addr"].as_str().unwrap_or("127.0.0.1:1").parse().expect("socket addr in history");
            let r = block_on(peer_addr::append(&st.peer_wal, id, addr));
            let (s, e) = res(&r);
            sink.emit(with_err(json!({"ev": "record_peer", "id": id, "addr": addr.to_string(), "res": s}), e));
        }
        "observe" => observe_all(st, sink.inner),
        _ => observe_one(st, op, sink.inner),
    }
}

static ARMED: std::sync::atomic::AtomicBool = std::sync::atomic::AtomicBool::new(false);

pub fn segment_main(specfile: &str) -> i32 {
    let spec: Value = serde_json::from_str(&std::fs::read_to_string(specfile).expect("segment spec")).expect("segment json");
    let dir = PathBuf::from(spec["dir"].as_str().expect("dir"));
    let mut sink = Sink::append_to(Path::new(spec["out"].as_str().expect("out")));
    let ops = spec["ops"].as_array().cloned().unwrap_or_default();
    let end = spec["end"].as_str().unwrap_or("clean").to_string();
    std::panic::set_hook(Box::new(|_| {}));

    if end == "kill_mid" {
        let delay = Duration::from_micros(spec["kill_delay_us"].as_u64().unwrap_or(50));
        std::thread::spawn(move || {
            while !ARMED.load(std::sync::atomic::Ordering::SeqCst) {
                std::hint::spin_loop();
            }
            let t0 = std::time::Instant::now();
            while t0.elapsed() < delay {
                std::hint::spin_loop();
            }
            unsafe { libc::_exit(0) }
        });
    }
    let mut current = String::from("open");
    let body = catch_unwind(AssertUnwindSafe(|| -> Result<Option<Store>, ()> {
        let r = open(&dir);
        emit_open(&spec["open"]["kind"], "new", &r, &mut sink);
        let mut st = match r {
            Ok((st, _)) => st,
            Err(_) => return Err(()),
        };
        observe_all(&mut st, &mut sink);
        for (oi, op) in ops.iter().enumerate() {
            current = op["op"].as_str().unwrap_or("?").to_string();
            if op["op"] == "reopen" {
                // clean reopen in the same process: drop everything, open again
                drop(st);
                let r = open(&dir);
                emit_open(&op["kind"], "same", &r, &mut sink);
                st = match r {
                    Ok((st, _)) => st,
                    Err(_) => return Err(()),
                };
                observe_all(&mut st, &mut sink);
            } else if end == "kill_mid" && oi + 1 == ops.len() {
                // Killed while this call is running: the killer thread (started with the segment)
                // _exit()s the process a few microseconds of busy-wait after being armed. If the call
                // returns first, its event is written and the process is killed between calls
                // instead; the parent sees which of the two happened (event present or not).
                ARMED.store(true, std::sync::atomic::Ordering::SeqCst);
                mutate(&mut st, op, &mut sink);
                unsafe { libc::_exit(0) }
            } else {
                mutate(&mut st, op, &mut sink);
            }
        }
        Ok(Some(st))
    }));
    match body {
        Err(p) => {
            let msg = p.downcast_ref::<String>().cloned().or_else(|| p.downcast_ref::<&str>().map(|s| s.to_string())).unwrap_or_default();
            let mut sink = Sink::append_to(Path::new(spec["out"].as_str().unwrap()));
            sink.emit(json!({"ev": "panic", "in": current, "msg": msg.chars().take(300).collect::<String>()}));
            unsafe { libc::_exit(3) }
        }
        Ok(Err(())) => 4, // open failed: recorded as an event; the rest of the history is abandoned
        Ok(Ok(st)) => {
            if end == "kill" || end == "kill_mid" {
                // killed: no destructor runs, no buffer is flushed, background threads die mid-flight
                unsafe { libc::_exit(0) }
            }
            drop(st);
            0
        }
    }
}
