//! logstore-driver: executes operation histories against the REAL octopii log store
//! (`WalLogStore` over `WriteAheadLog` over octopii's vendored engine, real files) and the sliced
//! peer-address functions (C21), and snapshot build/install scenarios against the REAL
//! state-machine adapter of `octopii/src/openraft/storage.rs` with the REAL
//! `distributed-walrus/src/metadata.rs` as application (C20, adapter half).
//!
//!   logstore-driver run --in <histories.ndjson> --out <traces.ndjson> --dir <scratch> [--timeout-s N]
//!   logstore-driver seg <segment.json>          (internal: one process lifetime of one history)
//!   logstore-driver sm  --in <cases.ndjson> --out <results.ndjson>
//!   logstore-driver info
//!
//! A panic / hang / abort of the code under test is recorded as an event, never a tool error.
include!(concat!(env!("OUT_DIR"), "/dw_mods.rs"));

mod sm;
mod store;

use serde_json::{json, Value};
use std::fs::{self, File, OpenOptions};
use std::io::{BufRead, BufReader, Write};
use std::path::{Path, PathBuf};
use std::process::{Command, Stdio};
use std::time::{Duration, Instant};

fn arg(args: &[String], name: &str) -> Option<String> {
    args.iter().position(|a| a == name).and_then(|i| args.get(i + 1).cloned())
}

fn main() {
    std::env::set_var("WALRUS_QUIET", "1");
    let args: Vec<String> = std::env::args().collect();
    let code = match args.get(1).map(|s| s.as_str()) {
        Some("run") => run(&args),
        Some("seg") => store::segment_main(&args[2]),
        Some("sm") => sm::main(&args),
        Some("info") => {
            println!("{}", json!({"octopii_src": octopii::OCTOPII_SRC, "dw_src": DW_SRC,
                                  "peer_slice_lines": octopii::peer_addr::SLICE_LINES}));
            0
        }
        _ => {
            eprintln!("usage: logstore-driver run|seg|sm|info ...");
            2
        }
    };
    std::process::exit(code);
}

pub struct Sink {
    f: File,
}

impl Sink {
    pub fn append_to(path: &Path) -> Sink {
        Sink { f: OpenOptions::new().create(true).append(true).open(path).expect("open trace sink") }
    }
    /// One write(2) per event: nothing is buffered in user space, so `_exit` loses nothing.
    pub fn emit(&mut self, v: Value) {
        let mut s = v.to_string();
        s.push('\n');
        self.f.write_all(s.as_bytes()).expect("write trace event");
    }
}

/// Splits a history into process lifetimes and runs each in a child process.
fn run(args: &[String]) -> i32 {
    let inp = arg(args, "--in").expect("--in");
    let outp = arg(args, "--out").expect("--out");
    let base = PathBuf::from(arg(args, "--dir").expect("--dir"));
    let timeout = Duration::from_secs(arg(args, "--timeout-s").and_then(|s| s.parse().ok()).unwrap_or(30));
    let keep = args.iter().any(|a| a == "--keep");
    fs::create_dir_all(&base).expect("scratch dir");
    let exe = std::env::current_exe().expect("current_exe");
    let mut sink = Sink::append_to(Path::new(&outp));
    let rd = BufReader::new(File::open(&inp).expect("open --in"));
    for (n, line) in rd.lines().enumerate() {
        let line = line.expect("read");
        if line.trim().is_empty() {
            continue;
        }
        let beh: Value = serde_json::from_str(&line).expect("history json");
        let id = beh["id"].as_str().unwrap_or("?").to_string();
        let dir = base.join(format!("h{}", n));
        let _ = fs::remove_dir_all(&dir);
        fs::create_dir_all(&dir).expect("history dir");
        sink.emit(json!({"ev": "reset", "g": id}));
        // segments
        let ops = beh["ops"].as_array().cloned().unwrap_or_default();
        // (how it is opened, its operations, how the lifetime ends: "kill" | "clean")
        let mut segs: Vec<(Value, Vec<Value>, String)> = vec![(json!({"kind": "first", "proc": "new"}), vec![], "clean".into())];
        for o in ops {
            let is_new_proc = o["op"] == "reopen" && (o["kind"] == "killed" || o["proc"] == "new");
            if is_new_proc {
                segs.last_mut().unwrap().2 = if o["kind"] == "killed" {
                    if o["mid"].as_bool().unwrap_or(false) { format!("kill_mid:{}", o["delay_us"].as_u64().unwrap_or(50)) } else { "kill".into() }
                } else {
                    "clean".into()
                };
                segs.push((json!({"kind": o["kind"], "proc": "new"}), vec![], "clean".into()));
            } else {
                segs.last_mut().unwrap().1.push(o);
            }
        }
        for (si, (open, sops, end)) in segs.into_iter().enumerate() {
            let segfile = dir.join(format!("seg{}.json", si));
            let evfile = dir.join(format!("seg{}.ndjson", si));
            let (end, delay) = match end.strip_prefix("kill_mid:") {
                Some(d) => ("kill_mid".to_string(), d.parse::<u64>().unwrap_or(50)),
                None => (end, 0),
            };
            let spec = json!({"dir": dir.join("wal").to_string_lossy(), "open": open, "ops": sops.clone(),
                              "end": end, "kill_delay_us": delay, "out": evfile.to_string_lossy()});
            fs::write(&segfile, spec.to_string()).expect("segment file");
            let mut child = Command::new(&exe)
                .arg("seg").arg(&segfile)
                .env("WALRUS_QUIET", "1")
                .stdout(Stdio::null())
                .stderr(Stdio::null())
                .spawn().expect("spawn segment");
            let t0 = Instant::now();
            let status = loop {
                match child.try_wait().expect("wait") {
                    Some(st) => break Some(st),
                    None => {
                        if t0.elapsed() > timeout {
                            let _ = child.kill();
                            let _ = child.wait();
                            break None;
                        }
                        std::thread::sleep(Duration::from_millis(2));
                    }
                }
            };
            // copy the child's events
            const MUT: [&str; 6] = ["append", "truncate", "purge", "save_vote", "save_committed", "record_peer"];
            let mut n_mut_events = 0;
            if let Ok(f) = File::open(&evfile) {
                for l in BufReader::new(f).lines().flatten() {
                    if let Ok(v) = serde_json::from_str::<Value>(&l) {
                        if MUT.contains(&v["ev"].as_str().unwrap_or("")) {
                            n_mut_events += 1;
                        }
                        sink.emit(v);
                    }
                }
            }
            if end == "kill_mid" {
                // the call that was running when the process died has no event: it is in flight
                let muts: Vec<&Value> = sops.iter().filter(|o| MUT.contains(&o["op"].as_str().unwrap_or(""))).collect();
                if n_mut_events + 1 == muts.len() && sops.last().map(|o| MUT.contains(&o["op"].as_str().unwrap_or(""))).unwrap_or(false) {
                    let mut ev = sops.last().unwrap().clone();
                    ev["call"] = ev["op"].clone();
                    ev["ev"] = json!("inflight");
                    ev.as_object_mut().unwrap().remove("op");
                    sink.emit(ev);
                }
            }
            match status {
                None => {
                    sink.emit(json!({"ev": "hang", "seg": si}));
                    break;
                }
                Some(st) => {
                    let rc = st.code().unwrap_or(-1);
                    if rc == 3 || rc == 4 {
                        break; // the child reported a panic / failed-open event itself
                    }
                    if rc != 0 {
                        sink.emit(json!({"ev": "died", "seg": si, "rc": rc}));
                        break;
                    }
                }
            }
        }
        if !keep {
            let _ = fs::remove_dir_all(&dir);
        }
    }
    if !keep {
        let _ = fs::remove_dir_all(&base);
    }
    0
}
