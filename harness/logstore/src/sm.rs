//! C20 (adapter half): snapshot build / install through the REAL state-machine adapter of
//! `octopii/src/openraft/storage.rs` (`MemStateMachine`: `apply`, `build_snapshot`,
//! `install_snapshot`, `get_current_snapshot`, `applied_state`) with the REAL
//! `distributed-walrus` `Metadata` (or octopii's own `KvStateMachine`) as the application.
//!
//! A case: committed entries e1..en (log ids (term,1,1..n)) and a list of operations over two nodes
//! A and B (`apply` the next k entries, `build` a snapshot, `install` the snapshot last built by the
//! other node); after every operation the full application state and the adapter's applied state of
//! both nodes are recorded, together with a reference (the application alone applying e1..ei). The
//! comparison is done by the caller (vlib/props_dist.py).
use crate::metadata::{ClusterState, Metadata, MetadataCmd};
use octopii::openraft::storage::new_mem_state_machine;
use octopii::openraft::types::{AppEntry, AppTypeConfig};
use octopii::{KvStateMachine, StateMachine, StateMachineTrait};
use openraft::storage::{ApplyResponder, EntryResponder, RaftSnapshotBuilder, RaftStateMachine, RespSlot};
use openraft::{AdvLeaderId, Entry, EntryPayload, LogId, StoredMembership};
use serde_json::{json, Value};
use std::collections::{BTreeMap, HashMap};
use std::fs::File;
use std::io::{BufRead, BufReader, Write};
use std::panic::{catch_unwind, AssertUnwindSafe};
use std::sync::{Arc, Mutex};
use tokio::runtime::block_on;

type C = AppTypeConfig;

fn cmd_bytes(app: &str, c: &Value) -> Vec<u8> {
    if app == "kv" {
        return match c["c"].as_str().unwrap_or("") {
            "set" => format!("SET {} {}", c["key"].as_str().unwrap_or("k"), c["val"].as_str().unwrap_or("v")).into_bytes(),
            "delete" => format!("DELETE {}", c["key"].as_str().unwrap_or("k")).into_bytes(),
            "get" => format!("GET {}", c["key"].as_str().unwrap_or("k")).into_bytes(),
            _ => b"BOGUS".to_vec(),
        };
    }
    let cmd = match c["c"].as_str().unwrap_or("") {
        "create" => MetadataCmd::CreateTopic {
            name: c["name"].as_str().unwrap_or("t").to_string(),
            initial_leader: c["leader"].as_u64().unwrap_or(1),
        },
        "rollover" => MetadataCmd::RolloverTopic {
            name: c["name"].as_str().unwrap_or("t").to_string(),
            new_leader: c["leader"].as_u64().unwrap_or(1),
            sealed_segment_entry_count: c["count"].as_u64().unwrap_or(0),
        },
        "upsert" => MetadataCmd::UpsertNode {
            node_id: c["node"].as_u64().unwrap_or(1),
            addr: c["addr"].as_str().unwrap_or("a").to_string(),
        },
        _ => return vec![0xff, 0xff, 0xff, 0xff, 0x01], // undecodable
    };
    bincode::serialize(&cmd).expect("encode MetadataCmd")
}

fn sorted<K: Ord + Clone, V: Clone>(m: &HashMap<K, V>) -> BTreeMap<K, V> {
    m.iter().map(|(k, v)| (k.clone(), v.clone())).collect()
}

fn cluster_json(s: &ClusterState) -> Value {
    let topics: Vec<Value> = sorted(&s.topics).iter().map(|(name, t)| {
        json!({"name": name, "cur": t.current_segment, "leader": t.leader_node, "last_sealed": t.last_sealed_entry_offset,
               "sealed": sorted(&t.sealed_segments).into_iter().collect::<Vec<_>>(),
               "seg_leaders": sorted(&t.segment_leaders).into_iter().collect::<Vec<_>>()})
    }).collect();
    json!({"topics": topics, "nodes": sorted(&s.nodes).into_iter().collect::<Vec<_>>()})
}

enum App {
    Meta(Metadata),
    Kv(Arc<KvStateMachine>),
}

impl App {
    fn handle(&self) -> StateMachine {
        match self {
            App::Meta(m) => Arc::new(m.clone()),
            App::Kv(k) => k.clone(),
        }
    }
    /// Full application state, canonical JSON. For `Metadata` it is decoded from its own
    /// `snapshot()` bytes and cross-checked against the accessors.
    fn state(&self) -> Value {
        match self {
            App::Meta(m) => {
                let bytes = StateMachineTrait::snapshot(m);
                let cs: ClusterState = match bincode::deserialize(&bytes) {
                    Ok(c) => c,
                    Err(e) => return json!({"undecodable_snapshot": e.to_string()}),
                };
                let mut v = cluster_json(&cs);
                // accessor view
                let mut acc_ok = true;
                for (name, t) in cs.topics.iter() {
                    match m.get_topic_state(name) {
                        Some(a) => {
                            if a.current_segment != t.current_segment || a.leader_node != t.leader_node
                                || a.sealed_segments != t.sealed_segments || a.segment_leaders != t.segment_leaders
                                || a.last_sealed_entry_offset != t.last_sealed_entry_offset {
                                acc_ok = false;
                            }
                        }
                        None => acc_ok = false,
                    }
                }
                let mut addrs = m.all_node_addrs();
                addrs.sort();
                let mut want: Vec<(u64, String)> = cs.nodes.iter().map(|(k, v)| (*k, v.clone())).collect();
                want.sort();
                if addrs != want {
                    acc_ok = false;
                }
                v["accessors_agree"] = json!(acc_ok);
                v
            }
            App::Kv(k) => {
                let bytes = StateMachineTrait::snapshot(&**k);
                match bincode::deserialize::<HashMap<Vec<u8>, Vec<u8>>>(&bytes) {
                    Ok(m) => {
                        let b: BTreeMap<String, String> = m.iter()
                            .map(|(k, v)| (String::from_utf8_lossy(k).to_string(), String::from_utf8_lossy(v).to_string())).collect();
                        json!({"kv": b.into_iter().collect::<Vec<_>>()})
                    }
                    Err(e) => json!({"undecodable_snapshot": e.to_string()}),
                }
            }
        }
    }
}

struct Node {
    app: App,
    sm: Arc<octopii::openraft::storage::MemStateMachine>,
    responses: RespSlot<C>,
}

fn new_node(app: &str) -> Node {
    let app = if app == "kv" { App::Kv(Arc::new(KvStateMachine::in_memory())) } else { App::Meta(Metadata::new()) };
    let sm = new_mem_state_machine(app.handle());
    Node { app, sm, responses: Arc::new(Mutex::new(Vec::new())) }
}

fn mk_entry(app: &str, idx: u64, e: &Value) -> Entry<C> {
    let term = e["t"].as_u64().unwrap_or(1);
    let payload = match e["k"].as_str().unwrap_or("normal") {
        "blank" => EntryPayload::Blank,
        "membership" => EntryPayload::Membership(crate::store::membership(e["d"].as_u64().unwrap_or(1))),
        _ => EntryPayload::Normal(AppEntry(cmd_bytes(app, &e["cmd"]))),
    };
    Entry { log_id: LogId::new(AdvLeaderId::new(term, 1), idx), payload }
}

fn log_id_json(l: &Option<LogId<C>>) -> Value {
    match l {
        None => json!([]),
        Some(l) => json!([{"t": l.leader_id.term, "n": l.leader_id.node_id, "i": l.index}]),
    }
}

fn membership_json(m: &StoredMembership<C>) -> Value {
    json!({"log_id": log_id_json(m.log_id()),
           "configs": m.membership().get_joint_config().iter().map(|c| c.iter().copied().collect::<Vec<u64>>()).collect::<Vec<_>>(),
           "nodes": m.membership().nodes().map(|(k, v)| json!([k, v.addr])).collect::<Vec<_>>()})
}

impl Node {
    /// Applies entries[from..to] (0-based, exclusive) in batches of `batch`; returns the per-call results.
    fn apply(&mut self, app: &str, entries: &[Value], from: usize, to: usize, batch: usize) -> Vec<Value> {
        let mut out = Vec::new();
        let mut i = from;
        while i < to {
            let j = (i + batch.max(1)).min(to);
            let items: Vec<Result<EntryResponder<C>, std::io::Error>> = (i..j)
                .map(|k| Ok((mk_entry(app, k as u64 + 1, &entries[k]), Some(ApplyResponder::for_harness(self.responses.clone())))))
                .collect();
            let before = self.responses.lock().unwrap().len();
            let mut sm = self.sm.clone();
            let r = block_on(sm.apply(futures::stream::iter(items)));
            let got = self.responses.lock().unwrap().len() - before;
            out.push(match r {
                Ok(()) => json!({"from": i + 1, "to": j, "res": "ok", "responses": got}),
                Err(e) => json!({"from": i + 1, "to": j, "res": "err", "err": e.to_string(), "responses": got}),
            });
            i = j;
        }
        out
    }

    fn view(&self) -> Value {
        let mut sm = self.sm.clone();
        let (last, mem) = block_on(sm.applied_state()).expect("applied_state");
        let resp: Vec<String> = self.responses.lock().unwrap().iter().map(|r| String::from_utf8_lossy(&r.0).to_string()).collect();
        json!({"app": self.app.state(), "last_applied": log_id_json(&last), "membership": membership_json(&mem), "responses": resp})
    }
}

fn hex(b: &[u8]) -> String {
    b.iter().map(|x| format!("{:02x}", x)).collect()
}

/// Reference: the application alone (no adapter), applying e1..ei one by one: its full state after
/// every prefix. The oracle compares a node whose adapter reports last_applied = i with ref[i].
fn reference_states(app: &str, entries: &[Value]) -> Vec<Value> {
    let r = new_node(app);
    let mut out = vec![r.app.state()];
    let h = r.app.handle();
    for e in entries {
        if e["k"].as_str().unwrap_or("normal") == "normal" {
            let _ = h.apply(&cmd_bytes(app, &e["cmd"]));
        }
        out.push(r.app.state());
    }
    out
}

fn applied_index(n: &Node) -> usize {
    let mut sm = n.sm.clone();
    block_on(sm.applied_state()).map(|(l, _)| l.map(|x| x.index as usize).unwrap_or(0)).unwrap_or(0)
}

/// case = {"id", "app": "metadata"|"kv", "entries": [...], "ops": [{"op":"apply","n":"A","k":2} |
/// {"op":"build","n":"A"} | {"op":"install","m":"B","from":"A"[,"corrupt":true]}]}.
/// `apply` feeds the adapter the next k entries after the index its own applied_state() reports, in
/// ONE call (one stream), as openraft does. After every op the views of all nodes are recorded.
fn run_case(case: &Value) -> Value {
    let app = case["app"].as_str().unwrap_or("metadata");
    let entries = case["entries"].as_array().cloned().unwrap_or_default();
    let n = entries.len();
    let mut nodes: BTreeMap<String, Node> = BTreeMap::new();
    for name in ["A", "B"] {
        nodes.insert(name.to_string(), new_node(app));
    }
    // last built snapshot per node: (meta, bytes)
    let mut built: BTreeMap<String, (openraft::storage::SnapshotMeta<C>, Vec<u8>)> = BTreeMap::new();
    let mut steps: Vec<Value> = Vec::new();
    for op in case["ops"].as_array().cloned().unwrap_or_default() {
        let mut step = json!({"op": op});
        match op["op"].as_str().unwrap_or("") {
            "apply" => {
                let name = op["n"].as_str().unwrap_or("A").to_string();
                let node = nodes.get_mut(&name).expect("node");
                let from = applied_index(node);
                let to = (from + op["k"].as_u64().unwrap_or(1) as usize).min(n);
                let r = node.apply(app, &entries, from, to, to.saturating_sub(from).max(1));
                step["res"] = json!(r);
            }
            "build" => {
                let name = op["n"].as_str().unwrap_or("A").to_string();
                let node = nodes.get_mut(&name).expect("node");
                let r = block_on(async {
                    let mut sm = node.sm.clone();
                    let mut builder = sm.get_snapshot_builder().await;
                    builder.build_snapshot().await
                });
                match r {
                    Ok(snap) => {
                        let bytes = snap.snapshot.get_ref().clone();
                        let app_bytes = match &node.app {
                            App::Meta(m) => StateMachineTrait::snapshot(m),
                            App::Kv(k) => StateMachineTrait::snapshot(&**k),
                        };
                        let cur = block_on(async {
                            let mut sm = node.sm.clone();
                            sm.get_current_snapshot().await
                        });
                        let cur_ok = match cur {
                            Ok(Some(c)) => c.meta == snap.meta && c.snapshot.get_ref() == &bytes,
                            _ => false,
                        };
                        step["res"] = json!({"res": "ok", "snapshot_id": snap.meta.snapshot_id,
                                             "last_log_id": log_id_json(&snap.meta.last_log_id),
                                             "membership": membership_json(&snap.meta.last_membership),
                                             "bytes_hex": hex(&bytes), "len": bytes.len(),
                                             "app_snapshot_len": app_bytes.len(),
                                             "equals_app_snapshot": app_bytes == bytes,
                                             "current_snapshot_matches": cur_ok});
                        built.insert(name.clone(), (snap.meta.clone(), bytes));
                    }
                    Err(e) => step["res"] = json!({"res": "err", "err": e.to_string()}),
                }
            }
            "install" => {
                let m = op["m"].as_str().unwrap_or("B").to_string();
                let from = op["from"].as_str().unwrap_or("A").to_string();
                match built.get(&from).cloned() {
                    None => step["res"] = json!({"res": "skipped", "why": "no snapshot built on sender"}),
                    Some((bmeta, bbytes)) => {
                        // The follower receives what the sender's get_current_snapshot() returns at this
                        // moment (as openraft's replication does), not the value build_snapshot returned
                        // earlier: it must still be the snapshot that was built.
                        let fetched = {
                            let sender = nodes.get_mut(&from).expect("sender");
                            block_on(async {
                                let mut sm = sender.sm.clone();
                                sm.get_current_snapshot().await
                            })
                        };
                        let (meta, mut bytes, sender_matches) = match fetched {
                            Ok(Some(c)) => {
                                let b = c.snapshot.get_ref().clone();
                                let same = c.meta == bmeta && b == bbytes;
                                (c.meta.clone(), b, same)
                            }
                            _ => (bmeta.clone(), bbytes.clone(), false),
                        };
                        let corrupt = op["corrupt"].as_bool().unwrap_or(false);
                        if corrupt {
                            // damaged in transit: the last byte is missing (never decodes: every
                            // snapshot format here ends in a length-prefixed map)
                            if bytes.pop().is_none() {
                                bytes.push(0xff);
                            }
                        }
                        let node = nodes.get_mut(&m).expect("node");
                        // the bytes travel as they would over the network
                        let r = block_on(async {
                            let mut sm = node.sm.clone();
                            let mut recv = sm.begin_receiving_snapshot().await?;
                            recv.get_mut().write_all(&bytes)?;
                            recv.set_position(0);
                            sm.install_snapshot(&meta, recv).await
                        });
                        let cur = block_on(async {
                            let mut sm = node.sm.clone();
                            sm.get_current_snapshot().await
                        });
                        let cur_ok = match cur {
                            Ok(Some(c)) => c.meta == meta && c.snapshot.get_ref() == &bytes,
                            _ => false,
                        };
                        step["res"] = match r {
                            Ok(()) => json!({"res": "ok", "current_snapshot_matches": cur_ok, "corrupt": corrupt,
                                             "sender_current_is_built": sender_matches,
                                             "snap_last": log_id_json(&meta.last_log_id)}),
                            Err(e) => json!({"res": "err", "err": e.to_string(), "current_snapshot_matches": cur_ok,
                                             "corrupt": corrupt, "sender_current_is_built": sender_matches,
                                             "snap_last": log_id_json(&meta.last_log_id)}),
                        };
                    }
                }
            }
            _ => {}
        }
        let mut views = serde_json::Map::new();
        for (name, node) in nodes.iter() {
            views.insert(name.clone(), node.view());
        }
        step["views"] = Value::Object(views);
        steps.push(step);
    }
    json!({"id": case["id"], "app": app, "n": n, "steps": steps, "ref": reference_states(app, &entries)})
}

pub fn main(args: &[String]) -> i32 {
    let inp = crate::arg(args, "--in").expect("--in");
    let outp = crate::arg(args, "--out").expect("--out");
    let mut out = File::create(&outp).expect("create --out");
    std::panic::set_hook(Box::new(|_| {}));
    for line in BufReader::new(File::open(&inp).expect("open --in")).lines() {
        let line = line.expect("read");
        if line.trim().is_empty() {
            continue;
        }
        let case: Value = serde_json::from_str(&line).expect("case json");
        let r = catch_unwind(AssertUnwindSafe(|| run_case(&case)));
        let v = match r {
            Ok(v) => v,
            Err(p) => {
                let msg = p.downcast_ref::<String>().cloned().or_else(|| p.downcast_ref::<&str>().map(|s| s.to_string())).unwrap_or_default();
                json!({"id": case["id"], "panic": msg.chars().take(300).collect::<String>()})
            }
        };
        writeln!(out, "{}", v).expect("write result");
    }
    0
}
