//! Mirror of the crate layout of `/repo/octopii` for the parts that can be compiled offline. Every
//! module below except `openraft::peer_addr`'s two `pub` wrappers is the repository's own file,
//! unmodified (see build.rs).
include!(concat!(env!("OUT_DIR"), "/mods.rs"));

pub use error::{OctopiiError, Result};
pub use state_machine::{KvStateMachine, StateMachine, StateMachineTrait, WalBackedStateMachine};

/// `PeerAddrRecord`, `load_peer_addr_records`, `append_peer_addr_record` exactly as written in
/// `octopii/src/openraft/node.rs` (textual slice), with the `use` lines that file has for them.
pub mod peer_addr {
    use crate::error::Result;
    use crate::wal::WriteAheadLog;
    use bytes::Bytes;
    use serde::{Deserialize, Serialize};
    use std::collections::HashMap;
    use std::net::SocketAddr;
    use std::sync::Arc;

    include!(concat!(env!("OUT_DIR"), "/peer_addr_slice.rs"));

    /// Where the slice came from (`first..last` line of node.rs).
    pub const SLICE_LINES: &str = env!("PEER_SLICE_LINES");

    pub async fn load(wal: &Arc<WriteAheadLog>) -> HashMap<u64, SocketAddr> {
        load_peer_addr_records(wal).await
    }

    pub async fn append(wal: &Arc<WriteAheadLog>, peer_id: u64, addr: SocketAddr) -> Result<()> {
        append_peer_addr_record(wal, peer_id, addr).await
    }
}
