//! Generates `$OUT_DIR/dw_mods.rs`: `#[path = "<DW_SRC>/metadata.rs"] pub mod metadata;` so that the
//! unmodified `distributed-walrus/src/metadata.rs` is compiled into the driver (it names
//! `octopii::StateMachineTrait`, which resolves to the mirror crate, and `bincode`, the shim).
//! DW_SRC defaults to $VERIF_REPO/distributed-walrus/src (default /repo/...).
use std::env;
use std::fs;
use std::path::PathBuf;

fn main() {
    println!("cargo:rerun-if-env-changed=DW_SRC");
    println!("cargo:rerun-if-env-changed=VERIF_REPO");
    let repo = env::var("VERIF_REPO").unwrap_or_else(|_| "/repo".to_string());
    let src = env::var("DW_SRC").ok().filter(|s| !s.is_empty()).unwrap_or_else(|| format!("{}/distributed-walrus/src", repo));
    let src = fs::canonicalize(&src).unwrap_or_else(|e| panic!("DW_SRC {} not usable: {}", src, e));
    let src = src.to_string_lossy().to_string();
    let p = format!("{}/metadata.rs", src);
    if !std::path::Path::new(&p).is_file() {
        panic!("logstore harness: {} is missing", p);
    }
    println!("cargo:rerun-if-changed={}", p);
    let out = PathBuf::from(env::var("OUT_DIR").unwrap());
    fs::write(out.join("dw_mods.rs"),
              format!("#[path = \"{src}/metadata.rs\"]\npub mod metadata;\npub const DW_SRC: &str = \"{src}\";\n", src = src)).unwrap();
}
