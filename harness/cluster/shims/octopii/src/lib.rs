//! Verification shim for `octopii` as used by `distributed-walrus` (DESIGN.md 4.4).
//!
//! Raft is **assumed**, not implemented (property C19 is out of scope): the cluster shares one
//! committed command sequence. `propose` (leader only, like `client_write`) appends to it and
//! returns once the *leader* has applied the entry; every node has its own separately
//! schedulable apply task that feeds the committed commands, in order, to the node's REAL
//! state machine. `rpc_handler().request(..)` routes a request to the target node's registered
//! handler, which runs inline in the calling task (its scheduling points are the caller's).

use bytes::Bytes;
use serde::Serialize;
use std::collections::{BTreeMap, BTreeSet, HashMap};
use std::future::Future;
use std::net::SocketAddr;
use std::pin::Pin;
use std::sync::{Arc, Mutex as StdMutex};
use std::time::Duration;
use tokio::sim::{self, Signal};

// ------------------------------------------------------------------------------------------------
// state machine trait (as octopii/src/state_machine.rs)

pub trait StateMachineTrait: Send + Sync {
    fn apply(&self, command: &[u8]) -> std::result::Result<Bytes, String>;
    fn snapshot(&self) -> Vec<u8>;
    fn restore(&self, data: &[u8]) -> std::result::Result<(), String>;
    fn compact(&self) -> std::result::Result<(), String> {
        Ok(())
    }
}

pub type StateMachine = Arc<dyn StateMachineTrait>;

// ------------------------------------------------------------------------------------------------
// errors

#[derive(Debug)]
pub enum OctopiiError {
    Rpc(String),
    NotLeader(Option<u64>),
}

impl std::fmt::Display for OctopiiError {
    fn fmt(&self, f: &mut std::fmt::Formatter<'_>) -> std::fmt::Result {
        match self {
            OctopiiError::Rpc(s) => write!(f, "RPC error: {}", s),
            OctopiiError::NotLeader(l) => write!(f, "RPC error: client_write: forward to leader {:?}", l),
        }
    }
}
impl std::error::Error for OctopiiError {}

pub type Result<T> = std::result::Result<T, OctopiiError>;

// ------------------------------------------------------------------------------------------------
// rpc types (as octopii/src/rpc/message.rs)

pub mod rpc {
    use bytes::Bytes;

    pub type MessageId = u64;

    #[derive(Debug, Clone)]
    pub struct RpcRequest {
        pub id: MessageId,
        pub payload: RequestPayload,
    }

    #[derive(Debug, Clone)]
    pub enum RequestPayload {
        RaftMessage { message: Bytes },
        OpenRaft { kind: String, data: Bytes },
        Custom { operation: String, data: Bytes },
    }

    #[derive(Debug, Clone)]
    pub struct RpcResponse {
        pub id: MessageId,
        pub payload: ResponsePayload,
    }

    #[derive(Debug, Clone)]
    pub enum ResponsePayload {
        AppendEntriesResponse { term: u64, success: bool },
        RequestVoteResponse { term: u64, vote_granted: bool },
        SnapshotResponse { term: u64, success: bool },
        OpenRaft { kind: String, data: Bytes },
        CustomResponse { success: bool, data: Bytes },
        Error { message: String },
    }

    pub use crate::RpcHandler;
}

pub type BoxFuture<T> = Pin<Box<dyn Future<Output = T>>>;
pub type Handler = Arc<dyn Fn(rpc::RpcRequest) -> BoxFuture<rpc::ResponsePayload>>;

// ------------------------------------------------------------------------------------------------
// metrics (the subset of openraft's RaftMetrics the code reads)

#[derive(Debug, Clone, Copy, PartialEq, Eq, Serialize)]
pub enum ServerState {
    Learner,
    Follower,
    Candidate,
    Leader,
    Shutdown,
}

#[derive(Debug, Clone, Default, Serialize)]
pub struct Membership {
    configs: Vec<BTreeSet<u64>>,
    learners: BTreeSet<u64>,
}

impl Membership {
    pub fn get_joint_config(&self) -> &Vec<BTreeSet<u64>> {
        &self.configs
    }
    pub fn voter_ids(&self) -> impl Iterator<Item = u64> + '_ {
        self.configs.iter().flat_map(|c| c.iter().copied())
    }
    pub fn learner_ids(&self) -> impl Iterator<Item = u64> + '_ {
        self.learners.iter().copied()
    }
}

#[derive(Debug, Clone, Default, Serialize)]
pub struct StoredMembership {
    membership: Membership,
}

impl StoredMembership {
    pub fn membership(&self) -> &Membership {
        &self.membership
    }
}

#[derive(Debug, Clone, Serialize)]
pub struct RaftMetrics {
    pub id: u64,
    pub current_term: u64,
    pub state: ServerState,
    pub current_leader: Option<u64>,
    pub last_log_index: Option<u64>,
    pub last_applied: Option<u64>,
    pub membership_config: Arc<StoredMembership>,
}

// ------------------------------------------------------------------------------------------------
// the simulated cluster

#[derive(Debug, Clone)]
pub enum ClusterEvent {
    /// `cmd` became entry `idx` (1-based) of the committed sequence; proposed through node `by`.
    Commit { idx: usize, cmd: Vec<u8>, by: u64 },
    /// node applied entry `idx`; `ok` is whether the state machine accepted it
    Apply { node: u64, idx: usize, ok: bool },
    Rpc { from: u64, to: u64, id: u64 },
}

#[derive(Default)]
struct ClusterInner {
    committed: Vec<Vec<u8>>,
    applied: BTreeMap<u64, usize>,
    results: HashMap<usize, Bytes>,
    leader: Option<u64>,
    voters: BTreeSet<u64>,
    learners: BTreeSet<u64>,
    addrs: HashMap<SocketAddr, u64>,
    handlers: HashMap<u64, Handler>,
    peer_addrs: HashMap<(u64, u64), SocketAddr>,
    events: Vec<ClusterEvent>,
    next_rpc_id: u64,
}

#[derive(Default)]
pub struct Cluster {
    inner: StdMutex<ClusterInner>,
    commit_sig: Signal,
    apply_sig: Signal,
}

// Handlers are `Rc`-free but not `Send`; the whole simulation is single-threaded.
unsafe impl Send for Cluster {}
unsafe impl Sync for Cluster {}

impl Cluster {
    pub fn new() -> Arc<Cluster> {
        Arc::new(Cluster::default())
    }

    pub fn set_leader(&self, id: Option<u64>) {
        self.inner.lock().unwrap().leader = id;
    }

    pub fn leader(&self) -> Option<u64> {
        self.inner.lock().unwrap().leader
    }

    pub fn add_voter(&self, id: u64) {
        let mut g = self.inner.lock().unwrap();
        g.learners.remove(&id);
        g.voters.insert(id);
    }

    pub fn committed_len(&self) -> usize {
        self.inner.lock().unwrap().committed.len()
    }

    pub fn applied(&self, node: u64) -> usize {
        self.inner.lock().unwrap().applied.get(&node).copied().unwrap_or(0)
    }

    pub fn take_events(&self) -> Vec<ClusterEvent> {
        std::mem::take(&mut self.inner.lock().unwrap().events)
    }

    fn has_unapplied(&self, node: u64) -> bool {
        let g = self.inner.lock().unwrap();
        g.applied.get(&node).copied().unwrap_or(0) < g.committed.len()
    }

    fn apply_one(&self, node: u64, sm: &StateMachine) {
        let (idx, cmd) = {
            let g = self.inner.lock().unwrap();
            let a = g.applied.get(&node).copied().unwrap_or(0);
            if a >= g.committed.len() {
                return;
            }
            (a + 1, g.committed[a].clone())
        };
        // the REAL state machine of that node
        let res = sm.apply(&cmd);
        let mut g = self.inner.lock().unwrap();
        g.applied.insert(node, idx);
        let ok = res.is_ok();
        if g.leader == Some(node) {
            // octopii's adapter answers an apply error with an empty response
            g.results.insert(idx, res.unwrap_or_default());
        }
        g.events.push(ClusterEvent::Apply { node, idx, ok });
        drop(g);
        self.apply_sig.notify_all();
    }
}

pub struct RpcHandler {
    node: u64,
    cluster: Arc<Cluster>,
}

impl RpcHandler {
    /// Routes the request to the handler registered by the node listening on `addr`; the
    /// handler runs inline. Timeouts are not simulated (the virtual clock never gets there).
    pub async fn request(
        &self,
        addr: SocketAddr,
        payload: rpc::RequestPayload,
        _timeout: Duration,
    ) -> Result<rpc::RpcResponse> {
        sim::yield_labeled("rpc.request").await;
        let (id, target) = {
            let mut g = self.cluster.inner.lock().unwrap();
            g.next_rpc_id += 1;
            let id = g.next_rpc_id;
            let Some(&to) = g.addrs.get(&addr) else {
                return Err(OctopiiError::Rpc(format!("connect to {} failed", addr)));
            };
            let Some(h) = g.handlers.get(&to).cloned() else {
                return Err(OctopiiError::Rpc(format!("no handler on node {}", to)));
            };
            g.events.push(ClusterEvent::Rpc { from: self.node, to, id });
            (id, h)
        };
        let resp = target(rpc::RpcRequest { id, payload }).await;
        sim::yield_labeled("rpc.response").await;
        Ok(rpc::RpcResponse { id, payload: resp })
    }
}

pub struct OctopiiNode {
    id: u64,
    cluster: Arc<Cluster>,
    sm: StateMachine,
    rpc: Arc<RpcHandler>,
}

impl OctopiiNode {
    /// Simulation constructor (the real one needs QUIC + openraft).
    pub fn new_sim(id: u64, addr: SocketAddr, cluster: Arc<Cluster>, sm: StateMachine) -> OctopiiNode {
        {
            let mut g = cluster.inner.lock().unwrap();
            g.addrs.insert(addr, id);
            g.applied.entry(id).or_insert(0);
        }
        let rpc = Arc::new(RpcHandler { node: id, cluster: cluster.clone() });
        OctopiiNode { id, cluster, sm, rpc }
    }

    pub fn cluster(&self) -> &Arc<Cluster> {
        &self.cluster
    }

    /// The node's apply loop: one committed command per scheduling step, through the node's
    /// REAL `StateMachineTrait::apply`.
    pub fn spawn_apply_task(self: &Arc<Self>) -> sim::TaskId {
        let me = self.clone();
        sim::handle().spawn_named(&format!("apply{}", self.id), async move {
            loop {
                // blocked while there is nothing to apply; once woken by a commit the task is runnable and
                // its next poll IS the apply step (exactly one command per poll)
                me.cluster
                    .commit_sig
                    .wait_until("apply.idle", || me.cluster.has_unapplied(me.id))
                    .await;
                me.cluster.apply_one(me.id, &me.sm);
                if me.cluster.has_unapplied(me.id) {
                    sim::yield_labeled("apply").await;
                }
            }
        })
    }

    pub fn rpc_handler(&self) -> Arc<RpcHandler> {
        self.rpc.clone()
    }

    pub async fn set_custom_rpc_handler<F>(&self, handler: F)
    where
        F: Fn(rpc::RpcRequest) -> BoxFuture<rpc::ResponsePayload> + 'static,
    {
        self.cluster.inner.lock().unwrap().handlers.insert(self.id, Arc::new(handler));
    }

    pub async fn start(&self) -> Result<()> {
        Ok(())
    }

    pub async fn campaign(&self) -> Result<()> {
        let mut g = self.cluster.inner.lock().unwrap();
        g.voters.insert(self.id);
        g.leader = Some(self.id);
        Ok(())
    }

    /// `client_write`: only the leader accepts; returns the leader's apply result.
    pub async fn propose(&self, command: Vec<u8>) -> Result<Bytes> {
        sim::yield_labeled("propose").await;
        let idx = {
            let mut g = self.cluster.inner.lock().unwrap();
            if g.leader != Some(self.id) {
                return Err(OctopiiError::NotLeader(g.leader));
            }
            g.committed.push(command.clone());
            let idx = g.committed.len();
            g.events.push(ClusterEvent::Commit { idx, cmd: command, by: self.id });
            idx
        };
        self.cluster.commit_sig.notify_all();
        let leader = self.id;
        self.cluster
            .apply_sig
            .wait_until("propose.wait_applied", || self.cluster.applied(leader) >= idx)
            .await;
        let r = self.cluster.inner.lock().unwrap().results.remove(&idx).unwrap_or_default();
        Ok(r)
    }

    pub async fn query(&self, command: &[u8]) -> Result<Bytes> {
        self.sm.apply(command).map_err(OctopiiError::Rpc)
    }

    pub async fn is_leader(&self) -> bool {
        self.cluster.inner.lock().unwrap().leader == Some(self.id)
    }

    pub async fn has_leader(&self) -> bool {
        self.cluster.inner.lock().unwrap().leader.is_some()
    }

    pub async fn add_learner(&self, peer_id: u64, addr: SocketAddr) -> Result<()> {
        let mut g = self.cluster.inner.lock().unwrap();
        if g.leader != Some(self.id) {
            return Err(OctopiiError::NotLeader(g.leader));
        }
        if !g.voters.contains(&peer_id) {
            g.learners.insert(peer_id);
        }
        g.peer_addrs.insert((self.id, peer_id), addr);
        Ok(())
    }

    pub async fn promote_learner(&self, peer_id: u64) -> Result<()> {
        let mut g = self.cluster.inner.lock().unwrap();
        if g.leader != Some(self.id) {
            return Err(OctopiiError::NotLeader(g.leader));
        }
        g.learners.remove(&peer_id);
        g.voters.insert(peer_id);
        Ok(())
    }

    pub async fn is_learner_caught_up(&self, peer_id: u64) -> Result<bool> {
        let g = self.cluster.inner.lock().unwrap();
        Ok(g.applied.get(&peer_id).copied().unwrap_or(0) >= g.committed.len())
    }

    pub async fn update_peer_addr(&self, peer_id: u64, addr: SocketAddr) {
        self.cluster.inner.lock().unwrap().peer_addrs.insert((self.id, peer_id), addr);
    }

    pub async fn peer_addr_for(&self, peer_id: u64) -> Option<SocketAddr> {
        self.cluster.inner.lock().unwrap().peer_addrs.get(&(self.id, peer_id)).copied()
    }

    pub fn raft_metrics(&self) -> RaftMetrics {
        let g = self.cluster.inner.lock().unwrap();
        let state = if g.leader == Some(self.id) {
            ServerState::Leader
        } else if g.voters.contains(&self.id) {
            ServerState::Follower
        } else {
            ServerState::Learner
        };
        RaftMetrics {
            id: self.id,
            current_term: 1,
            state,
            current_leader: g.leader,
            last_log_index: if g.committed.is_empty() { None } else { Some(g.committed.len() as u64) },
            last_applied: g.applied.get(&self.id).map(|&a| a as u64),
            membership_config: Arc::new(StoredMembership {
                membership: Membership { configs: vec![g.voters.clone()], learners: g.learners.clone() },
            }),
        }
    }

    pub fn id(&self) -> u64 {
        self.id
    }

    pub fn shutdown(&self) {}
}
