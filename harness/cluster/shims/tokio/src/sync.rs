//! `tokio::sync::{Mutex, RwLock}` with tokio's fairness (FIFO hand-off; a queued writer blocks
//! later readers). Every acquisition is a scheduling point: the first poll parks the task
//! *before* the acquisition is attempted.

use crate::sim;
use std::cell::UnsafeCell;
use std::collections::VecDeque;
use std::future::Future;
use std::ops::{Deref, DerefMut};
use std::panic::Location;
use std::pin::Pin;
use std::sync::{Arc, Mutex as StdMutex};
use std::task::{Context, Poll, Waker};

// ------------------------------------------------------------------------------------------------
// raw FIFO lock shared by Mutex and RwLock

#[derive(Default)]
struct RawState {
    writer: bool,
    readers: usize,
    queue: VecDeque<(u64, bool, Waker)>, // (ticket, is_write, waker)
    granted: Vec<u64>,
    next_ticket: u64,
}

#[derive(Default)]
struct Raw {
    st: StdMutex<RawState>,
}

impl Raw {
    fn try_fresh(&self, write: bool) -> bool {
        let mut s = self.st.lock().unwrap();
        if !s.queue.is_empty() || s.writer {
            return false;
        }
        if write {
            if s.readers == 0 {
                s.writer = true;
                return true;
            }
            false
        } else {
            s.readers += 1;
            true
        }
    }

    fn enqueue(&self, write: bool, w: Waker) -> u64 {
        let mut s = self.st.lock().unwrap();
        let t = s.next_ticket;
        s.next_ticket += 1;
        s.queue.push_back((t, write, w));
        t
    }

    fn take_grant(&self, ticket: u64, w: &Waker) -> bool {
        let mut s = self.st.lock().unwrap();
        if let Some(i) = s.granted.iter().position(|&t| t == ticket) {
            s.granted.swap_remove(i);
            return true;
        }
        for e in s.queue.iter_mut() {
            if e.0 == ticket {
                e.2 = w.clone();
            }
        }
        false
    }

    fn grant(s: &mut RawState) {
        loop {
            let Some(front) = s.queue.front() else { break };
            if front.1 {
                if !s.writer && s.readers == 0 {
                    let (t, _, w) = s.queue.pop_front().unwrap();
                    s.writer = true;
                    s.granted.push(t);
                    w.wake();
                }
                break;
            } else {
                if s.writer {
                    break;
                }
                let (t, _, w) = s.queue.pop_front().unwrap();
                s.readers += 1;
                s.granted.push(t);
                w.wake();
            }
        }
    }

    fn release(&self, write: bool) {
        let mut s = self.st.lock().unwrap();
        if write {
            s.writer = false;
        } else {
            s.readers -= 1;
        }
        Self::grant(&mut s);
    }

    /// A queued (or granted but not yet taken) acquisition is abandoned.
    fn cancel(&self, ticket: u64, write: bool) {
        let mut s = self.st.lock().unwrap();
        if let Some(i) = s.granted.iter().position(|&t| t == ticket) {
            s.granted.swap_remove(i);
            if write {
                s.writer = false;
            } else {
                s.readers -= 1;
            }
        } else {
            s.queue.retain(|e| e.0 != ticket);
        }
        Self::grant(&mut s);
    }
}

struct Acquire<'a> {
    raw: &'a Raw,
    write: bool,
    label: String,
    yielded: bool,
    ticket: Option<u64>,
    done: bool,
}

impl<'a> Acquire<'a> {
    fn new(raw: &'a Raw, write: bool, label: String) -> Self {
        Acquire { raw, write, label, yielded: false, ticket: None, done: false }
    }

    fn poll_acquire(&mut self, cx: &mut Context<'_>) -> Poll<()> {
        if !self.yielded {
            self.yielded = true;
            sim::note_label(self.label.clone());
            cx.waker().wake_by_ref();
            return Poll::Pending;
        }
        match self.ticket {
            None => {
                if self.raw.try_fresh(self.write) {
                    self.done = true;
                    return Poll::Ready(());
                }
                self.ticket = Some(self.raw.enqueue(self.write, cx.waker().clone()));
                sim::note_label(format!("{}#blocked", self.label));
                Poll::Pending
            }
            Some(t) => {
                if self.raw.take_grant(t, cx.waker()) {
                    self.done = true;
                    return Poll::Ready(());
                }
                sim::note_label(format!("{}#blocked", self.label));
                Poll::Pending
            }
        }
    }
}

impl<'a> Drop for Acquire<'a> {
    fn drop(&mut self) {
        if !self.done {
            if let Some(t) = self.ticket {
                self.raw.cancel(t, self.write);
            }
        }
    }
}

// ------------------------------------------------------------------------------------------------
// Mutex

pub struct Mutex<T: ?Sized> {
    raw: Raw,
    value: UnsafeCell<T>,
}

unsafe impl<T: ?Sized + Send> Send for Mutex<T> {}
unsafe impl<T: ?Sized + Send> Sync for Mutex<T> {}

impl<T> Mutex<T> {
    pub fn new(value: T) -> Self {
        Mutex { raw: Raw::default(), value: UnsafeCell::new(value) }
    }

    pub fn into_inner(self) -> T {
        self.value.into_inner()
    }
}

impl<T: Default> Default for Mutex<T> {
    fn default() -> Self {
        Mutex::new(T::default())
    }
}

impl<T: ?Sized> Mutex<T> {
    #[track_caller]
    pub fn lock(&self) -> MutexLock<'_, T> {
        let label = sim::loc_label(Location::caller(), "mutex.lock");
        MutexLock { acq: Acquire::new(&self.raw, true, label), m: self }
    }

    #[track_caller]
    pub fn lock_owned(self: Arc<Self>) -> MutexLockOwned<T>
    where
        T: Sized,
    {
        let label = sim::loc_label(Location::caller(), "mutex.lock_owned");
        MutexLockOwned { m: self, label, yielded: false, ticket: None, done: false }
    }

    pub fn try_lock(&self) -> Result<MutexGuard<'_, T>, TryLockError> {
        if self.raw.try_fresh(true) {
            Ok(MutexGuard { m: self })
        } else {
            Err(TryLockError(()))
        }
    }
}

#[derive(Debug)]
pub struct TryLockError(());

impl std::fmt::Display for TryLockError {
    fn fmt(&self, f: &mut std::fmt::Formatter<'_>) -> std::fmt::Result {
        write!(f, "operation would block")
    }
}
impl std::error::Error for TryLockError {}

pub struct MutexLock<'a, T: ?Sized> {
    acq: Acquire<'a>,
    m: &'a Mutex<T>,
}

impl<'a, T: ?Sized> Future for MutexLock<'a, T> {
    type Output = MutexGuard<'a, T>;
    fn poll(self: Pin<&mut Self>, cx: &mut Context<'_>) -> Poll<Self::Output> {
        let this = unsafe { self.get_unchecked_mut() };
        match this.acq.poll_acquire(cx) {
            Poll::Ready(()) => Poll::Ready(MutexGuard { m: this.m }),
            Poll::Pending => Poll::Pending,
        }
    }
}

pub struct MutexGuard<'a, T: ?Sized> {
    m: &'a Mutex<T>,
}

impl<'a, T: ?Sized> Deref for MutexGuard<'a, T> {
    type Target = T;
    fn deref(&self) -> &T {
        unsafe { &*self.m.value.get() }
    }
}
impl<'a, T: ?Sized> DerefMut for MutexGuard<'a, T> {
    fn deref_mut(&mut self) -> &mut T {
        unsafe { &mut *self.m.value.get() }
    }
}
impl<'a, T: ?Sized> Drop for MutexGuard<'a, T> {
    fn drop(&mut self) {
        self.m.raw.release(true);
    }
}

pub struct MutexLockOwned<T> {
    m: Arc<Mutex<T>>,
    label: String,
    yielded: bool,
    ticket: Option<u64>,
    done: bool,
}

impl<T> Unpin for MutexLockOwned<T> {}

impl<T> Future for MutexLockOwned<T> {
    type Output = OwnedMutexGuard<T>;
    fn poll(mut self: Pin<&mut Self>, cx: &mut Context<'_>) -> Poll<Self::Output> {
        if !self.yielded {
            self.yielded = true;
            sim::note_label(self.label.clone());
            cx.waker().wake_by_ref();
            return Poll::Pending;
        }
        let got = match self.ticket {
            None => {
                if self.m.raw.try_fresh(true) {
                    true
                } else {
                    let t = self.m.raw.enqueue(true, cx.waker().clone());
                    self.ticket = Some(t);
                    false
                }
            }
            Some(t) => self.m.raw.take_grant(t, cx.waker()),
        };
        if got {
            self.done = true;
            Poll::Ready(OwnedMutexGuard { m: self.m.clone() })
        } else {
            sim::note_label(format!("{}#blocked", self.label));
            Poll::Pending
        }
    }
}

impl<T> Drop for MutexLockOwned<T> {
    fn drop(&mut self) {
        if !self.done {
            if let Some(t) = self.ticket {
                self.m.raw.cancel(t, true);
            }
        }
    }
}

pub struct OwnedMutexGuard<T> {
    m: Arc<Mutex<T>>,
}

impl<T> Deref for OwnedMutexGuard<T> {
    type Target = T;
    fn deref(&self) -> &T {
        unsafe { &*self.m.value.get() }
    }
}
impl<T> DerefMut for OwnedMutexGuard<T> {
    fn deref_mut(&mut self) -> &mut T {
        unsafe { &mut *self.m.value.get() }
    }
}
impl<T> Drop for OwnedMutexGuard<T> {
    fn drop(&mut self) {
        self.m.raw.release(true);
    }
}

// ------------------------------------------------------------------------------------------------
// RwLock

pub struct RwLock<T: ?Sized> {
    raw: Raw,
    value: UnsafeCell<T>,
}

unsafe impl<T: ?Sized + Send> Send for RwLock<T> {}
unsafe impl<T: ?Sized + Send + Sync> Sync for RwLock<T> {}

impl<T> RwLock<T> {
    pub fn new(value: T) -> Self {
        RwLock { raw: Raw::default(), value: UnsafeCell::new(value) }
    }
    pub fn into_inner(self) -> T {
        self.value.into_inner()
    }
}

impl<T: Default> Default for RwLock<T> {
    fn default() -> Self {
        RwLock::new(T::default())
    }
}

impl<T: ?Sized> RwLock<T> {
    #[track_caller]
    pub fn read(&self) -> RwLockRead<'_, T> {
        let label = sim::loc_label(Location::caller(), "rwlock.read");
        RwLockRead { acq: Acquire::new(&self.raw, false, label), l: self }
    }

    #[track_caller]
    pub fn write(&self) -> RwLockWrite<'_, T> {
        let label = sim::loc_label(Location::caller(), "rwlock.write");
        RwLockWrite { acq: Acquire::new(&self.raw, true, label), l: self }
    }

    /// Harness-side peek without scheduling (only sound while no task is inside a poll).
    pub fn peek<R>(&self, f: impl FnOnce(&T) -> R) -> R {
        f(unsafe { &*self.value.get() })
    }
}

impl<T: ?Sized> Mutex<T> {
    /// Harness-side peek without scheduling (only sound while no task is inside a poll).
    pub fn peek<R>(&self, f: impl FnOnce(&T) -> R) -> R {
        f(unsafe { &*self.value.get() })
    }
}

pub struct RwLockRead<'a, T: ?Sized> {
    acq: Acquire<'a>,
    l: &'a RwLock<T>,
}

impl<'a, T: ?Sized> Future for RwLockRead<'a, T> {
    type Output = RwLockReadGuard<'a, T>;
    fn poll(self: Pin<&mut Self>, cx: &mut Context<'_>) -> Poll<Self::Output> {
        let this = unsafe { self.get_unchecked_mut() };
        match this.acq.poll_acquire(cx) {
            Poll::Ready(()) => Poll::Ready(RwLockReadGuard { l: this.l }),
            Poll::Pending => Poll::Pending,
        }
    }
}

pub struct RwLockWrite<'a, T: ?Sized> {
    acq: Acquire<'a>,
    l: &'a RwLock<T>,
}

impl<'a, T: ?Sized> Future for RwLockWrite<'a, T> {
    type Output = RwLockWriteGuard<'a, T>;
    fn poll(self: Pin<&mut Self>, cx: &mut Context<'_>) -> Poll<Self::Output> {
        let this = unsafe { self.get_unchecked_mut() };
        match this.acq.poll_acquire(cx) {
            Poll::Ready(()) => Poll::Ready(RwLockWriteGuard { l: this.l }),
            Poll::Pending => Poll::Pending,
        }
    }
}

pub struct RwLockReadGuard<'a, T: ?Sized> {
    l: &'a RwLock<T>,
}
impl<'a, T: ?Sized> Deref for RwLockReadGuard<'a, T> {
    type Target = T;
    fn deref(&self) -> &T {
        unsafe { &*self.l.value.get() }
    }
}
impl<'a, T: ?Sized> Drop for RwLockReadGuard<'a, T> {
    fn drop(&mut self) {
        self.l.raw.release(false);
    }
}
impl<'a, T: ?Sized + std::fmt::Debug> std::fmt::Debug for RwLockReadGuard<'a, T> {
    fn fmt(&self, f: &mut std::fmt::Formatter<'_>) -> std::fmt::Result {
        (**self).fmt(f)
    }
}

pub struct RwLockWriteGuard<'a, T: ?Sized> {
    l: &'a RwLock<T>,
}
impl<'a, T: ?Sized> Deref for RwLockWriteGuard<'a, T> {
    type Target = T;
    fn deref(&self) -> &T {
        unsafe { &*self.l.value.get() }
    }
}
impl<'a, T: ?Sized> DerefMut for RwLockWriteGuard<'a, T> {
    fn deref_mut(&mut self) -> &mut T {
        unsafe { &mut *self.l.value.get() }
    }
}
impl<'a, T: ?Sized> Drop for RwLockWriteGuard<'a, T> {
    fn drop(&mut self) {
        self.l.raw.release(true);
    }
}
impl<'a, T: ?Sized + std::fmt::Debug> std::fmt::Debug for RwLockWriteGuard<'a, T> {
    fn fmt(&self, f: &mut std::fmt::Formatter<'_>) -> std::fmt::Result {
        (**self).fmt(f)
    }
}
