//! The controllable runtime. One per thread (thread-local), single-threaded.
//!
//! Vocabulary: a *task* is a spawned future. After every poll a task is either
//!  * `Runnable`  – parked at a scheduling point (it asked to be polled again), or
//!  * `Blocked`   – waiting for a lock hand-off, a signal, a join or a timer, or
//!  * `Done`.
//! Timers live on a virtual clock that only moves when the controller calls
//! `fire_next_timer` (or `advance_to`): the expiry of a timer is a scheduling decision.

use std::cell::{Cell, RefCell};
use std::collections::BTreeMap;
use std::future::Future;
use std::panic::Location;
use std::pin::Pin;
use std::rc::Rc;
use std::sync::{Arc, Mutex as StdMutex};
use std::task::{Context, Poll, Wake, Waker};

pub type TaskId = usize;

#[derive(Clone, Copy, PartialEq, Eq, Debug)]
pub enum TState {
    Runnable,
    Blocked,
    Done,
}

#[derive(Clone, Debug)]
pub struct TaskInfo {
    pub id: TaskId,
    pub name: String,
    pub parent: Option<TaskId>,
    pub state: TState,
    /// Label of the scheduling point the task is parked at (or blocked on).
    pub at: String,
    pub polls: u64,
    /// Earliest pending timer deadline of this task, if it is blocked on one.
    pub timer: Option<u64>,
}

struct TaskSlot {
    name: String,
    parent: Option<TaskId>,
    fut: Option<Pin<Box<dyn Future<Output = ()>>>>,
    state: TState,
    at: String,
    polls: u64,
}

struct TimerEntry {
    /// true: a `timeout(..)` guard (it interrupts a wait); false: a sleep/interval tick
    is_timeout: bool,
    task: Option<TaskId>,
    waker: Waker,
    cancelled: Rc<Cell<bool>>,
}

struct TaskWaker {
    id: TaskId,
    woken: Arc<StdMutex<Vec<TaskId>>>,
}

impl Wake for TaskWaker {
    fn wake(self: Arc<Self>) {
        self.woken.lock().unwrap().push(self.id);
    }
    fn wake_by_ref(self: &Arc<Self>) {
        self.woken.lock().unwrap().push(self.id);
    }
}

pub struct Runtime {
    tasks: RefCell<Vec<TaskSlot>>,
    woken: Arc<StdMutex<Vec<TaskId>>>,
    current: Cell<Option<TaskId>>,
    now_ms: Cell<u64>,
    timers: RefCell<BTreeMap<(u64, u64), TimerEntry>>,
    timer_seq: Cell<u64>,
    last_label: RefCell<Option<String>>,
    spawn_counter: Cell<u64>,
}

thread_local! {
    static RT: RefCell<Option<Rc<Runtime>>> = const { RefCell::new(None) };
}

/// Installs a fresh runtime for this thread (dropping the previous one with all its tasks).
pub fn install() -> Rc<Runtime> {
    let rt = Rc::new(Runtime {
        tasks: RefCell::new(Vec::new()),
        woken: Arc::new(StdMutex::new(Vec::new())),
        current: Cell::new(None),
        now_ms: Cell::new(0),
        timers: RefCell::new(BTreeMap::new()),
        timer_seq: Cell::new(0),
        last_label: RefCell::new(None),
        spawn_counter: Cell::new(0),
    });
    let old = RT.with(|r| r.borrow_mut().replace(rt.clone()));
    if let Some(old) = old {
        old.shutdown();
    }
    rt
}

pub fn uninstall() {
    let old = RT.with(|r| r.borrow_mut().take());
    if let Some(old) = old {
        old.shutdown();
    }
}

pub fn handle() -> Rc<Runtime> {
    RT.with(|r| r.borrow().clone()).expect("tokio shim: no sim runtime installed on this thread")
}

pub fn try_handle() -> Option<Rc<Runtime>> {
    RT.with(|r| r.borrow().clone())
}

pub fn now_ms() -> u64 {
    try_handle().map(|r| r.now_ms.get()).unwrap_or(0)
}

pub fn current_task() -> Option<TaskId> {
    try_handle().and_then(|r| r.current.get())
}

/// Short, stable label for a source location: path below the last `/src/` plus the line.
pub fn loc_label(loc: &'static Location<'static>, kind: &str) -> String {
    let f = loc.file();
    let short = match f.rfind("/src/") {
        Some(i) => &f[i + 5..],
        None => f,
    };
    format!("{}:{}#{}", short, loc.line(), kind)
}

/// Records the label of the scheduling point the current poll is about to park at.
pub fn note_label(label: String) {
    if let Some(rt) = try_handle() {
        *rt.last_label.borrow_mut() = Some(label);
    }
}

impl Runtime {
    pub fn spawn_named<F>(&self, name: &str, fut: F) -> TaskId
    where
        F: Future<Output = ()> + 'static,
    {
        let mut tasks = self.tasks.borrow_mut();
        let id = tasks.len();
        tasks.push(TaskSlot {
            name: name.to_string(),
            parent: self.current.get(),
            fut: Some(Box::pin(fut)),
            state: TState::Runnable,
            at: "start".to_string(),
            polls: 0,
        });
        id
    }

    pub(crate) fn auto_name(&self) -> String {
        let n = self.spawn_counter.get();
        self.spawn_counter.set(n + 1);
        match self.current.get() {
            Some(p) => format!("{}/s{}", self.tasks.borrow()[p].name, n),
            None => format!("s{}", n),
        }
    }

    fn drain_woken(&self) {
        let ids: Vec<TaskId> = std::mem::take(&mut *self.woken.lock().unwrap());
        if ids.is_empty() {
            return;
        }
        let mut tasks = self.tasks.borrow_mut();
        for id in ids {
            if let Some(t) = tasks.get_mut(id) {
                if t.state == TState::Blocked {
                    t.state = TState::Runnable;
                }
            }
        }
    }

    /// Ids of the tasks that can be polled now, ascending.
    pub fn runnable(&self) -> Vec<TaskId> {
        self.drain_woken();
        self.tasks
            .borrow()
            .iter()
            .enumerate()
            .filter(|(_, t)| t.state == TState::Runnable)
            .map(|(i, _)| i)
            .collect()
    }

    pub fn is_done(&self, id: TaskId) -> bool {
        self.tasks.borrow()[id].state == TState::Done
    }

    pub fn info(&self, id: TaskId) -> TaskInfo {
        self.drain_woken();
        let timer = self
            .timers
            .borrow()
            .iter()
            .find(|(_, e)| e.task == Some(id) && !e.cancelled.get() && !e.is_timeout)
            .map(|(k, _)| k.0);
        let tasks = self.tasks.borrow();
        let t = &tasks[id];
        TaskInfo {
            id,
            name: t.name.clone(),
            parent: t.parent,
            state: t.state,
            at: t.at.clone(),
            polls: t.polls,
            timer,
        }
    }

    pub fn task_count(&self) -> usize {
        self.tasks.borrow().len()
    }

    pub fn find(&self, name: &str) -> Option<TaskId> {
        self.tasks.borrow().iter().position(|t| t.name == name)
    }

    /// Polls one task once: it runs from the scheduling point it is parked at to its next one.
    /// Returns true when the task finished.
    pub fn poll_task(&self, id: TaskId) -> bool {
        self.drain_woken();
        let fut = {
            let mut tasks = self.tasks.borrow_mut();
            let t = &mut tasks[id];
            if t.state == TState::Done {
                return true;
            }
            t.state = TState::Blocked; // becomes Runnable again only through a wake
            t.polls += 1;
            t.fut.take()
        };
        let Some(mut fut) = fut else { return true };
        let waker = Waker::from(Arc::new(TaskWaker { id, woken: self.woken.clone() }));
        let mut cx = Context::from_waker(&waker);
        let prev = self.current.replace(Some(id));
        *self.last_label.borrow_mut() = None;
        let res = fut.as_mut().poll(&mut cx);
        self.current.set(prev);
        let label = self.last_label.borrow_mut().take();
        let done = res.is_ready();
        if done {
            // destructors may release locks and wake others: run them outside of any borrow
            drop(fut);
            let mut tasks = self.tasks.borrow_mut();
            let t = &mut tasks[id];
            t.state = TState::Done;
            t.at = "done".to_string();
        } else {
            let mut tasks = self.tasks.borrow_mut();
            let t = &mut tasks[id];
            t.fut = Some(fut);
            t.at = label.unwrap_or_else(|| "?".to_string());
        }
        self.drain_woken();
        done
    }

    pub fn now_ms(&self) -> u64 {
        self.now_ms.get()
    }

    pub(crate) fn add_timer(&self, deadline: u64, waker: Waker, is_timeout: bool) -> Rc<Cell<bool>> {
        let seq = self.timer_seq.get();
        self.timer_seq.set(seq + 1);
        let cancelled = Rc::new(Cell::new(false));
        self.timers.borrow_mut().insert(
            (deadline, seq),
            TimerEntry { is_timeout, task: self.current.get(), waker, cancelled: cancelled.clone() },
        );
        cancelled
    }

    fn purge_timers(&self) {
        self.timers.borrow_mut().retain(|_, e| !e.cancelled.get());
    }

    /// Deadline of the earliest live timer.
    pub fn next_timer(&self) -> Option<u64> {
        self.purge_timers();
        self.timers.borrow().keys().next().map(|k| k.0)
    }

    /// (deadline, task, is_timeout) of every live timer, ascending by deadline.
    pub fn timers(&self) -> Vec<(u64, Option<TaskId>, bool)> {
        self.purge_timers();
        self.timers.borrow().iter().map(|(k, e)| (k.0, e.task, e.is_timeout)).collect()
    }

    /// Deadline of the earliest live sleep/interval timer (timeouts excluded).
    pub fn next_sleep_timer(&self) -> Option<u64> {
        self.purge_timers();
        self.timers.borrow().iter().find(|(_, e)| !e.is_timeout).map(|(k, _)| k.0)
    }

    /// Moves the clock to `t` (never backwards) and wakes every timer with deadline <= t.
    pub fn advance_to(&self, t: u64) -> Vec<TaskId> {
        self.purge_timers();
        if t > self.now_ms.get() {
            self.now_ms.set(t);
        }
        let now = self.now_ms.get();
        let mut fired = Vec::new();
        loop {
            let key = match self.timers.borrow().keys().next() {
                Some(k) if k.0 <= now => *k,
                _ => break,
            };
            if let Some(e) = self.timers.borrow_mut().remove(&key) {
                if !e.cancelled.get() {
                    if let Some(t) = e.task {
                        fired.push(t);
                    }
                    e.waker.wake();
                }
            }
        }
        self.drain_woken();
        fired
    }

    /// Moves the clock to the earliest timer deadline and fires every timer due then.
    pub fn fire_next_timer(&self) -> Vec<TaskId> {
        match self.next_timer() {
            Some(d) => self.advance_to(d),
            None => Vec::new(),
        }
    }

    /// Drops every task (their futures, and with them guards and timers).
    pub fn shutdown(&self) {
        loop {
            let futs: Vec<_> = {
                let mut tasks = self.tasks.borrow_mut();
                tasks
                    .iter_mut()
                    .filter_map(|t| {
                        t.state = TState::Done;
                        t.fut.take()
                    })
                    .collect()
            };
            if futs.is_empty() {
                break;
            }
            drop(futs);
        }
        self.timers.borrow_mut().clear();
        self.woken.lock().unwrap().clear();
    }
}

// ------------------------------------------------------------------------------------------------
// primitives for other shims (octopii) and the harness

/// A plain scheduling point with a symbolic label.
pub fn yield_labeled(label: &str) -> YieldNow {
    YieldNow { label: label.to_string(), yielded: false }
}

pub struct YieldNow {
    label: String,
    yielded: bool,
}

impl Future for YieldNow {
    type Output = ();
    fn poll(mut self: Pin<&mut Self>, cx: &mut Context<'_>) -> Poll<()> {
        if self.yielded {
            return Poll::Ready(());
        }
        self.yielded = true;
        note_label(self.label.clone());
        cx.waker().wake_by_ref();
        Poll::Pending
    }
}

/// Condition-variable-like signal: tasks block in `wait_until` until the condition holds;
/// whoever changes the condition calls `notify_all`.
#[derive(Default)]
pub struct Signal {
    waiters: StdMutex<Vec<Waker>>,
}

impl Signal {
    pub fn new() -> Self {
        Self::default()
    }
    pub fn notify_all(&self) {
        let ws: Vec<Waker> = std::mem::take(&mut *self.waiters.lock().unwrap());
        for w in ws {
            w.wake();
        }
    }
    /// Blocks (without being a scheduling point of its own) until `cond()` is true.
    pub fn wait_until<'a, C: FnMut() -> bool + 'a>(&'a self, label: &str, cond: C) -> WaitUntil<'a, C> {
        WaitUntil { sig: self, label: label.to_string(), cond }
    }
}

pub struct WaitUntil<'a, C> {
    sig: &'a Signal,
    label: String,
    cond: C,
}

impl<'a, C: FnMut() -> bool + Unpin> Future for WaitUntil<'a, C> {
    type Output = ();
    fn poll(mut self: Pin<&mut Self>, cx: &mut Context<'_>) -> Poll<()> {
        if (self.cond)() {
            return Poll::Ready(());
        }
        self.sig.waiters.lock().unwrap().push(cx.waker().clone());
        note_label(format!("{}#blocked", self.label));
        Poll::Pending
    }
}
