//! `spawn`, `spawn_blocking` (runs inline, after a scheduling point), `JoinHandle`.

use crate::sim;
use std::cell::RefCell;
use std::future::Future;
use std::panic::Location;
use std::pin::Pin;
use std::rc::Rc;
use std::task::{Context, Poll, Waker};

#[derive(Debug)]
pub struct JoinError(());

impl std::fmt::Display for JoinError {
    fn fmt(&self, f: &mut std::fmt::Formatter<'_>) -> std::fmt::Result {
        write!(f, "task failed")
    }
}
impl std::error::Error for JoinError {}

struct Slot<T> {
    value: Option<T>,
    waiter: Option<Waker>,
    done: bool,
}

enum Inner<T> {
    Task(Rc<RefCell<Slot<T>>>),
    Blocking { f: Option<Box<dyn FnOnce() -> T>>, label: String, yielded: bool },
}

pub struct JoinHandle<T> {
    inner: Inner<T>,
}

impl<T> Unpin for JoinHandle<T> {}

// The code under test moves handles between "threads" only nominally; everything runs on one
// thread, so these are sound for the shim.
unsafe impl<T> Send for JoinHandle<T> {}
unsafe impl<T> Sync for JoinHandle<T> {}

impl<T> JoinHandle<T> {
    pub fn abort(&self) {}
    pub fn is_finished(&self) -> bool {
        match &self.inner {
            Inner::Task(s) => s.borrow().done,
            Inner::Blocking { f, .. } => f.is_none(),
        }
    }
}

impl<T> Future for JoinHandle<T> {
    type Output = Result<T, JoinError>;
    fn poll(mut self: Pin<&mut Self>, cx: &mut Context<'_>) -> Poll<Self::Output> {
        match &mut self.inner {
            Inner::Task(slot) => {
                let mut s = slot.borrow_mut();
                if let Some(v) = s.value.take() {
                    return Poll::Ready(Ok(v));
                }
                if s.done {
                    return Poll::Ready(Err(JoinError(())));
                }
                s.waiter = Some(cx.waker().clone());
                sim::note_label("join#blocked".to_string());
                Poll::Pending
            }
            Inner::Blocking { f, label, yielded } => {
                if !*yielded {
                    *yielded = true;
                    sim::note_label(label.clone());
                    cx.waker().wake_by_ref();
                    return Poll::Pending;
                }
                match f.take() {
                    Some(f) => Poll::Ready(Ok(f())),
                    None => Poll::Ready(Err(JoinError(()))),
                }
            }
        }
    }
}

/// Spawns a task on the simulated runtime. No `Send` bound: everything is single-threaded.
pub fn spawn<F>(fut: F) -> JoinHandle<F::Output>
where
    F: Future + 'static,
    F::Output: 'static,
{
    let rt = sim::handle();
    let slot = Rc::new(RefCell::new(Slot { value: None, waiter: None, done: false }));
    let s2 = slot.clone();
    let name = rt.auto_name();
    rt.spawn_named(&name, async move {
        let v = fut.await;
        let w = {
            let mut s = s2.borrow_mut();
            s.value = Some(v);
            s.done = true;
            s.waiter.take()
        };
        if let Some(w) = w {
            w.wake();
        }
    });
    JoinHandle { inner: Inner::Task(slot) }
}

/// The closure runs inline on the simulated thread, at the poll that follows the scheduling
/// point (the blocking call is one atomic step of the caller).
#[track_caller]
pub fn spawn_blocking<F, R>(f: F) -> JoinHandle<R>
where
    F: FnOnce() -> R + 'static,
    R: 'static,
{
    let label = sim::loc_label(Location::caller(), "spawn_blocking");
    JoinHandle { inner: Inner::Blocking { f: Some(Box::new(f)), label, yielded: false } }
}

pub fn block_in_place<F, R>(f: F) -> R
where
    F: FnOnce() -> R,
{
    f()
}

#[track_caller]
pub fn yield_now() -> sim::YieldNow {
    sim::yield_labeled(&sim::loc_label(Location::caller(), "yield_now"))
}
