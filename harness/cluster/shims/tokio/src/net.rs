//! Only name resolution is needed by the included files. Every address used in the simulation
//! parses as a `SocketAddr`, so this path is cold; it answers "not found".

use std::net::SocketAddr;

pub trait HostArg {
    fn host(&self) -> String;
}
impl HostArg for &str {
    fn host(&self) -> String {
        self.to_string()
    }
}
impl HostArg for String {
    fn host(&self) -> String {
        self.clone()
    }
}
impl HostArg for &String {
    fn host(&self) -> String {
        (*self).clone()
    }
}

pub async fn lookup_host<T: HostArg>(host: T) -> std::io::Result<std::vec::IntoIter<SocketAddr>> {
    let h = host.host();
    crate::sim::yield_labeled("net.lookup_host").await;
    match h.parse::<SocketAddr>() {
        Ok(a) => Ok(vec![a].into_iter()),
        Err(_) => Err(std::io::Error::new(std::io::ErrorKind::NotFound, format!("cannot resolve {h}"))),
    }
}
