//! Virtual time. The clock only moves when the controller fires timers.

use crate::sim;
use std::cell::Cell;
use std::future::Future;
use std::panic::Location;
use std::pin::Pin;
use std::rc::Rc;
use std::task::{Context, Poll};

pub use std::time::Duration;

#[derive(Clone, Copy, PartialEq, Eq, PartialOrd, Ord, Debug, Hash)]
pub struct Instant(u64);

impl Instant {
    pub fn now() -> Instant {
        Instant(sim::now_ms())
    }
    pub fn elapsed(&self) -> Duration {
        Duration::from_millis(sim::now_ms().saturating_sub(self.0))
    }
    pub fn duration_since(&self, earlier: Instant) -> Duration {
        Duration::from_millis(self.0.saturating_sub(earlier.0))
    }
    pub fn as_millis(&self) -> u64 {
        self.0
    }
}

impl std::ops::Add<Duration> for Instant {
    type Output = Instant;
    fn add(self, d: Duration) -> Instant {
        Instant(self.0 + d.as_millis() as u64)
    }
}

impl std::ops::Sub<Instant> for Instant {
    type Output = Duration;
    fn sub(self, o: Instant) -> Duration {
        Duration::from_millis(self.0.saturating_sub(o.0))
    }
}

fn ms(d: Duration) -> u64 {
    let m = d.as_millis() as u64;
    if m == 0 && !d.is_zero() {
        1
    } else {
        m
    }
}

// ------------------------------------------------------------------------------------------------

pub struct Sleep {
    deadline: u64,
    label: String,
    yielded: bool,
    timer: Option<Rc<Cell<bool>>>,
}

impl Sleep {
    fn at(deadline: u64, label: String) -> Sleep {
        Sleep { deadline, label, yielded: false, timer: None }
    }

    fn poll_sleep(&mut self, cx: &mut Context<'_>) -> Poll<()> {
        let now = sim::now_ms();
        if now >= self.deadline {
            if !self.yielded {
                // already due: still a scheduling point
                self.yielded = true;
                sim::note_label(self.label.clone());
                cx.waker().wake_by_ref();
                return Poll::Pending;
            }
            if let Some(t) = self.timer.take() {
                t.set(true);
            }
            return Poll::Ready(());
        }
        // waiting for the timer is the scheduling point: when the controller fires it, the task
        // becomes runnable and continues from here
        self.yielded = true;
        if let Some(t) = self.timer.take() {
            t.set(true);
        }
        self.timer = Some(sim::handle().add_timer(self.deadline, cx.waker().clone(), false));
        sim::note_label(format!("{}#timer", self.label));
        Poll::Pending
    }
}

impl Drop for Sleep {
    fn drop(&mut self) {
        if let Some(t) = self.timer.take() {
            t.set(true);
        }
    }
}

impl Future for Sleep {
    type Output = ();
    fn poll(mut self: Pin<&mut Self>, cx: &mut Context<'_>) -> Poll<()> {
        self.poll_sleep(cx)
    }
}

#[track_caller]
pub fn sleep(d: Duration) -> Sleep {
    let label = sim::loc_label(Location::caller(), "sleep");
    Sleep::at(sim::now_ms() + ms(d), label)
}

#[track_caller]
pub fn sleep_until(t: Instant) -> Sleep {
    let label = sim::loc_label(Location::caller(), "sleep");
    Sleep::at(t.0, label)
}

// ------------------------------------------------------------------------------------------------

pub struct Interval {
    next: u64,
    period: u64,
}

#[track_caller]
pub fn interval(period: Duration) -> Interval {
    // like tokio: the first tick completes immediately
    Interval { next: sim::now_ms(), period: ms(period).max(1) }
}

impl Interval {
    #[track_caller]
    pub fn tick(&mut self) -> Tick<'_> {
        let label = sim::loc_label(Location::caller(), "interval.tick");
        let sleep = Sleep::at(self.next, label);
        Tick { iv: self, sleep }
    }

    pub fn period(&self) -> Duration {
        Duration::from_millis(self.period)
    }
}

pub struct Tick<'a> {
    iv: &'a mut Interval,
    sleep: Sleep,
}

impl<'a> Future for Tick<'a> {
    type Output = Instant;
    fn poll(mut self: Pin<&mut Self>, cx: &mut Context<'_>) -> Poll<Instant> {
        let this = &mut *self;
        match this.sleep.poll_sleep(cx) {
            Poll::Ready(()) => {
                let at = this.iv.next;
                // MissedTickBehavior::Burst: the schedule is not shifted
                this.iv.next = at + this.iv.period;
                Poll::Ready(Instant(at))
            }
            Poll::Pending => Poll::Pending,
        }
    }
}

// ------------------------------------------------------------------------------------------------

pub mod error {
    #[derive(Debug, PartialEq, Eq)]
    pub struct Elapsed(pub(crate) ());

    impl std::fmt::Display for Elapsed {
        fn fmt(&self, f: &mut std::fmt::Formatter<'_>) -> std::fmt::Result {
            write!(f, "deadline has elapsed")
        }
    }
    impl std::error::Error for Elapsed {}
}

pub struct Timeout<F> {
    fut: Pin<Box<F>>,
    deadline: u64,
    timer: Option<Rc<Cell<bool>>>,
}

pub fn timeout<F: Future>(d: Duration, fut: F) -> Timeout<F> {
    Timeout { fut: Box::pin(fut), deadline: sim::now_ms() + ms(d), timer: None }
}

impl<F: Future> Future for Timeout<F> {
    type Output = Result<F::Output, error::Elapsed>;
    fn poll(mut self: Pin<&mut Self>, cx: &mut Context<'_>) -> Poll<Self::Output> {
        let this = &mut *self;
        if let Poll::Ready(v) = this.fut.as_mut().poll(cx) {
            if let Some(t) = this.timer.take() {
                t.set(true);
            }
            return Poll::Ready(Ok(v));
        }
        if sim::now_ms() >= this.deadline {
            if let Some(t) = this.timer.take() {
                t.set(true);
            }
            return Poll::Ready(Err(error::Elapsed(())));
        }
        if this.timer.is_none() {
            this.timer = Some(sim::handle().add_timer(this.deadline, cx.waker().clone(), true));
        }
        Poll::Pending
    }
}

impl<F> Drop for Timeout<F> {
    fn drop(&mut self) {
        if let Some(t) = self.timer.take() {
            t.set(true);
        }
    }
}
