//! Verification shim for `tokio` (DESIGN.md 4.4): a deterministic single-threaded executor with
//! virtual time. Every `.await` on a primitive of this crate is a *scheduling point*: the task
//! parks there (recording the source location of the await in the code under test through
//! `#[track_caller]`) and only continues when the controller (the harness) polls it again.
//!
//! Nothing here runs by itself: the harness drives `sim::Runtime` step by step.

pub mod net;
pub mod sim;
pub mod sync;
pub mod task;
pub mod time;

pub use task::spawn;
