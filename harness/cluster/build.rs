// Generates the module list that pulls the UNMODIFIED distributed-walrus sources into this crate.
// DW_SRC (default /repo/distributed-walrus/src) lets the detection-power runs point the harness at
// a scratch copy with a seeded mutation; the repository itself is never edited.
use std::env;
use std::fs;
use std::path::Path;

fn main() {
    let src = env::var("DW_SRC").unwrap_or_else(|_| "/repo/distributed-walrus/src".to_string());
    println!("cargo:rerun-if-env-changed=DW_SRC");
    let files = [
        ("metadata", "metadata.rs"),
        ("bucket", "bucket.rs"),
        ("rpc", "rpc.rs"),
        ("config", "config.rs"),
        ("controller", "controller/mod.rs"),
        ("monitor", "monitor.rs"),
    ];
    let mut out = String::new();
    for (m, f) in files.iter() {
        let p = Path::new(&src).join(f);
        if !p.exists() {
            panic!("cluster-sim: source file {} not found (DW_SRC={})", p.display(), src);
        }
        println!("cargo:rerun-if-changed={}", p.display());
        out.push_str(&format!("#[path = \"{}\"]\npub mod {};\n", p.display(), m));
    }
    for f in ["controller/internal.rs", "controller/topics.rs", "controller/types.rs"] {
        println!("cargo:rerun-if-changed={}", Path::new(&src).join(f).display());
    }
    out.push_str(&format!("pub const DW_SRC: &str = \"{}\";\n", src));
    let dest = Path::new(&env::var("OUT_DIR").unwrap()).join("dw_mods.rs");
    fs::write(dest, out).unwrap();
}
