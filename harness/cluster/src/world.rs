//! One simulated cluster run: wiring (a transcription of `start_node` in main.rs, which cannot be
//! included because it is the binary root), client tasks (the PUT/GET/REGISTER arms of
//! `client.rs::handle_command`), the step loop and the event log.

use crate::bucket::Storage;
use crate::config::NodeConfig;
use crate::controller::{wal_key, NodeController};
use crate::metadata::{Metadata, MetadataCmd};
use crate::monitor::Monitor;
use crate::rpc::{InternalOp, InternalResp};
use crate::sched::{self, Choice, Strategy, View};
use octopii::rpc::{RequestPayload, ResponsePayload};
use octopii::{Cluster, ClusterEvent, OctopiiNode};
use serde_json::{json, Value};
use std::cell::RefCell;
use std::collections::{BTreeMap, BTreeSet, HashMap};
use std::net::SocketAddr;
use std::path::{Path, PathBuf};
use std::rc::Rc;
use std::sync::atomic::{AtomicBool, AtomicU64, Ordering};
use std::sync::Arc;
use std::time::Duration;
use tokio::sim::{self, Runtime, TState, TaskId, TaskInfo};

pub struct Node {
    pub id: u64,
    pub addr: SocketAddr,
    pub controller: Arc<NodeController>,
    pub raft: Arc<OctopiiNode>,
}

type Log = Rc<RefCell<Vec<Value>>>;

fn node_addr(id: u64) -> String {
    format!("127.0.0.1:{}", 6000 + id)
}

fn payload_bytes(p: i64) -> Vec<u8> {
    format!("m{}", p).into_bytes()
}

fn payload_id(b: &[u8]) -> Option<i64> {
    let s = std::str::from_utf8(b).ok()?;
    let d = s.strip_prefix('m')?;
    if d.is_empty() || !d.chars().all(|c| c.is_ascii_digit()) {
        return None;
    }
    d.parse().ok()
}

/// Transcription of main.rs::start_node for one node (lines 45-215), minus the TCP listener.
async fn start_node(id: u64, n_nodes: u64, root: &Path, cluster: &Arc<Cluster>) -> anyhow::Result<(Node, NodeConfig)> {
    let cfg = NodeConfig {
        node_id: id,
        data_root: root.to_path_buf(),
        join_addr: if id > 1 { Some(node_addr(1)) } else { None },
        initial_peers: Vec::new(),
        raft_port: (6000 + id) as u16,
        raft_host: "127.0.0.1".into(),
        raft_advertise_host: None,
        log_file: None,
        client_port: (8080 + id) as u16,
        client_host: "127.0.0.1".into(),
    };
    let _ = n_nodes;
    let data_path = cfg.data_wal_dir();
    std::fs::create_dir_all(&data_path)?;
    let bucket = Arc::new(Storage::new(data_path).await?);
    let metadata = Arc::new(Metadata::new());
    let advertised_addr = node_addr(id);
    let sock: SocketAddr = advertised_addr.parse()?;
    let raft = Arc::new(OctopiiNode::new_sim(id, sock, cluster.clone(), metadata.clone()));
    let controller = Arc::new(NodeController {
        node_id: id,
        bucket: bucket.clone(),
        metadata: metadata.clone(),
        raft: raft.clone(),
        offsets: Arc::new(tokio::sync::RwLock::new(HashMap::new())),
        read_cursors: Arc::new(tokio::sync::Mutex::new(HashMap::new())),
        test_fail_forward_read: AtomicBool::new(false),
        test_fail_monitor: AtomicBool::new(false),
        test_fail_dir_size: AtomicBool::new(false),
    });
    // main.rs:161-192
    let controller_rpc = controller.clone();
    raft.set_custom_rpc_handler(move |req| {
        let controller_rpc = controller_rpc.clone();
        Box::pin(async move {
            if let RequestPayload::Custom { operation, data } = req.payload {
                if operation == "Forward" {
                    match bincode::deserialize::<InternalOp>(&data) {
                        Ok(op) => {
                            let resp = controller_rpc.handle_rpc(op).await;
                            let success = !matches!(resp, InternalResp::Error(_));
                            let bytes = bincode::serialize(&resp).unwrap_or_default();
                            return ResponsePayload::CustomResponse { success, data: bytes.into() };
                        }
                        Err(e) => {
                            return ResponsePayload::Error { message: format!("decode error: {e}") };
                        }
                    }
                }
            }
            ResponsePayload::Error { message: "unsupported request".into() }
        })
    })
    .await;
    raft.start().await?;
    raft.spawn_apply_task();
    if id == 1 {
        raft.campaign().await?;
        // main.rs:128-151 (registers the node's own address, with retries)
        controller.upsert_node(id, advertised_addr.clone()).await?;
    } else {
        // main.rs::attempt_join
        let op = InternalOp::JoinCluster { node_id: id, addr: advertised_addr.clone() };
        let payload = bytes::Bytes::from(bincode::serialize(&op)?);
        let target: SocketAddr = node_addr(1).parse()?;
        let resp = raft
            .rpc_handler()
            .request(target, RequestPayload::Custom { operation: "Forward".into(), data: payload }, Duration::from_secs(5))
            .await?;
        match resp.payload {
            ResponsePayload::CustomResponse { success: true, .. } => {}
            other => anyhow::bail!("join of node {} failed: {:?}", id, other),
        }
    }
    controller.update_leases().await;
    Ok((Node { id, addr: sock, controller, raft }, cfg))
}

async fn client_task(idx: u64, ops: Vec<Value>, nodes: Rc<RefCell<Vec<Node>>>, log: Log) {
    for (k, op) in ops.iter().enumerate() {
        if k > 0 {
            sim::yield_labeled("client.next").await;
        }
        let seq = (k + 1) as u64;
        let kind = op["op"].as_str().unwrap_or("").to_string();
        let topic = op["t"].as_str().unwrap_or("a").to_string();
        let via = op["via"].as_u64().unwrap_or(1);
        let ctrl = {
            let ns = nodes.borrow();
            let i = ((via.max(1) - 1) as usize).min(ns.len() - 1);
            ns[i].controller.clone()
        };
        match kind.as_str() {
            "put" => {
                let p = op["p"].as_i64().unwrap_or(0);
                log.borrow_mut().push(json!({"ev":"call","c":idx,"seq":seq,"op":"put","t":topic,"p":p,"via":via}));
                let r = ctrl.append_for_topic(&topic, payload_bytes(p)).await;
                let mut e = json!({"ev":"ret","c":idx,"seq":seq,"op":"put","t":topic,"p":p,"via":via,
                                   "res": if r.is_ok() {"ok"} else {"err"}});
                if let Err(x) = r {
                    e["msg"] = json!(x.to_string());
                }
                log.borrow_mut().push(e);
            }
            "get" => {
                log.borrow_mut().push(json!({"ev":"call","c":idx,"seq":seq,"op":"get","t":topic,"p":0,"via":via}));
                let r = ctrl.read_one_for_topic_shared(&topic).await;
                let e = match r {
                    Ok(Some(bytes)) => match payload_id(&bytes) {
                        Some(p) => json!({"ev":"ret","c":idx,"seq":seq,"op":"get","t":topic,"via":via,"res":"val","p":p}),
                        None => json!({"ev":"ret","c":idx,"seq":seq,"op":"get","t":topic,"via":via,"res":"foreign","p":0,
                                       "msg": String::from_utf8_lossy(&bytes)}),
                    },
                    Ok(None) => json!({"ev":"ret","c":idx,"seq":seq,"op":"get","t":topic,"via":via,"res":"empty","p":0}),
                    Err(x) => json!({"ev":"ret","c":idx,"seq":seq,"op":"get","t":topic,"via":via,"res":"err","p":0,"msg":x.to_string()}),
                };
                log.borrow_mut().push(e);
            }
            "create" => {
                // a topic with a chosen first leader, proposed directly like main.rs::bootstrap_node_one
                let ldr = op["ldr"].as_u64().unwrap_or(1);
                log.borrow_mut().push(json!({"ev":"call","c":idx,"seq":seq,"op":"register","t":topic,"p":0,"via":via}));
                let cmd = MetadataCmd::CreateTopic { name: topic.clone(), initial_leader: ldr };
                let r = ctrl.propose_metadata(cmd).await;
                ctrl.update_leases().await;
                log.borrow_mut().push(json!({"ev":"ret","c":idx,"seq":seq,"op":"register","t":topic,"p":0,"via":via,
                                             "res": if r.is_ok() {"ok"} else {"err"}}));
            }
            "barrier" => {
                // avoidance guard: wait until every node applied every committed command, then refresh the
                // leases of every node through the repository's own TestControl::SyncLeases operation
                loop {
                    let (cl, n) = {
                        let ns = nodes.borrow();
                        (ns[0].raft.cluster().clone(), ns.len() as u64)
                    };
                    if (1..=n).all(|i| cl.applied(i) >= cl.committed_len()) {
                        break;
                    }
                    tokio::time::sleep(Duration::from_millis(20)).await;
                }
                let ctrls: Vec<Arc<NodeController>> = nodes.borrow().iter().map(|n| n.controller.clone()).collect();
                for c in ctrls {
                    let _ = c.handle_rpc(InternalOp::TestControl(crate::rpc::TestControl::SyncLeases)).await;
                }
            }
            "register" => {
                log.borrow_mut().push(json!({"ev":"call","c":idx,"seq":seq,"op":"register","t":topic,"p":0,"via":via}));
                let r = ctrl.ensure_topic(&topic).await;
                let mut e = json!({"ev":"ret","c":idx,"seq":seq,"op":"register","t":topic,"p":0,"via":via,
                                   "res": if r.is_ok() {"ok"} else {"err"}});
                if let Err(x) = r {
                    e["msg"] = json!(x.to_string());
                }
                log.borrow_mut().push(e);
            }
            _ => {}
        }
    }
}

/// Consumes the topic through node `via` until EMPTY (bounded), as client `idx`.
async fn drain_task(idx: u64, topics: Vec<String>, via: u64, bound: u64, confirm: bool, nodes: Rc<RefCell<Vec<Node>>>, log: Log,
                    seq0: u64) {
    let mut seq = seq0;
    let ctrl = {
        let ns = nodes.borrow();
        let i = ((via.max(1) - 1) as usize).min(ns.len() - 1);
        ns[i].controller.clone()
    };
    for topic in topics.iter() {
        let rounds = if confirm { 1 } else { bound };
        for _ in 0..rounds {
            seq += 1;
            log.borrow_mut().push(json!({"ev":"call","c":idx,"seq":seq,"op":"get","t":topic,"p":0,"via":via}));
            let r = ctrl.read_one_for_topic_shared(topic).await;
            let (e, stop) = match r {
                Ok(Some(bytes)) => match payload_id(&bytes) {
                    Some(p) => (json!({"ev":"ret","c":idx,"seq":seq,"op":"get","t":topic,"via":via,"res":"val","p":p}), false),
                    None => (json!({"ev":"ret","c":idx,"seq":seq,"op":"get","t":topic,"via":via,"res":"foreign","p":0}), true),
                },
                Ok(None) => (json!({"ev":"ret","c":idx,"seq":seq,"op":"get","t":topic,"via":via,"res":"empty","p":0}), true),
                Err(x) => (json!({"ev":"ret","c":idx,"seq":seq,"op":"get","t":topic,"via":via,"res":"err","p":0,"msg":x.to_string()}), true),
            };
            log.borrow_mut().push(e);
            if stop {
                break;
            }
            sim::yield_labeled("client.next").await;
        }
    }
}

fn cmd_json(bytes: &[u8]) -> Value {
    match bincode::deserialize::<MetadataCmd>(bytes) {
        Ok(MetadataCmd::CreateTopic { name, initial_leader }) => json!({"k":"create","t":name,"ldr":initial_leader,"cnt":0}),
        Ok(MetadataCmd::RolloverTopic { name, new_leader, sealed_segment_entry_count }) => {
            json!({"k":"roll","t":name,"ldr":new_leader,"cnt":sealed_segment_entry_count.min(1_000_000_000)})
        }
        Ok(MetadataCmd::UpsertNode { node_id, .. }) => json!({"k":"node","t":"","ldr":node_id,"cnt":0}),
        Err(_) => json!({"k":"bad","t":"","ldr":0,"cnt":0}),
    }
}

pub struct World {
    rt: Rc<Runtime>,
    cluster: Arc<Cluster>,
    nodes: Rc<RefCell<Vec<Node>>>,
    log: Log,
    events: Vec<Value>,
    sizes: HashMap<(u64, String), u64>,
    topics: BTreeSet<String>,
    step: u64,
    taken: Vec<String>,
    beat: std::sync::Arc<AtomicU64>,
    record_at: bool,
}

impl World {
    fn infos(&self) -> Vec<TaskInfo> {
        (0..self.rt.task_count()).map(|i| self.rt.info(i)).collect()
    }

    /// Polls one task (one step of the simulation) and records what became observable.
    fn do_poll(&mut self, id: TaskId) {
        let info = self.rt.info(id);
        if info.state == TState::Blocked {
            if let Some(d) = info.timer {
                // replay asked for a sleeping task: its timer fires now
                self.rt.advance_to(d);
            }
        }
        self.step += 1;
        self.beat.fetch_add(1, Ordering::Relaxed);
        self.rt.poll_task(id);
        let after = self.rt.info(id);
        // Evidence for the lease analysis (always recorded, independent of `record_at`):
        //  * every step that starts or ends at a scheduling point inside bucket.rs, with the label it left
        //    and the label it parked at (the lease set is read/assigned/checked in exactly these steps);
        //  * the statements of the code under test kept by `logcap` (who refreshed which node's leases with
        //    which expected set; rejected lease checks), stamped with this step and this task.
        if info.at.starts_with("bucket.rs:") || after.at.starts_with("bucket.rs:") {
            self.events.push(json!({"ev":"at","step":self.step,"task":info.name,"from":info.at,"to":after.at}));
        }
        for m in crate::logcap::take() {
            self.events.push(json!({"ev":"log","step":self.step,"task":info.name,"msg":m}));
        }
        if self.record_at {
            self.taken.push(format!("{}@{}", info.name, after.at));
        } else {
            self.taken.push(info.name.clone());
        }
        self.collect(&info.name);
    }

    fn do_fire(&mut self) {
        self.step += 1;
        if let Some(d) = self.rt.next_sleep_timer() {
            self.rt.advance_to(d);
        } else {
            self.rt.fire_next_timer();
        }
        self.taken.push("T".into());
    }

    fn known_topics(&mut self) {
        let ns = self.nodes.borrow();
        for n in ns.iter() {
            for t in self.topics.clone().iter() {
                let _ = n.controller.metadata.get_topic_state(t);
            }
        }
    }

    fn collect(&mut self, task: &str) {
        let step = self.step;
        // 1. client call/ret events logged during the step
        let logged: Vec<Value> = std::mem::take(&mut *self.log.borrow_mut());
        for mut e in logged {
            e["step"] = json!(step);
            self.events.push(e);
        }
        // 2. metadata commits and applies
        for ce in self.cluster.take_events() {
            match ce {
                ClusterEvent::Commit { idx, cmd, by } => {
                    let c = cmd_json(&cmd);
                    if let Some(t) = c["t"].as_str() {
                        if !t.is_empty() {
                            self.topics.insert(t.to_string());
                        }
                    }
                    self.events.push(json!({"ev":"commit","idx":idx,"by":by,"cmd":c,"step":step,"task":task}));
                }
                ClusterEvent::Apply { node, idx, ok } => {
                    self.events.push(json!({"ev":"apply","node":node,"idx":idx,"ok":ok,"step":step}));
                }
                ClusterEvent::Rpc { .. } => {}
            }
        }
        // 3. data-plane writes: growth of a (node, wal key) log observed through the bucket's public
        //    size accessor. A step contains at most one engine call, so growth = one entry.
        let ns = self.nodes.borrow();
        let mut maxseg: HashMap<String, u64> = HashMap::new();
        for n in ns.iter() {
            for t in self.topics.iter() {
                if let Some(st) = n.controller.metadata.get_topic_state(t) {
                    let e = maxseg.entry(t.clone()).or_insert(0);
                    *e = (*e).max(st.current_segment);
                }
            }
        }
        for n in ns.iter() {
            for t in self.topics.iter() {
                let top = maxseg.get(t).copied().unwrap_or(0) + 1;
                for seg in 1..=top {
                    let key = wal_key(t, seg);
                    let size = n.controller.bucket.get_topic_size_blocking(&key);
                    let prev = self.sizes.get(&(n.id, key.clone())).copied().unwrap_or(0);
                    if size > prev {
                        let st = n.controller.metadata.get_topic_state(t);
                        let cur = st.as_ref().map(|s| s.current_segment).unwrap_or(0);
                        let own = st.as_ref().and_then(|s| s.segment_leaders.get(&seg).copied()).unwrap_or(0);
                        self.events.push(json!({"ev":"write","node":n.id,"t":t,"seg":seg,"bytes":size - prev,"step":step,
                                                "task":task,"view":{"cur":cur,"own":own}}));
                        self.sizes.insert((n.id, key), size);
                    }
                }
            }
        }
    }

    /// Runs the default policy until `done()` or nothing can happen; timers fire only when nothing
    /// is runnable and only up to `until_ms` of virtual time.
    fn settle(&mut self, until_ms: u64, done: &dyn Fn(&World) -> bool, cap: u64) -> bool {
        let mut n = 0;
        loop {
            if done(self) {
                return true;
            }
            n += 1;
            if n > cap {
                return false;
            }
            let r = self.rt.runnable();
            if let Some(&id) = r.first() {
                self.do_poll(id);
                continue;
            }
            match self.rt.next_sleep_timer() {
                Some(d) if d <= until_ms => self.do_fire(),
                _ => return done(self),
            }
        }
    }

    fn projection(&self) -> Value {
        let ns = self.nodes.borrow();
        let mut out = Vec::new();
        for n in ns.iter() {
            let offsets: BTreeMap<String, u64> = n.controller.offsets.peek(|m| m.iter().map(|(k, v)| (k.clone(), *v)).collect());
            let cursors: BTreeMap<String, (u64, u64)> = n
                .controller
                .read_cursors
                .peek(|m| m.iter().map(|(k, v)| (k.clone(), (v.segment, v.delivered_in_segment))).collect());
            let mut topics = serde_json::Map::new();
            for t in self.topics.iter() {
                if let Some(st) = n.controller.metadata.get_topic_state(t) {
                    let sealed: BTreeMap<String, u64> = st.sealed_segments.iter().map(|(k, v)| (k.to_string(), *v)).collect();
                    let leaders: BTreeMap<String, u64> = st.segment_leaders.iter().map(|(k, v)| (k.to_string(), *v)).collect();
                    topics.insert(t.clone(), json!({"cur": st.current_segment, "ldr": st.leader_node, "sealed": sealed, "leaders": leaders}));
                }
            }
            out.push(json!({"node": n.id, "applied": self.cluster.applied(n.id), "offsets": offsets, "cursors": cursors, "topics": topics}));
        }
        Value::Array(out)
    }
}

pub fn run_job(job: &Value, dir: &Path, beat: &std::sync::Arc<AtomicU64>) -> Vec<Value> {
    let gid = job["id"].as_str().unwrap_or("?").to_string();
    let n_nodes = job["nodes"].as_u64().unwrap_or(1).clamp(1, 5);
    let threshold = job["threshold"].as_u64().unwrap_or(1_000_000);
    let monitor_ms = job["monitor_ms"].as_u64().unwrap_or(150);
    std::env::set_var("WALRUS_MAX_SEGMENT_ENTRIES", threshold.to_string());
    std::env::set_var("WALRUS_MONITOR_CHECK_MS", monitor_ms.to_string());
    std::fs::create_dir_all(dir).expect("scratch dir");

    let rt = sim::install();
    let _ = crate::logcap::take();
    let cluster = Cluster::new();
    let nodes: Rc<RefCell<Vec<Node>>> = Rc::new(RefCell::new(Vec::new()));
    let log: Log = Rc::new(RefCell::new(Vec::new()));
    let mut w = World {
        rt: rt.clone(),
        cluster: cluster.clone(),
        nodes: nodes.clone(),
        log: log.clone(),
        events: Vec::new(),
        sizes: HashMap::new(),
        topics: BTreeSet::new(),
        step: 0,
        taken: Vec::new(),
        beat: beat.clone(),
        record_at: job["record_at"].as_bool().unwrap_or(false),
    };
    let mut topics: Vec<String> = Vec::new();
    let mut n_puts = 0u64;
    for c in job["clients"].as_array().into_iter().flatten().chain(std::iter::once(&json!({"ops": job["setup"].clone()}))) {
        for op in c["ops"].as_array().into_iter().flatten() {
            if let Some(t) = op["t"].as_str() {
                if !topics.iter().any(|x| x == t) {
                    topics.push(t.to_string());
                }
            }
            if op["op"].as_str() == Some("put") {
                n_puts += 1;
            }
        }
    }
    if job["bootstrap_logs"].as_bool().unwrap_or(false) && !topics.iter().any(|x| x == "logs") {
        topics.push("logs".into());
    }
    for t in topics.iter() {
        w.topics.insert(t.clone());
    }
    let mut head = json!({"ev":"reset","g":gid,"nodes":n_nodes,"thr":threshold,"topics":topics});
    let mut status = "ok".to_string();
    let mut note = String::new();

    // ---- phase 0: wiring (deterministic default policy, time advances freely) --------------------
    let setup_done = Rc::new(RefCell::new(None::<Result<(), String>>));
    {
        let nodes = nodes.clone();
        let cluster = cluster.clone();
        let root = dir.to_path_buf();
        let sd = setup_done.clone();
        let boot = job["bootstrap_logs"].as_bool().unwrap_or(false);
        let no_monitor = job["no_monitor"].as_bool().unwrap_or(false);
        rt.spawn_named("setup", async move {
            let r: anyhow::Result<()> = async {
                let mut cfgs = Vec::new();
                for id in 1..=n_nodes {
                    let (node, cfg) = start_node(id, n_nodes, &root, &cluster).await?;
                    nodes.borrow_mut().push(node);
                    cfgs.push(cfg);
                }
                // learners are promoted by the task spawned in handle_join_cluster (500 ms polls)
                for _ in 0..20 {
                    let voters: usize = {
                        let ns = nodes.borrow();
                        let m = ns[0].raft.raft_metrics();
                        m.membership_config.membership().get_joint_config().iter().map(|c| c.len()).sum()
                    };
                    if voters as u64 >= n_nodes {
                        break;
                    }
                    tokio::time::sleep(Duration::from_millis(500)).await;
                }
                if boot {
                    // main.rs::bootstrap_node_one: topic "logs", sealed once with count 0
                    let raft = nodes.borrow()[0].raft.clone();
                    let cmd = MetadataCmd::CreateTopic { name: "logs".into(), initial_leader: 1 };
                    raft.propose(bincode::serialize(&cmd)?).await?;
                    let roll = MetadataCmd::RolloverTopic { name: "logs".into(), new_leader: 1, sealed_segment_entry_count: 0 };
                    raft.propose(bincode::serialize(&roll)?).await?;
                    let c = nodes.borrow()[0].controller.clone();
                    c.update_leases().await;
                }
                // main.rs:199-211: lease sync loop and monitor per node
                let ctrls: Vec<(u64, Arc<NodeController>)> = nodes.borrow().iter().map(|n| (n.id, n.controller.clone())).collect();
                for ((id, c), cfg) in ctrls.into_iter().zip(cfgs.into_iter()) {
                    let c1 = c.clone();
                    sim::handle().spawn_named(&format!("sync{}", id), async move { c1.run_lease_update_loop().await });
                    let c2 = c.clone();
                    if !no_monitor {
                        sim::handle().spawn_named(&format!("mon{}", id), async move { Monitor::new(c2, cfg).run().await });
                    }
                }
                Ok(())
            }
            .await;
            *sd.borrow_mut() = Some(r.map_err(|e| e.to_string()));
        });
    }
    let sd = setup_done.clone();
    let ok = w.settle(u64::MAX, &move |_| sd.borrow().is_some(), 200_000);
    let setup_res = setup_done.borrow().clone();
    if !ok || !matches!(setup_res, Some(Ok(()))) {
        head["setup_error"] = json!(format!("{:?}", setup_res));
        let mut ev = vec![head];
        ev.push(json!({"ev":"end","g":gid,"status":"setup_failed","steps":w.step,"taken":""}));
        drop(w);
        sim::uninstall();
        return ev;
    }
    // setup operations (REGISTER ...) run sequentially, then everything settles: every node has
    // applied every command and has synced its leases at least once
    let setup_ops: Vec<Value> = job["setup"].as_array().cloned().unwrap_or_default();
    if !setup_ops.is_empty() {
        let id = rt.spawn_named("c0", client_task(0, setup_ops, nodes.clone(), log.clone()));
        let rt2 = rt.clone();
        w.settle(u64::MAX, &move |_| rt2.is_done(id), 200_000);
    }
    {
        let cl = cluster.clone();
        let target = rt.now_ms() + 250;
        let nn = n_nodes;
        w.settle(target, &move |w2: &World| {
            let all = (1..=nn).all(|n| cl.applied(n) >= cl.committed_len());
            all && w2.rt.now_ms() >= target
        }, 200_000);
    }
    let setup_steps = w.step;
    w.events.push(json!({"ev":"note","what":"setup_done","step":w.step}));
    w.taken.clear();

    // ---- phase 1: the client programs under the requested schedule ------------------------------
    let mut strat = Strategy::from_json(&job["sched"]);
    let mut client_ids: Vec<TaskId> = Vec::new();
    for (i, c) in job["clients"].as_array().into_iter().flatten().enumerate() {
        let ops = c["ops"].as_array().cloned().unwrap_or_default();
        let idx = (i + 1) as u64;
        client_ids.push(rt.spawn_named(&format!("c{}", idx), client_task(idx, ops, nodes.clone(), log.clone())));
    }
    let max_steps = job["max_steps"].as_u64().unwrap_or(4000);
    let horizon = rt.now_ms() + job["horizon_ms"].as_u64().unwrap_or(1500);
    let phase_start = w.step;
    let mut unrealizable = 0u64;
    let mut fallback = false;
    loop {
        if client_ids.iter().all(|&id| rt.is_done(id)) {
            break;
        }
        if w.step - phase_start >= max_steps && !fallback {
            fallback = true;
            note = "step budget reached: finished under the default policy".into();
        }
        if w.step - phase_start >= max_steps * 4 + 20_000 {
            status = "hang".into();
            break;
        }
        let all = w.infos();
        let runnable: Vec<TaskInfo> = all.iter().filter(|t| t.state == TState::Runnable).cloned().collect();
        let view = View {
            runnable: &runnable,
            all: &all,
            timer_pending: rt.next_sleep_timer().is_some(),
            timers_allowed: rt.now_ms() < horizon,
            step: w.step - phase_start,
        };
        let mut choice = if fallback { sched::default_choice(&view) } else { strat.choose(&view) };
        if choice == Choice::Default {
            choice = sched::default_choice(&view);
        }
        match choice {
            Choice::Poll(id) => w.do_poll(id),
            Choice::FireTimer => w.do_fire(),
            Choice::Unrealizable(why) => {
                // A scripted step the code cannot follow (task blocked/finished/never reaches the named
                // scheduling point). The run is NOT abandoned: the step is skipped, the rest of the script
                // is followed as far as possible, and after the script (or after 50 such steps) the default
                // policy finishes the clients, so that the history is complete and is judged against the
                // contract like any other. `unrealizable` and the first reason go into the `end` event;
                // what a non-zero count means is the checker's business (props_cluster.py, UNREALIZABLE POLICY).
                unrealizable += 1;
                if note.is_empty() {
                    note = format!("unrealizable: {}", why);
                }
                if unrealizable > 50 {
                    fallback = true;
                }
            }
            Choice::Stuck => {
                // blocked clients and no timer: a deadlock of the code under test (data)
                status = "deadlock".into();
                break;
            }
            Choice::Default => unreachable!(),
        }
    }
    let main_steps = w.step - phase_start;
    let taken_main = w.taken.join(" ");

    // ---- phase 2: quiescence and drain ----------------------------------------------------------
    if status == "ok" && job["drain"].as_bool().unwrap_or(true) {
        let via = job["drain_via"].as_u64().unwrap_or(1);
        for round in 0..2u64 {
            // several lease-sync periods and at least one monitor tick, every node caught up
            let cl = cluster.clone();
            let target = rt.now_ms() + 3 * monitor_ms.max(100) + 250;
            let nn = n_nodes;
            w.settle(target, &move |w2: &World| {
                (1..=nn).all(|n| cl.applied(n) >= cl.committed_len()) && w2.rt.now_ms() >= target && w2.rt.runnable().is_empty()
            }, 400_000);
            w.events.push(json!({"ev":"note","what": if round == 0 {"quiescent"} else {"quiescent2"},"step":w.step}));
            let id = rt.spawn_named(
                &format!("drain{}", round),
                drain_task(99, topics.clone(), via, n_puts + 3, round == 1, nodes.clone(), log.clone(), round * 1000),
            );
            let rt2 = rt.clone();
            let fin = w.settle(u64::MAX, &move |_| rt2.is_done(id), 400_000);
            if !fin {
                status = "drain_hang".into();
                break;
            }
        }
    }
    head["setup_steps"] = json!(setup_steps);
    let proj = w.projection();
    let mut ev = vec![head];
    ev.append(&mut w.events);
    let mut end = json!({"ev":"end","g":gid,"status":status,"steps":main_steps,"taken":taken_main,"proj":proj,
                         "unrealizable":unrealizable,"vclock":rt.now_ms()});
    if !note.is_empty() {
        end["note"] = json!(note);
    }
    ev.push(end);
    drop(w);
    nodes.borrow_mut().clear();
    sim::uninstall();
    ev
}
