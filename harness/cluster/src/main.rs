//! cluster-sim: N-node clusters of REAL `NodeController`s (distributed-walrus, compiled unmodified
//! from the working tree through `#[path]`) over the deterministic shim runtime, the assumed-Raft
//! shim and the REAL `walrus-rust` storage engine. Runs client programs under a controlled
//! schedule and records, as ndjson, the call/ret history of client responses plus per scheduler
//! step the data-plane writes and the metadata commits/applies (DESIGN.md 4.4, C22/C23).
#![allow(dead_code, unused_imports, clippy::all)]

include!(concat!(env!("OUT_DIR"), "/dw_mods.rs"));

mod logcap;
mod sched;
mod world;

use serde_json::{json, Value};
use std::io::{BufRead, Write};

fn usage() -> ! {
    eprintln!("usage: cluster-sim run --in <jobs.ndjson> --out <events.ndjson> --dir <scratch> [--start K]");
    std::process::exit(2);
}

fn main() {
    let args: Vec<String> = std::env::args().collect();
    if args.len() < 2 || args[1] != "run" {
        usage();
    }
    let mut inp = None;
    let mut out = None;
    let mut dir = None;
    let mut start = 0usize;
    let mut i = 2;
    while i + 1 < args.len() {
        match args[i].as_str() {
            "--in" => inp = Some(args[i + 1].clone()),
            "--out" => out = Some(args[i + 1].clone()),
            "--dir" => dir = Some(args[i + 1].clone()),
            "--start" => start = args[i + 1].parse().unwrap_or(0),
            _ => usage(),
        }
        i += 2;
    }
    let (Some(inp), Some(out), Some(dir)) = (inp, out, dir) else { usage() };
    std::env::set_var("WALRUS_QUIET", "1");
    logcap::install();
    let f = std::fs::File::open(&inp).expect("open --in");
    let jobs: Vec<Value> = std::io::BufReader::new(f)
        .lines()
        .map_while(Result::ok)
        .filter(|l| !l.trim().is_empty())
        .map(|l| serde_json::from_str(&l).expect("job json"))
        .collect();
    let mut outf = std::fs::OpenOptions::new().create(true).append(true).open(&out).expect("open --out");
    // wall-clock watchdog: a real hang of the code under test (not of the simulation) ends the
    // process with 88; the runner records it as data
    let beat = std::sync::Arc::new(std::sync::atomic::AtomicU64::new(0));
    {
        let beat = beat.clone();
        std::thread::spawn(move || {
            let mut last = 0;
            let mut idle = 0;
            loop {
                std::thread::sleep(std::time::Duration::from_secs(1));
                let b = beat.load(std::sync::atomic::Ordering::Relaxed);
                if b == last {
                    idle += 1;
                } else {
                    idle = 0;
                    last = b;
                }
                if idle > 120 {
                    unsafe { libc_exit(88) };
                }
            }
        });
    }
    for (n, job) in jobs.iter().enumerate() {
        if n < start {
            continue;
        }
        beat.fetch_add(1, std::sync::atomic::Ordering::Relaxed);
        let gid = job["id"].as_str().unwrap_or("?").to_string();
        writeln!(outf, "{}", json!({"ev": "begin", "what": "begin", "n": n, "g": gid})).ok();
        outf.flush().ok();
        let jdir = std::path::PathBuf::from(&dir).join(format!("j{}", n));
        let _ = std::fs::remove_dir_all(&jdir);
        let beat2 = beat.clone();
        let res = std::panic::catch_unwind(std::panic::AssertUnwindSafe(|| world::run_job(job, &jdir, &beat2)));
        let _ = std::fs::remove_dir_all(&jdir);
        match res {
            Ok(events) => {
                for e in events {
                    writeln!(outf, "{}", e).ok();
                }
                outf.flush().ok();
            }
            Err(p) => {
                let msg = p
                    .downcast_ref::<String>()
                    .cloned()
                    .or_else(|| p.downcast_ref::<&str>().map(|s| s.to_string()))
                    .unwrap_or_else(|| "panic".into());
                writeln!(outf, "{}", json!({"ev": "reset", "g": gid, "nodes": 0, "thr": 0})).ok();
                writeln!(outf, "{}", json!({"ev": "end", "g": gid, "status": "panic", "msg": msg, "steps": 0, "taken": ""})).ok();
                outf.flush().ok();
                // process-global engine state is untrustworthy after a panic
                std::process::exit(3);
            }
        }
    }
}

unsafe fn libc_exit(code: i32) -> ! {
    extern "C" {
        fn _exit(code: i32) -> !;
    }
    _exit(code)
}
