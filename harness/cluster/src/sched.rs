//! Scheduling strategies. The runtime offers, at every step, the set of runnable tasks and the
//! option to fire the next timer; a strategy picks one.

use rand::rngs::StdRng;
use rand::{Rng, SeedableRng};
use serde_json::Value;
use std::collections::HashMap;
use tokio::sim::{TState, TaskId, TaskInfo};

#[derive(Debug, Clone, PartialEq)]
pub enum Choice {
    Poll(TaskId),
    FireTimer,
    /// replay: the schedule cannot be followed (named task blocked / unknown / label not reached)
    Unrealizable(String),
    /// nothing can run and no timer is pending
    Stuck,
    /// replay list exhausted: fall back to the default policy
    Default,
}

pub struct View<'a> {
    pub runnable: &'a [TaskInfo],
    pub all: &'a [TaskInfo],
    pub timer_pending: bool,
    pub timers_allowed: bool,
    pub step: u64,
}

pub fn class_of(name: &str) -> char {
    if name.starts_with("apply") {
        'a'
    } else if name.starts_with("sync") {
        's'
    } else if name.starts_with("mon") {
        'm'
    } else if name.starts_with('c') && name[1..].chars().all(|c| c.is_ascii_digit()) {
        'c'
    } else {
        'o'
    }
}

pub enum Strategy {
    Random { rng: StdRng, w: HashMap<char, f64>, p_timer: f64 },
    Pct { rng: StdRng, prio: HashMap<TaskId, i64>, change: Vec<u64>, next_low: i64, p_timer: f64 },
    Replay { steps: Vec<Value>, pos: usize, polls_in_step: u64 },
    /// lowest task id first; timers only when nothing is runnable
    Default,
}

impl Strategy {
    pub fn from_json(v: &Value) -> Strategy {
        let kind = v["kind"].as_str().unwrap_or("default");
        let seed = v["seed"].as_u64().unwrap_or(1);
        match kind {
            "random" => {
                let mut w = HashMap::new();
                for (k, d) in [('c', 10.0), ('a', 5.0), ('s', 3.0), ('m', 1.0), ('o', 5.0)] {
                    let x = v["w"][k.to_string()].as_f64().unwrap_or(d);
                    w.insert(k, x);
                }
                Strategy::Random { rng: StdRng::seed_from_u64(seed), w, p_timer: v["p_timer"].as_f64().unwrap_or(0.05) }
            }
            "pct" => {
                let mut rng = StdRng::seed_from_u64(seed);
                let depth = v["depth"].as_u64().unwrap_or(3).max(1);
                let k = v["k"].as_u64().unwrap_or(300).max(1);
                let mut change: Vec<u64> = (0..depth - 1).map(|_| rng.gen_range(0..k)).collect();
                change.sort();
                Strategy::Pct { rng, prio: HashMap::new(), change, next_low: -1, p_timer: v["p_timer"].as_f64().unwrap_or(0.05) }
            }
            "replay" => Strategy::Replay {
                steps: v["steps"].as_array().cloned().unwrap_or_default(),
                pos: 0,
                polls_in_step: 0,
            },
            _ => Strategy::Default,
        }
    }

    pub fn choose(&mut self, view: &View) -> Choice {
        match self {
            Strategy::Default => default_choice(view),
            Strategy::Random { rng, w, p_timer } => {
                if view.runnable.is_empty() {
                    return if view.timer_pending { Choice::FireTimer } else { Choice::Stuck };
                }
                if view.timer_pending && view.timers_allowed && rng.gen_bool(p_timer.clamp(0.0, 1.0)) {
                    return Choice::FireTimer;
                }
                let ws: Vec<f64> = view.runnable.iter().map(|t| *w.get(&class_of(&t.name)).unwrap_or(&1.0)).collect();
                let total: f64 = ws.iter().sum();
                if total <= 0.0 {
                    return Choice::Poll(view.runnable[rng.gen_range(0..view.runnable.len())].id);
                }
                let mut x = rng.gen_range(0.0..total);
                for (t, wt) in view.runnable.iter().zip(ws.iter()) {
                    if x < *wt {
                        return Choice::Poll(t.id);
                    }
                    x -= wt;
                }
                Choice::Poll(view.runnable[view.runnable.len() - 1].id)
            }
            Strategy::Pct { rng, prio, change, next_low, p_timer } => {
                if view.runnable.is_empty() {
                    return if view.timer_pending { Choice::FireTimer } else { Choice::Stuck };
                }
                if view.timer_pending && view.timers_allowed && rng.gen_bool(p_timer.clamp(0.0, 1.0)) {
                    return Choice::FireTimer;
                }
                for t in view.runnable.iter() {
                    prio.entry(t.id).or_insert_with(|| rng.gen_range(1000..1_000_000));
                }
                let best = view.runnable.iter().max_by_key(|t| prio[&t.id]).unwrap().id;
                if change.first().map(|&c| c <= view.step).unwrap_or(false) {
                    change.remove(0);
                    prio.insert(best, *next_low);
                    *next_low -= 1;
                }
                Choice::Poll(best)
            }
            Strategy::Replay { steps, pos, polls_in_step } => {
                loop {
                    if *pos >= steps.len() {
                        return Choice::Default;
                    }
                    let s = steps[*pos].clone();
                    // "T": fire the next timer
                    if s.as_str() == Some("T") {
                        *pos += 1;
                        return if view.timer_pending { Choice::FireTimer } else { Choice::Unrealizable("no timer".into()) };
                    }
                    // plain task name: one poll
                    if let Some(name) = s.as_str() {
                        *pos += 1;
                        return match resolve(view, name) {
                            Ok(c) => c,
                            Err(e) => Choice::Unrealizable(format!("step {}: {}", *pos - 1, e)),
                        };
                    }
                    // {"run": name, "until": "label substring", "max": n}: poll `name` until it is parked
                    // at a scheduling point whose label contains `until` (or it finished)
                    let name = s["run"].as_str().unwrap_or("");
                    let until = s["until"].as_str().unwrap_or("");
                    let max = s["max"].as_u64().unwrap_or(200);
                    let info = view.all.iter().find(|t| t.name == name);
                    let Some(info) = info else {
                        *pos += 1;
                        return Choice::Unrealizable(format!("step {}: unknown task {}", *pos - 1, name));
                    };
                    let arrived = info.state == TState::Done || (*polls_in_step > 0 && !until.is_empty() && label_matches(&info.at, until));
                    if arrived || (until.is_empty() && *polls_in_step > 0) {
                        *pos += 1;
                        *polls_in_step = 0;
                        continue;
                    }
                    if *polls_in_step >= max {
                        *pos += 1;
                        *polls_in_step = 0;
                        return Choice::Unrealizable(format!("step {}: {} did not reach '{}' (at {})", *pos - 1, name, until, info.at));
                    }
                    *polls_in_step += 1;
                    return match resolve(view, name) {
                        Ok(c) => c,
                        Err(e) => {
                            *pos += 1;
                            *polls_in_step = 0;
                            Choice::Unrealizable(format!("step {}: {}", *pos - 1, e))
                        }
                    };
                }
            }
        }
    }
}

/// `until` is a `|`-separated list of alternatives; `=x` means equality, otherwise substring.
pub fn label_matches(at: &str, until: &str) -> bool {
    until.split('|').any(|u| match u.strip_prefix('=') {
        Some(e) => at == e,
        None => !u.is_empty() && at.contains(u),
    })
}

pub fn default_choice(view: &View) -> Choice {
    if let Some(t) = view.runnable.first() {
        return Choice::Poll(t.id);
    }
    if view.timer_pending {
        Choice::FireTimer
    } else {
        Choice::Stuck
    }
}

/// A named task is pollable when runnable; when it sleeps on a timer the replay means "let that
/// timer fire" (the world turns the FireTimer-for-task request into a clock advance).
fn resolve(view: &View, name: &str) -> Result<Choice, String> {
    let Some(t) = view.all.iter().find(|t| t.name == name) else {
        return Err(format!("unknown task {}", name));
    };
    match t.state {
        TState::Runnable => Ok(Choice::Poll(t.id)),
        TState::Done => Err(format!("task {} already finished", name)),
        TState::Blocked => {
            if t.timer.is_some() {
                // encoded as Poll: the world advances the clock to the task's deadline first
                Ok(Choice::Poll(t.id))
            } else {
                Err(format!("task {} is blocked at {}", name, t.at))
            }
        }
    }
}
