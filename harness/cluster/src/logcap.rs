//! Evidence from the code under test itself: a minimal `tracing` subscriber that keeps the
//! messages of a few statements of distributed-walrus (compiled unmodified into this crate) so
//! that the world can attach them, with scheduler step and task, to the event log.
//!
//! What the checker derives from them (vlib/props_cluster.py, `_lease_evidence`):
//!  * `update_leases node=N leases={..}` (NodeController::update_leases, emitted right after the
//!    expected lease set was computed from the node's applied metadata and before
//!    Storage::update_leases is entered): WHICH task refreshed the leases of WHICH node, at
//!    which step, with WHICH expected set;
//!  * `write rejected for K (leases: ..)` (Storage::ensure_lease): a lease check that failed;
//!  * `append_for_topic ..`, `append retry ..`, `append attempt ..`, `handle_rpc: ..`: the path
//!    of an append (local / forwarded, first attempt / retry), kept for the replay files.
//! A change of the code that removes or rewords these statements makes the evidence disappear;
//! the classification then says `undetermined`, which no known finding matches.

use std::cell::RefCell;
use std::fmt::Write;
use tracing::field::{Field, Visit};
use tracing::span::{Attributes, Id, Record};
use tracing::{Event, Metadata, Subscriber};

const KEEP: [&str; 7] = [
    "update_leases node=",
    "write rejected for ",
    "append_for_topic topic=",
    "append retry for ",
    "append attempt ",
    "handle_rpc: processing op ForwardAppend",
    "handle_rpc: append success for ",
];

thread_local! {
    static BUF: RefCell<Vec<String>> = const { RefCell::new(Vec::new()) };
}

struct Msg(String);

impl Visit for Msg {
    fn record_debug(&mut self, field: &Field, value: &dyn std::fmt::Debug) {
        if field.name() == "message" {
            let _ = write!(self.0, "{:?}", value);
        }
    }
}

struct Capture;

impl Subscriber for Capture {
    fn enabled(&self, m: &Metadata<'_>) -> bool {
        m.is_event()
    }
    fn new_span(&self, _: &Attributes<'_>) -> Id {
        Id::from_u64(1)
    }
    fn record(&self, _: &Id, _: &Record<'_>) {}
    fn record_follows_from(&self, _: &Id, _: &Id) {}
    fn event(&self, e: &Event<'_>) {
        let mut m = Msg(String::new());
        e.record(&mut m);
        if KEEP.iter().any(|p| m.0.starts_with(p)) {
            if m.0.len() > 4000 {
                let mut cut = 4000;
                while !m.0.is_char_boundary(cut) {
                    cut -= 1;
                }
                m.0.truncate(cut);
            }
            BUF.with(|b| b.borrow_mut().push(m.0));
        }
    }
    fn enter(&self, _: &Id) {}
    fn exit(&self, _: &Id) {}
}

/// Installs the capture as the process-wide subscriber (idempotent).
pub fn install() {
    let _ = tracing::subscriber::set_global_default(Capture);
}

/// Messages recorded on this thread since the last call.
pub fn take() -> Vec<String> {
    BUF.with(|b| std::mem::take(&mut *b.borrow_mut()))
}
