//! Crash-point enumeration (filled in below).
pub fn main(_args: &[String]) -> i32 {
    eprintln!("crash: not built yet");
    2
}
