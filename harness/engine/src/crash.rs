//! Crash-point enumeration (DESIGN.md 4.5).
//!
//!   crash --in <behaviours.ndjson> --out <trace.ndjson> --dir <scratch> [--max-points N] [--seed S]
//!
//! For each behaviour: a dry run in a child process numbers every durable mutation of the driver
//! thread (cfg hook `io_event`); then, for every k, a child runs the behaviour again in a fresh
//! directory and `_exit`s immediately *before* performing event k (for an io_uring batch it first
//! performs a chosen subset of the batch's writes itself: the disk state of a kernel that had
//! completed exactly that subset); a second child reopens the directory, reports whether recovery
//! succeeded and drains every topic. The concatenation (events before the crash, `crash` event with
//! the operation in flight, post-recovery reads) is one trace group for TLC.

use crate::exec::{self, Behaviour, Run};
use serde_json::{json, Value};
use std::io::Write;
use std::path::{Path, PathBuf};
use walrus_rust::wal::verif;

fn arg_val(args: &[String], name: &str) -> Option<String> {
    args.iter().position(|a| a == name).and_then(|i| args.get(i + 1).cloned())
}

fn append_lines(path: &str, lines: &[String]) {
    if lines.is_empty() {
        return;
    }
    let mut f = std::fs::OpenOptions::new().create(true).append(true).open(path).expect("open out");
    let mut buf = String::new();
    for l in lines {
        buf.push_str(l);
        buf.push('\n');
    }
    f.write_all(buf.as_bytes()).expect("write");
}

/// Child: run the behaviour, crashing before counted event `at` (0 = dry run).
fn child_run(args: &[String]) -> i32 {
    let spec = arg_val(args, "--beh").expect("--beh");
    let dir = arg_val(args, "--dir").expect("--dir");
    let out = arg_val(args, "--out").expect("--out");
    let at: u64 = arg_val(args, "--at").map(|s| s.parse().unwrap()).unwrap_or(0);
    let mask: u64 = arg_val(args, "--mask").map(|s| s.parse().unwrap()).unwrap_or(0);
    let beh: Behaviour = serde_json::from_slice(&std::fs::read(&spec).expect("read beh")).expect("beh json");
    exec::set_backend(&beh.cfg);
    exec::start_watchdog(30, out.clone());
    verif::count_this_thread(true);
    let dump_io = arg_val(args, "--dump-io");
    if at == 0 {
        verif::set_recording(true, dump_io.is_some());
    } else {
        verif::set_crash_at(at, mask);
    }
    let base = PathBuf::from(&dir);
    std::fs::create_dir_all(&base).unwrap();
    if let Some(pre) = beh.cfg.pre_fsync.as_deref() {
        // an earlier instance of the same process with another schedule (its own directory, nothing is kept)
        let pdir = base.join("_pre");
        let _ = std::fs::create_dir_all(&pdir);
        let r = std::panic::catch_unwind(std::panic::AssertUnwindSafe(|| {
            walrus_rust::Walrus::builder().data_dir(pdir.clone()).fsync_schedule(exec::fsync_of(pre)).build().map(drop)
        }));
        let _ = r;
    }
    let mut run = Run::new(&beh.id, &beh.cfg, &base);
    run.keep_io_log = at == 0;
    append_lines(&out, &[json!({"ev":"note","what":"opstart","op":{"op":"_open"}}).to_string()]);
    for i in 0..run.insts.len() {
        if let Err(e) = run.open_inst(i) {
            run.emit(json!({"ev":"reopen","i":i,"res":e,"proc":"initial"}));
            append_lines(&out, &run.lines);
            return 0;
        }
    }
    append_lines(&out, &[json!({"ev":"note","what":"opdone"}).to_string()]);
    let _ = run.drain_io();
    let mut marks: Vec<usize> = vec![run.io_log_all.len()];
    let mut marks_seq: Vec<u64> = vec![verif::io_counter()];
    for op in beh.ops.iter() {
        if run.dead {
            break;
        }
        append_lines(&out, &[json!({"ev":"note","what":"opstart","op":op}).to_string()]);
        run.exec_op(op);
        run.emit(json!({"ev":"note","what":"opdone"}));
        let lines = std::mem::take(&mut run.lines);
        append_lines(&out, &lines);
        if at == 0 {
            let _ = run.drain_io();
            marks.push(run.io_log_all.len());
            marks_seq.push(verif::io_counter());
        }
    }
    if let (0, Some(path)) = (at, dump_io.as_ref()) {
        // full I/O log with data (power-loss reconstruction), positions after each operation
        let _ = run.drain_io();
        let evs: Vec<Value> = run.io_log_all.iter().map(|r| {
            let hex: String = r.data.as_ref().map(|d| d.iter().map(|b| format!("{:02x}", b)).collect()).unwrap_or_default();
            json!({"seq": r.seq, "kind": r.kind, "path": r.path, "path2": r.path2, "off": r.off, "len": r.len,
                   "data": hex, "has_data": r.data.is_some(), "counted": r.counted})
        }).collect();
        std::fs::write(path, serde_json::to_vec(&json!({"events": evs, "marks": marks})).unwrap()).unwrap();
    }
    if at == 0 {
        // dry run: report the numbered events
        let _ = run.drain_io();
        let log = run.io_log_all.clone();
        let mut evs: Vec<Value> = Vec::new();
        let mut i = 0;
        while i < log.len() {
            let r = &log[i];
            if r.counted {
                let mut n = 0;
                // offsets/lengths of the WAL data writes this event stands for (one per entry, in entry order)
                let mut writes: Vec<Value> = Vec::new();
                if r.kind == "uring_submit" {
                    n = r.len;
                    let mut j = i + 1;
                    while j < log.len() && log[j].kind == "uring_write" {
                        writes.push(json!([log[j].off, log[j].len]));
                        j += 1;
                    }
                } else if r.kind == "write" {
                    writes.push(json!([r.off, r.len]));
                }
                let base = std::path::Path::new(&r.path).file_name().map(|x| x.to_string_lossy().into_owned()).unwrap_or_default();
                let wal = !base.is_empty() && base.chars().all(|c| c.is_ascii_digit());
                evs.push(json!({"seq": r.seq, "kind": r.kind, "n": n, "wal": wal, "writes": writes}));
            }
            i += 1;
        }
        append_lines(&out, &[json!({"ev":"note","what":"iolog","total": verif::io_counter(), "events": evs, "marks_seq": marks_seq}).to_string()]);
    }
    // leave without a clean shutdown: a completed run followed by a crash at "N+1"
    std::io::stdout().flush().ok();
    unsafe { libc::_exit(0) }
}

/// Child: reopen after a crash and drain.
fn child_recover(args: &[String]) -> i32 {
    let spec = arg_val(args, "--beh").expect("--beh");
    let dir = arg_val(args, "--dir").expect("--dir");
    let out = arg_val(args, "--out").expect("--out");
    let inflight: Value = serde_json::from_str(&arg_val(args, "--inflight").unwrap_or("[]".into())).unwrap_or(json!([]));
    let dmg = args.iter().any(|a| a == "--dmg");
    let beh: Behaviour = serde_json::from_slice(&std::fs::read(&spec).expect("read beh")).expect("beh json");
    exec::set_backend(&beh.cfg);
    exec::start_watchdog(30, out.clone());
    verif::count_this_thread(true);
    let base = PathBuf::from(&dir);
    let mut run = Run::new(&beh.id, &beh.cfg, &base);
    let mut res = "ok".to_string();
    for i in 0..run.insts.len() {
        if let Err(e) = run.open_inst(i) {
            res = e;
            break;
        }
    }
    if dmg {
        run.emit(json!({"ev":"note","what":"damaged_open","res":res}));
        run.dmg = true;
    } else {
        run.emit(json!({"ev":"crash","i":0,"inflight":inflight,"res":res}));
    }
    if res == "ok" {
        let topics = run.cfg.topics.clone();
        for i in 0..run.insts.len() {
            for t in topics.iter() {
                for _ in 0..40 {
                    let before = run.lines.len();
                    run.exec_op(&json!({"op":"bread","i":i,"t":t,"budget":-1,"ckpt":true,"off":-1}));
                    let empty = run.lines[before..].iter().any(|l| l.contains("\"ev\":\"bread\"") && l.contains("\"res\":[]"));
                    if empty {
                        break;
                    }
                }
                run.exec_op(&json!({"op":"read","i":i,"t":t,"ckpt":true}));
            }
        }
    }
    let lines = std::mem::take(&mut run.lines);
    append_lines(&out, &lines);
    0
}

fn inflight_of(op: &Value, max_batch: u64) -> Value {
    let kind = op["op"].as_str().unwrap_or("");
    let i = op["i"].as_u64().unwrap_or(0) as usize;
    let t = exec::compound(i, op["t"].as_str().unwrap_or("a"));
    if op.get("tlen").is_some() {
        return json!([]);
    }
    match kind {
        "append" => {
            let id = op["id"].as_i64().unwrap();
            let sz = op["size"].as_u64().unwrap() as usize;
            json!(["append", t, [[crate::payload::key_of(id, sz), sz]]])
        }
        "batch" => {
            let es: Vec<Value> = op["es"].as_array().unwrap().iter().map(|e| {
                let id = e[0].as_i64().unwrap();
                let sz = e[1].as_u64().unwrap() as usize;
                json!([crate::payload::key_of(id, sz), sz])
            }).collect();
            json!(["batch", t, es])
        }
        "read" if op["ckpt"].as_bool().unwrap_or(true) => json!(["read", t, 1]),
        "bread" if op["ckpt"].as_bool().unwrap_or(true) && op["off"].as_i64().unwrap_or(-1) < 0 => json!(["read", t, max_batch]),
        _ => json!([]),
    }
}

fn run_child(args: &[&str]) -> i32 {
    let st = std::process::Command::new(std::env::current_exe().unwrap())
        .arg("crash")
        .args(args)
        .env("WALRUS_QUIET", "1")
        .status();
    match st {
        Ok(s) => s.code().unwrap_or(-1),
        Err(_) => -2,
    }
}

fn read_lines(path: &str) -> Vec<Value> {
    std::fs::read_to_string(path)
        .unwrap_or_default()
        .lines()
        .filter_map(|l| serde_json::from_str(l).ok())
        .collect()
}

fn masks_for(n: u64, seed: u64) -> Vec<u64> {
    if n == 0 {
        return vec![0];
    }
    if n <= 4 {
        return (0..(1u64 << n)).collect();
    }
    let n = n.min(60);
    let full = (1u64 << n) - 1;
    let mut v = vec![0, full];
    for k in 1..n {
        v.push((1u64 << k) - 1); // prefixes
    }
    for k in 1..n.min(6) {
        v.push(full & !((1u64 << k) - 1)); // suffixes
        v.push(full & !(1u64 << k)); // single holes
    }
    let mut x = seed | 1;
    for _ in 0..6 {
        x ^= x << 13;
        x ^= x >> 7;
        x ^= x << 17;
        v.push(x & full);
    }
    v.sort();
    v.dedup();
    v
}

pub fn main(args: &[String]) -> i32 {
    if !args.is_empty() && args[0] == "child-run" {
        return child_run(&args[1..]);
    }
    if !args.is_empty() && args[0] == "child-recover" {
        return child_recover(&args[1..]);
    }
    let inp = arg_val(args, "--in").expect("--in");
    let out = arg_val(args, "--out").expect("--out");
    let dir = arg_val(args, "--dir").expect("--dir");
    let max_points: usize = arg_val(args, "--max-points").map(|s| s.parse().unwrap()).unwrap_or(usize::MAX);
    let seed: u64 = arg_val(args, "--seed").map(|s| s.parse().unwrap()).unwrap_or(1);
    let g = exec::geometry();
    let text = std::fs::read_to_string(&inp).expect("read behaviours");
    let behs: Vec<Behaviour> = text.lines().filter(|l| !l.trim().is_empty()).map(|l| serde_json::from_str(l).expect("beh")).collect();
    let root = Path::new(&dir);
    let _ = std::fs::create_dir_all(root);
    for (bn, beh) in behs.iter().enumerate() {
        let bdir = root.join(format!("c{}", bn));
        let _ = std::fs::remove_dir_all(&bdir);
        std::fs::create_dir_all(&bdir).unwrap();
        let spec = bdir.join("beh.json");
        std::fs::write(&spec, serde_json::to_vec(beh).unwrap()).unwrap();
        let spec_s = spec.to_string_lossy().into_owned();
        // dry run
        let dry_out = bdir.join("dry.ndjson").to_string_lossy().into_owned();
        let dry_dir = bdir.join("dry").to_string_lossy().into_owned();
        let rc = run_child(&["child-run", "--beh", &spec_s, "--dir", &dry_dir, "--out", &dry_out, "--at", "0"]);
        let dry = read_lines(&dry_out);
        let _ = std::fs::remove_dir_all(&dry_dir);
        let iolog = dry.iter().rev().find(|e| e["what"] == "iolog").cloned();
        let marks_seq: Vec<u64> = iolog.as_ref().and_then(|l| l["marks_seq"].as_array().cloned()).unwrap_or_default()
            .iter().map(|x| x.as_u64().unwrap_or(0)).collect();
        let (total, events) = match iolog {
            Some(l) => (l["total"].as_u64().unwrap_or(0), l["events"].as_array().cloned().unwrap_or_default()),
            None => {
                append_lines(&out, &[json!({"ev":"reset","g":format!("{}@dry", beh.id),"mode":beh.cfg.mode,"pe":beh.cfg.pe.max(1),"mb":g.max_batch}).to_string(),
                                     json!({"ev":"died","st":"died","rc":rc,"what":"dry run did not finish"}).to_string()]);
                continue;
            }
        };
        // crash points: every counted event k in 1..=total, and total+1 (after the last one)
        let mut points: Vec<(u64, u64)> = Vec::new();
        for k in 1..=total + 1 {
            let n = events.iter().find(|e| e["seq"].as_u64() == Some(k)).map(|e| e["n"].as_u64().unwrap_or(0)).unwrap_or(0);
            for m in masks_for(n, seed.wrapping_mul(31).wrapping_add(k)) {
                points.push((k, m));
            }
        }
        if points.len() > max_points {
            // deterministic thinning, keeping every io_uring subset point
            let step = (points.len() + max_points - 1) / max_points;
            points = points.into_iter().enumerate().filter(|(i, (_k, m))| *m != 0 || i % step == (seed as usize) % step).map(|(_, p)| p).collect();
        }
        for (k, m) in points {
            let pdir = bdir.join(format!("p{}_{}", k, m));
            let pdir_s = pdir.to_string_lossy().into_owned();
            let pout = bdir.join(format!("p{}_{}.ndjson", k, m)).to_string_lossy().into_owned();
            let ks = k.to_string();
            let ms = m.to_string();
            let rc = run_child(&["child-run", "--beh", &spec_s, "--dir", &pdir_s, "--out", &pout, "--at", &ks, "--mask", &ms]);
            let evs = read_lines(&pout);
            // operation in flight = last opstart without opdone
            let mut inflight_op: Option<Value> = None;
            let mut lines: Vec<String> = Vec::new();
            // WAL data writes of the operation the crash falls into: how many there are and how many were made
            // before the process died (entries of an io_uring submission: the ones selected by the mask)
            let (mut w_total, mut w_done) = (0u64, 0u64);
            // [offset, length, made before the crash] of every WAL data write of that operation, in order
            let mut op_writes: Vec<Value> = Vec::new();
            if let Some(j) = marks_seq.iter().position(|&ms| ms >= k) {
                let lo = if j == 0 { 0 } else { marks_seq[j - 1] };
                let hi = marks_seq[j];
                for e in events.iter() {
                    let sq = e["seq"].as_u64().unwrap_or(0);
                    if sq <= lo || sq > hi {
                        continue;
                    }
                    let kind = e["kind"].as_str().unwrap_or("");
                    if kind == "write" && e["wal"].as_bool().unwrap_or(false) {
                        w_total += 1;
                        if sq < k {
                            w_done += 1;
                        }
                        if let Some(w) = e["writes"].as_array().and_then(|a| a.first()) {
                            op_writes.push(json!([w[0], w[1], sq < k]));
                        }
                    } else if kind == "uring_submit" {
                        let n = e["n"].as_u64().unwrap_or(0);
                        w_total += n;
                        if sq < k {
                            w_done += n;
                        } else if sq == k {
                            w_done += (m & ((1u64 << n.min(63)) - 1)).count_ones() as u64;
                        }
                        for (j, w) in e["writes"].as_array().cloned().unwrap_or_default().iter().enumerate() {
                            let made = sq < k || (sq == k && (m >> j) & 1 == 1);
                            op_writes.push(json!([w[0], w[1], made]));
                        }
                    }
                }
            }
            lines.push(json!({"ev":"reset","g":format!("{}@{}m{}", beh.id, k, m),"mode":beh.cfg.mode,"pe":beh.cfg.pe.max(1),"mb":g.max_batch,
                               "backend":beh.cfg.backend,"geom": if g.tiny {"tiny"} else {"real"},"crash_at":k,"mask":m,"child_rc":rc,
                               "op_writes_total":w_total,"op_writes_done":w_done,"op_writes":op_writes}).to_string());
            let mut pending: Vec<String> = Vec::new();
            for e in evs.iter() {
                if e["ev"] == "note" && e["what"] == "opstart" {
                    inflight_op = Some(e["op"].clone());
                    pending.clear();
                } else if e["ev"] == "note" && e["what"] == "opdone" {
                    inflight_op = None;
                    lines.append(&mut pending);
                } else {
                    pending.push(e.to_string());
                }
            }
            // events of an operation that was interrupted are not acknowledged results
            if rc != 77 && rc != 0 {
                lines.push(json!({"ev":"died","st":"died","rc":rc}).to_string());
                append_lines(&out, &lines);
                let _ = std::fs::remove_dir_all(&pdir);
                let _ = std::fs::remove_file(&pout);
                continue;
            }
            let inflight = match (&inflight_op, rc) {
                (Some(op), 77) => inflight_of(op, g.max_batch),
                _ => json!([]),
            };
            let rout = bdir.join(format!("r{}_{}.ndjson", k, m)).to_string_lossy().into_owned();
            let infl_s = inflight.to_string();
            let rrc = run_child(&["child-recover", "--beh", &spec_s, "--dir", &pdir_s, "--out", &rout, "--inflight", &infl_s]);
            let revs = read_lines(&rout);
            if revs.is_empty() {
                lines.push(json!({"ev":"crash","i":0,"inflight":inflight,"res":format!("recover_child_exit_{}", rrc)}).to_string());
            }
            for e in revs {
                lines.push(e.to_string());
            }
            append_lines(&out, &lines);
            let _ = std::fs::remove_dir_all(&pdir);
            let _ = std::fs::remove_file(&pout);
            let _ = std::fs::remove_file(&rout);
        }
        let _ = std::fs::remove_dir_all(&bdir);
    }
    0
}
