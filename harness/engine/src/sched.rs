//! Controlled thread schedules (DESIGN.md 4.6).
//!
//!   sched --in <jobs.ndjson> --out <trace.ndjson> --dir <scratch>
//!
//! A job = {"id", "cfg", "pre": [ops], "threads": [[ops], ...], "schedule": [tid, ...], "seed": n}.
//! `pre` runs sequentially, then one OS thread per op list runs against the shared instance. Every
//! cfg(walrus_verif) `sched_point` in the engine, and every operation start, is a gate: a thread
//! stops there until the controller grants it. The controller follows `schedule` (thread ids) as
//! far as it is realizable and a seeded random choice afterwards. A granted thread that does not
//! reach its next gate within a short time is blocked on a lock held by a parked thread; the
//! controller then lets another thread run. The recorded call/ret history (global order) is checked
//! for linearizability by TLC (Trace_WalrusConc).

use crate::exec::{self, Cfg};
use crate::payload;
use serde::Deserialize;
use serde_json::{json, Value};
use std::cell::Cell;
use std::collections::{HashMap, HashSet};
use std::io::Write;
use std::panic::{catch_unwind, AssertUnwindSafe};
use std::path::Path;
use std::sync::{Arc, Condvar, Mutex};
use std::time::{Duration, Instant};
use walrus_rust::wal::verif;
use walrus_rust::Walrus;

#[derive(Deserialize, Clone)]
struct Job {
    id: String,
    cfg: Cfg,
    #[serde(default)]
    pre: Vec<Value>,
    threads: Vec<Vec<Value>>,
    #[serde(default)]
    schedule: Vec<usize>,
    #[serde(default)]
    seed: u64,
    /// PCT-style scheduling: fixed random thread priorities with a few random demotion points, which
    /// produces long uninterrupted runs of one thread (needed for windows that several steps of
    /// another thread must fall into).
    #[serde(default)]
    pct: bool,
}

#[derive(Default)]
struct State {
    waiting: HashMap<usize, &'static str>,
    granted: Option<usize>,
    finished: HashSet<usize>,
    active: bool,
    steps: Vec<(usize, String)>,
}

struct Ctl {
    st: Mutex<State>,
    cv: Condvar,
}

thread_local! {
    static TID: Cell<usize> = const { Cell::new(usize::MAX) };
}

fn gate(ctl: &Ctl, label: &'static str) {
    let tid = TID.with(|t| t.get());
    if tid == usize::MAX {
        return; // not a worker thread (controller, background threads)
    }
    let mut st = ctl.st.lock().unwrap();
    if !st.active {
        return;
    }
    st.waiting.insert(tid, label);
    ctl.cv.notify_all();
    while st.granted != Some(tid) {
        if !st.active {
            st.waiting.remove(&tid);
            return;
        }
        st = ctl.cv.wait(st).unwrap();
    }
    st.granted = None;
    st.waiting.remove(&tid);
    st.steps.push((tid, label.to_string()));
    ctl.cv.notify_all();
}

struct Hist {
    lines: Mutex<Vec<String>>,
}

fn pairs_of(entries: &[Vec<u8>]) -> (Vec<Value>, bool) {
    let mut foreign = false;
    let v = entries
        .iter()
        .map(|d| match payload::parse(d) {
            Some(k) => json!([k, d.len()]),
            None => {
                foreign = true;
                json!([-9999, d.len()])
            }
        })
        .collect();
    (v, foreign)
}

/// Executes one op; returns the fields of the `ret` event.
fn do_op(w: &Walrus, op: &Value) -> Value {
    let kind = op["op"].as_str().unwrap_or("");
    let t = op["t"].as_str().unwrap_or("a").to_string();
    match kind {
        "append" => {
            let id = op["id"].as_i64().unwrap();
            let sz = op["size"].as_u64().unwrap() as usize;
            let buf = payload::gen(id, sz);
            match catch_unwind(AssertUnwindSafe(|| w.append_for_topic(&t, &buf))) {
                Ok(Ok(())) => json!({"res":"ok"}),
                Ok(Err(e)) => json!({"res":"err","kind":format!("{:?}", e.kind())}),
                Err(_) => json!({"res":"panic"}),
            }
        }
        "batch" => {
            let bufs: Vec<Vec<u8>> = op["es"].as_array().unwrap().iter().map(|e| payload::gen(e[0].as_i64().unwrap(), e[1].as_u64().unwrap() as usize)).collect();
            let refs: Vec<&[u8]> = bufs.iter().map(|b| b.as_slice()).collect();
            match catch_unwind(AssertUnwindSafe(|| w.batch_append_for_topic(&t, &refs))) {
                Ok(Ok(())) => json!({"res":"ok"}),
                Ok(Err(e)) => json!({"res":"err","kind":format!("{:?}", e.kind())}),
                Err(_) => json!({"res":"panic"}),
            }
        }
        "read" => match catch_unwind(AssertUnwindSafe(|| w.read_next(&t, true))) {
            Ok(Ok(o)) => {
                let es: Vec<Vec<u8>> = o.into_iter().map(|e| e.data).collect();
                let (p, f) = pairs_of(&es);
                json!({"st": if f {"foreign"} else {"ok"}, "res": p})
            }
            Ok(Err(e)) => json!({"st":"err","kind":format!("{:?}", e.kind()),"res":[]}),
            Err(_) => json!({"st":"panic","res":[]}),
        },
        "bread" => {
            let budget = op["budget"].as_i64().unwrap_or(-1);
            let mb = if budget < 0 { usize::MAX } else { budget as usize };
            match catch_unwind(AssertUnwindSafe(|| w.batch_read_for_topic(&t, mb, true, None))) {
                Ok(Ok(v)) => {
                    let es: Vec<Vec<u8>> = v.into_iter().map(|e| e.data).collect();
                    let (p, f) = pairs_of(&es);
                    json!({"st": if f {"foreign"} else {"ok"}, "res": p})
                }
                Ok(Err(e)) => json!({"st":"err","kind":format!("{:?}", e.kind()),"res":[]}),
                Err(_) => json!({"st":"panic","res":[]}),
            }
        }
        _ => json!({}),
    }
}

fn call_event(thr: usize, cid: usize, op: &Value) -> Value {
    let kind = op["op"].as_str().unwrap_or("");
    let t = op["t"].as_str().unwrap_or("a");
    let mut e = json!({"ev":"call","thr":thr,"id":cid,"op":kind,"t":t});
    let o = e.as_object_mut().unwrap();
    match kind {
        "append" => {
            let id = op["id"].as_i64().unwrap();
            let sz = op["size"].as_u64().unwrap() as usize;
            o.insert("es".into(), json!([[payload::key_of(id, sz), sz]]));
        }
        "batch" => {
            let es: Vec<Value> = op["es"].as_array().unwrap().iter().map(|x| {
                let id = x[0].as_i64().unwrap();
                let sz = x[1].as_u64().unwrap() as usize;
                json!([payload::key_of(id, sz), sz])
            }).collect();
            o.insert("es".into(), json!(es));
        }
        "bread" => {
            o.insert("budget".into(), json!(op["budget"].as_i64().unwrap_or(-1)));
        }
        _ => {}
    }
    e
}

fn run_job(job: &Job, base: &Path, out: &mut Vec<String>) {
    let g = exec::geometry();
    out.push(json!({"ev":"reset","g":job.id,"mode":job.cfg.mode,"pe":job.cfg.pe.max(1),"mb":g.max_batch,
                    "backend":job.cfg.backend,"geom": if g.tiny {"tiny"} else {"real"}}).to_string());
    let mut run = exec::Run::new(&job.id, &job.cfg, base);
    if run.open_inst(0).is_err() {
        out.push(json!({"ev":"died","st":"died","what":"open failed"}).to_string());
        return;
    }
    for op in job.pre.iter() {
        run.exec_op(op);
    }
    out.extend(run.lines.drain(..).filter(|l| !l.contains("\"ev\":\"counts\"")));
    let w: Arc<Walrus> = Arc::new(run.insts[0].take().unwrap());
    let ctl = Arc::new(Ctl { st: Mutex::new(State { active: true, ..Default::default() }), cv: Condvar::new() });
    let hist = Arc::new(Hist { lines: Mutex::new(Vec::new()) });
    {
        let c2 = ctl.clone();
        verif::set_sched_hook(Some(Box::new(move |label| gate(&c2, label))));
    }
    let n = job.threads.len();
    let mut handles = Vec::new();
    for (tid, ops) in job.threads.iter().cloned().enumerate() {
        let w = w.clone();
        let ctl = ctl.clone();
        let hist = hist.clone();
        handles.push(std::thread::spawn(move || {
            TID.with(|t| t.set(tid));
            for (k, op) in ops.iter().enumerate() {
                gate(&ctl, "op_start");
                let cid = tid * 100 + k;
                hist.lines.lock().unwrap().push(call_event(tid, cid, op).to_string());
                let r = do_op(&w, op);
                let mut e = json!({"ev":"ret","thr":tid,"id":cid});
                for (kk, vv) in r.as_object().unwrap() {
                    e.as_object_mut().unwrap().insert(kk.clone(), vv.clone());
                }
                hist.lines.lock().unwrap().push(e.to_string());
            }
            let mut st = ctl.st.lock().unwrap();
            st.finished.insert(tid);
            ctl.cv.notify_all();
        }));
    }
    // controller
    let mut sched_pos = 0usize;
    let mut rng = job.seed.wrapping_mul(0x9E37_79B9_7F4A_7C15) | 1;
    let mut unrealizable = 0u64;
    let started = Instant::now();
    let mut next_rand = move || {
        rng ^= rng << 13;
        rng ^= rng >> 7;
        rng ^= rng << 17;
        rng
    };
    let mut prio: Vec<u64> = (0..n).map(|_| next_rand() % 1_000_000 + 1000).collect();
    let change_points: Vec<u64> = (0..2).map(|_| next_rand() % 24 + 1).collect();
    let mut granted_steps = 0u64;
    let mut low = 999u64;
    let mut running: HashSet<usize> = HashSet::new(); // granted, not yet back at a gate (maybe blocked)
    loop {
        let mut st = ctl.st.lock().unwrap();
        if st.finished.len() == n {
            break;
        }
        // threads back at a gate are no longer "running"
        running.retain(|t| !st.waiting.contains_key(t) && !st.finished.contains(t));
        let mut ready: Vec<usize> = st.waiting.keys().cloned().collect();
        ready.sort();
        if ready.is_empty() || st.granted.is_some() {
            let (g2, _) = ctl.cv.wait_timeout(st, Duration::from_millis(5)).unwrap();
            drop(g2);
            if started.elapsed() > Duration::from_secs(25) {
                break;
            }
            continue;
        }
        // wait a little for running threads to either arrive at a gate or prove blocked
        if !running.is_empty() {
            let deadline = Instant::now() + Duration::from_millis(15);
            let mut st2 = st;
            loop {
                running.retain(|t| !st2.waiting.contains_key(t) && !st2.finished.contains(t));
                if running.is_empty() || Instant::now() >= deadline {
                    break;
                }
                let (g2, _) = ctl.cv.wait_timeout(st2, Duration::from_millis(2)).unwrap();
                st2 = g2;
            }
            st = st2;
            ready = st.waiting.keys().cloned().collect();
            ready.sort();
            if ready.is_empty() {
                continue;
            }
        }
        let mut pick = None;
        while sched_pos < job.schedule.len() {
            let want = job.schedule[sched_pos];
            if ready.contains(&want) {
                sched_pos += 1;
                pick = Some(want);
                break;
            }
            // The wanted thread is not at a gate. If it has not started yet (or is between gates
            // without being blocked) give it a moment to arrive before declaring the step unrealizable.
            if want < n && !st.finished.contains(&want) && !running.contains(&want) {
                let deadline = Instant::now() + Duration::from_millis(50);
                let mut st2 = st;
                while !st2.waiting.contains_key(&want) && !st2.finished.contains(&want) && Instant::now() < deadline {
                    let (g2, _) = ctl.cv.wait_timeout(st2, Duration::from_millis(2)).unwrap();
                    st2 = g2;
                }
                st = st2;
                ready = st.waiting.keys().cloned().collect();
                ready.sort();
                if ready.contains(&want) {
                    sched_pos += 1;
                    pick = Some(want);
                    break;
                }
            }
            sched_pos += 1;
            unrealizable += 1;
        }
        if ready.is_empty() {
            continue;
        }
        let tid = match pick {
            Some(t) => t,
            None => {
                if job.pct {
                    let mut best = ready[0];
                    for t in ready.iter() {
                        if prio[*t] > prio[best] {
                            best = *t;
                        }
                    }
                    granted_steps += 1;
                    if change_points.contains(&granted_steps) {
                        // demote the thread that would run now below all others
                        prio[best] = low;
                        low -= 1;
                        let mut b2 = ready[0];
                        for t in ready.iter() {
                            if prio[*t] > prio[b2] {
                                b2 = *t;
                            }
                        }
                        best = b2;
                    }
                    best
                } else {
                    ready[(next_rand() % ready.len() as u64) as usize]
                }
            }
        };
        st.granted = Some(tid);
        running.insert(tid);
        ctl.cv.notify_all();
        drop(st);
    }
    let hung = {
        let mut st = ctl.st.lock().unwrap();
        let hung = st.finished.len() != n;
        st.active = false;
        ctl.cv.notify_all();
        hung
    };
    verif::set_sched_hook(None);
    if hung {
        out.extend(hist.lines.lock().unwrap().drain(..));
        out.push(json!({"ev":"hang","st":"hang","what":"threads did not finish"}).to_string());
        // leak the threads; the process is restarted by the orchestrator
        std::mem::forget(handles);
        return;
    }
    for h in handles {
        let _ = h.join();
    }
    out.extend(hist.lines.lock().unwrap().drain(..));
    let steps: Vec<Value> = ctl.st.lock().unwrap().steps.iter().map(|(t, l)| json!([t, l])).collect();
    out.push(json!({"ev":"note","what":"schedule","unrealizable":unrealizable,"steps":steps.len(),"trace":steps}).to_string());
    // quiescent drain by one thread
    let w = match Arc::try_unwrap(w) {
        Ok(w) => w,
        Err(_) => return,
    };
    run.insts[0] = Some(w);
    let topics = run.cfg.topics.clone();
    for t in topics.iter() {
        for _ in 0..40 {
            let before = run.lines.len();
            run.exec_op(&json!({"op":"bread","t":t,"budget":-1,"ckpt":true,"off":-1}));
            if run.lines[before..].iter().any(|l| l.contains("\"ev\":\"bread\"") && l.contains("\"res\":[]")) {
                break;
            }
        }
        run.exec_op(&json!({"op":"read","t":t,"ckpt":true}));
    }
    out.extend(run.lines.drain(..).filter(|l| !l.contains("\"ev\":\"counts\"")));
}

pub fn main(args: &[String]) -> i32 {
    let get = |n: &str| args.iter().position(|a| a == n).and_then(|i| args.get(i + 1).cloned());
    let inp = get("--in").expect("--in");
    let outp = get("--out").expect("--out");
    let dir = get("--dir").expect("--dir");
    let start: usize = get("--start").map(|s| s.parse().unwrap()).unwrap_or(0);
    let text = std::fs::read_to_string(&inp).expect("read jobs");
    let jobs: Vec<Job> = text.lines().filter(|l| !l.trim().is_empty()).map(|l| serde_json::from_str(l).expect("job json")).collect();
    let mut first = true;
    for (n, job) in jobs.iter().enumerate().skip(start) {
        if first {
            exec::set_backend(&job.cfg);
            first = false;
        }
        let base = Path::new(&dir).join(format!("s{}", n));
        let _ = std::fs::remove_dir_all(&base);
        std::fs::create_dir_all(&base).unwrap();
        let mut out: Vec<String> = Vec::new();
        out.push(json!({"ev":"note","what":"begin","n":n}).to_string());
        run_job(job, &base, &mut out);
        // the reset event must come first in the group
        let reset_ix = out.iter().position(|l| l.contains("\"ev\":\"reset\"")).unwrap_or(0);
        let r = out.remove(reset_ix);
        out.insert(0, r);
        let mut f = std::fs::OpenOptions::new().create(true).append(true).open(&outp).expect("open out");
        for l in out.iter() {
            writeln!(f, "{}", l).unwrap();
        }
        let hung = out.iter().any(|l| l.contains("\"ev\":\"hang\""));
        let _ = std::fs::remove_dir_all(&base);
        if hung {
            std::io::stdout().flush().ok();
            unsafe { libc::_exit(88) };
        }
    }
    0
}
