//! Controlled thread schedules (filled in below).
pub fn main(_args: &[String]) -> i32 {
    eprintln!("sched: not built yet");
    2
}
