//! engine-driver: steps behaviours (operation sequences) through the real walrus engine and
//! records what the public API returned, as ndjson traces for TLC (see /verif/DESIGN.md 4.1/4.2).
//!
//! Sub-commands
//!   run   --in <behaviours.ndjson> --out <trace.ndjson> --dir <scratch> [--start N] [--count N]
//!   cont  (internal) continue one behaviour in a fresh process ("reopen proc=new", crash recovery)
//!   crash (see crash.rs) crash-point enumeration of one behaviour
//!
//! Built with --cfg walrus_verif (and optionally --cfg walrus_verif_tiny).

mod crash;
mod exec;
mod ns;
mod payload;
mod sched;

use std::io::Write;

fn arg_val(args: &[String], name: &str) -> Option<String> {
    args.iter()
        .position(|a| a == name)
        .and_then(|i| args.get(i + 1).cloned())
}

fn main() {
    let args: Vec<String> = std::env::args().collect();
    if args.len() < 2 {
        eprintln!("usage: engine-driver run|cont|crash|geom ...");
        std::process::exit(2);
    }
    // The engine prints debug lines unless WALRUS_QUIET is set.
    if std::env::var("WALRUS_QUIET").is_err() {
        unsafe { std::env::set_var("WALRUS_QUIET", "1") };
    }
    // Panics of the code under test are results; keep their messages for diagnosis.
    std::panic::set_hook(Box::new(|info| {
        if let Ok(p) = std::env::var("VERIF_PANIC_LOG") {
            if let Ok(mut f) = std::fs::OpenOptions::new().create(true).append(true).open(p) {
                let _ = writeln!(f, "{}", info);
            }
        }
    }));
    match args[1].as_str() {
        "geom" => {
            let g = exec::geometry();
            println!("{}", serde_json::to_string(&g).unwrap());
        }
        "run" => {
            let inp = arg_val(&args, "--in").expect("--in");
            let out = arg_val(&args, "--out").expect("--out");
            let dir = arg_val(&args, "--dir").expect("--dir");
            let start: usize = arg_val(&args, "--start").map(|s| s.parse().unwrap()).unwrap_or(0);
            let count: usize = arg_val(&args, "--count")
                .map(|s| s.parse().unwrap())
                .unwrap_or(usize::MAX);
            let code = exec::run_file(&inp, &out, &dir, start, count);
            std::io::stdout().flush().ok();
            std::process::exit(code);
        }
        "cont" => {
            let spec = arg_val(&args, "--spec").expect("--spec");
            let code = exec::run_continuation(&spec);
            std::process::exit(code);
        }
        "crash" => {
            let code = crash::main(&args[2..]);
            std::process::exit(code);
        }
        "ns" => {
            let code = ns::main(&args[2..]);
            std::process::exit(code);
        }
        "sched" => {
            let code = sched::main(&args[2..]);
            std::process::exit(code);
        }
        other => {
            eprintln!("unknown sub-command {}", other);
            std::process::exit(2);
        }
    }
}
