//! C14: where do the real constructors put an instance for a given namespace key?
//! Input: ndjson lines {"k":[class,...],"d":[class,...|"HASH"]} (from TLC), output: one result per
//! (key, constructor).
use serde_json::{json, Value};
use std::io::Write;
use std::panic::{catch_unwind, AssertUnwindSafe};
use std::path::{Path, PathBuf};
use walrus_rust::{FsyncSchedule, ReadConsistency, Walrus};

/// Replaced (non-allowed) characters; the later ones look like path-significant ASCII characters.
const UCHARS: [char; 9] = ['é', '日', 'ß', '\u{FF0F}', '\u{FF0E}', '\u{FF3C}', '\u{2215}', '\u{2024}', '\u{FF5E}'];

fn concrete(class: &str, variant: usize, pos: usize) -> char {
    match class {
        "a" => ['a', 'Z', '7', 'q', '0'][(variant + pos) % 5],
        "-" => '-',
        "_" => '_',
        "." => '.',
        "/" => '/',
        "s" => [' ', '\t', '\n'][(variant + pos) % 3],
        "0" => '\0',
        "u" => UCHARS[(variant + pos) % UCHARS.len()],
        _ => '?',
    }
}

fn listing(dir: &Path) -> Vec<(String, bool)> {
    let mut v = Vec::new();
    if let Ok(rd) = std::fs::read_dir(dir) {
        for e in rd.flatten() {
            let is_dir = e.file_type().map(|t| t.is_dir()).unwrap_or(false);
            v.push((e.file_name().to_string_lossy().into_owned(), is_dir));
        }
    }
    v.sort();
    v
}

pub fn main(args: &[String]) -> i32 {
    let get = |n: &str| args.iter().position(|a| a == n).and_then(|i| args.get(i + 1).cloned());
    let inp = get("--in").expect("--in");
    let out = get("--out").expect("--out");
    let dir = PathBuf::from(get("--dir").expect("--dir"));
    let variant: usize = get("--variant").map(|s| s.parse().unwrap()).unwrap_or(0);
    let text = std::fs::read_to_string(&inp).expect("read keys");
    let mut o = std::fs::File::create(&out).expect("create out");
    let sandbox = dir.join("sandbox");
    let data = sandbox.join("data");
    let _ = std::fs::remove_dir_all(&sandbox);
    std::fs::create_dir_all(&data).unwrap();
    let data_c = std::fs::canonicalize(&data).unwrap();
    for (n, line) in text.lines().enumerate() {
        if line.trim().is_empty() {
            continue;
        }
        let v: Value = serde_json::from_str(line).expect("key json");
        let classes: Vec<String> = v["k"].as_array().unwrap().iter().map(|x| x.as_str().unwrap().to_string()).collect();
        // "uvar": force one particular replaced character for every position of class "u"
        let uvar = v["uvar"].as_u64().map(|x| x as usize);
        let key: String = classes.iter().enumerate().map(|(i, c)| match (c.as_str(), uvar) {
            ("u", Some(j)) => UCHARS[j % UCHARS.len()],
            _ => concrete(c, variant, i),
        }).collect();
        let expect: Vec<String> = v["d"].as_array().unwrap().iter().map(|x| x.as_str().unwrap().to_string()).collect();
        // expected directory name from the model
        let exp_name: Option<String> = if expect.len() == 1 && expect[0] == "HASH" {
            None
        } else {
            Some(expect.iter().enumerate().map(|(i, c)| if c == "_" { '_' } else { concrete(c, variant, i) }).collect())
        };
        let ctors: Vec<usize> = if v["all"].as_bool().unwrap_or(false) { vec![0, 1, 2, 3, 4] } else { vec![(n + variant) % 5] };
        for ctor in ctors {
            if ctor == 3 && key.contains('\0') {
                continue; // an environment variable cannot hold NUL
            }
            if ctor == 3 && key.is_empty() {
                // empty WALRUS_INSTANCE_KEY behaves like an (empty) key; still exercised
            }
            let data_s = data.to_string_lossy().into_owned();
            let k2 = key.clone();
            let r = catch_unwind(AssertUnwindSafe(|| -> std::io::Result<PathBuf> {
                unsafe { std::env::remove_var("WALRUS_INSTANCE_KEY") };
                unsafe { std::env::set_var("WALRUS_DATA_DIR", &data_s) };
                let w = match ctor {
                    0 => Walrus::builder().data_dir(PathBuf::from(&data_s)).key(&k2).build()?,
                    1 => Walrus::new_for_key(&k2)?,
                    2 => Walrus::with_consistency_and_schedule_for_key(&k2, ReadConsistency::AtLeastOnce { persist_every: 2 }, FsyncSchedule::NoFsync)?,
                    3 => {
                        unsafe { std::env::set_var("WALRUS_INSTANCE_KEY", &k2) };
                        let w = Walrus::new()?;
                        unsafe { std::env::remove_var("WALRUS_INSTANCE_KEY") };
                        w
                    }
                    _ => Walrus::builder().key(&k2).build()?,
                };
                w.append_for_topic("t", b"x")?;
                Ok(w.__verif_root())
            }));
            unsafe { std::env::remove_var("WALRUS_INSTANCE_KEY") };
            let mut rec = json!({"k": classes, "ctor": ctor, "key_len": key.chars().count()});
            match r {
                Ok(Ok(root)) => {
                    let root_c = std::fs::canonicalize(&root).unwrap_or(root.clone());
                    let inside = root_c != data_c && root_c.parent().map(|p| p == data_c).unwrap_or(false);
                    let name = root_c.file_name().map(|s| s.to_string_lossy().into_owned()).unwrap_or_default();
                    let name_ok = match &exp_name {
                        Some(e) => &name == e,
                        None => name.starts_with("ns_"),
                    };
                    rec["st"] = json!("ok");
                    rec["inside"] = json!(inside);
                    rec["name"] = json!(name);
                    rec["name_ok"] = json!(name_ok);
                    rec["root"] = json!(root_c.to_string_lossy());
                }
                Ok(Err(e)) => {
                    rec["st"] = json!("err");
                    rec["kind"] = json!(format!("{:?}", e.kind()));
                }
                Err(_) => {
                    rec["st"] = json!("panic");
                }
            }
            // nothing but directories directly in the data dir, nothing but `data` in the sandbox
            let stray_data: Vec<String> = listing(&data).into_iter().filter(|(_, d)| !*d).map(|(n, _)| n).collect();
            let stray_sandbox: Vec<String> = listing(&sandbox).into_iter().filter(|(n, _)| n != "data").map(|(n, _)| n).collect();
            rec["stray_in_datadir"] = json!(stray_data);
            rec["stray_outside"] = json!(stray_sandbox);
            writeln!(o, "{}", rec).unwrap();
        }
    }
    let _ = std::fs::remove_dir_all(&sandbox);
    0
}
