//! Abstract entries <id, size> <-> concrete payload bytes.
//!
//! size >= 8: first 8 bytes = id (LE), rest = xorshift stream seeded by (id, size); key = id.
//! size <  8: `size` bytes of value 0xA0+size; all such payloads of one size are identical, so
//!            their key is -(size+1) (the contract cannot and need not tell them apart).

pub fn key_of(id: i64, size: usize) -> i64 {
    if size >= 8 { id } else { -((size as i64) + 1) }
}

pub fn gen(id: i64, size: usize) -> Vec<u8> {
    if size < 8 {
        return vec![0xA0u8 + size as u8; size];
    }
    let mut v = Vec::with_capacity(size);
    v.extend_from_slice(&(id as u64).to_le_bytes());
    let mut x: u64 = (id as u64)
        .wrapping_mul(0x9E37_79B9_7F4A_7C15)
        .wrapping_add(size as u64)
        | 1;
    while v.len() < size {
        x ^= x << 13;
        x ^= x >> 7;
        x ^= x << 17;
        let b = x.to_le_bytes();
        let take = (size - v.len()).min(8);
        v.extend_from_slice(&b[..take]);
    }
    v
}

/// Some(key) when `bytes` is exactly a payload this module generates.
pub fn parse(bytes: &[u8]) -> Option<i64> {
    let n = bytes.len();
    if n < 8 {
        if bytes.iter().all(|&b| b == 0xA0u8 + n as u8) {
            return Some(-((n as i64) + 1));
        }
        return None;
    }
    let mut idb = [0u8; 8];
    idb.copy_from_slice(&bytes[..8]);
    let id = u64::from_le_bytes(idb) as i64;
    if id < 0 || id > 1_000_000_000 {
        return None;
    }
    if gen(id, n) == bytes { Some(id) } else { None }
}
