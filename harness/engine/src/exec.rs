//! Behaviour execution against the real engine and trace emission.

use crate::payload;
use serde::{Deserialize, Serialize};
use serde_json::{json, Value};
use std::collections::BTreeMap;
use std::io::Write;
use std::panic::{catch_unwind, AssertUnwindSafe};
use std::path::{Path, PathBuf};
use std::sync::atomic::{AtomicU64, Ordering};
use walrus_rust::wal::verif;
use walrus_rust::{FsyncSchedule, ReadConsistency, Walrus};

pub const TAIL_FLAG: u64 = 1u64 << 63;

#[derive(Serialize)]
pub struct Geometry {
    pub tiny: bool,
    pub block: u64,
    pub blocks_per_file: u64,
    pub max_alloc: u64,
    pub max_batch: u64,
    pub max_batch_bytes: u64,
    pub prefix: u64,
}

pub fn geometry() -> Geometry {
    if cfg!(walrus_verif_tiny) {
        Geometry { tiny: true, block: 2048, blocks_per_file: 4, max_alloc: 8192, max_batch: 6, max_batch_bytes: 16 * 1024, prefix: 256 }
    } else {
        Geometry { tiny: false, block: 10 * 1024 * 1024, blocks_per_file: 100, max_alloc: 1 << 30, max_batch: 2000, max_batch_bytes: 10 * (1u64 << 30), prefix: 256 }
    }
}

#[derive(Deserialize, Serialize, Clone, Debug)]
pub struct InstCfg {
    pub dir: String,
    #[serde(default)]
    pub key: Option<String>,
}

#[derive(Deserialize, Serialize, Clone, Debug)]
pub struct Cfg {
    pub backend: String, // fd | mmap
    pub mode: String,    // strict | alo
    #[serde(default = "one")]
    pub pe: u32,
    #[serde(default = "default_fsync")]
    pub fsync: String, // ms<N> | sync_each | none
    #[serde(default)]
    pub insts: Vec<InstCfg>,
    #[serde(default)]
    pub topics: Vec<String>, // plain topic names in use ("a","b","c")
    #[serde(default)]
    pub proj: bool,
    #[serde(default)]
    pub keep_dir: bool,
    /// C10: before the behaviour's own instances, open and drop a throwaway instance with this fsync schedule
    /// (the engine latches process-wide settings from the first instance, e.g. whether WAL files get O_SYNC).
    #[serde(default)]
    pub pre_fsync: Option<String>,
}
fn one() -> u32 { 1 }
fn default_fsync() -> String { "ms200".to_string() }

#[derive(Deserialize, Serialize, Clone, Debug)]
pub struct Behaviour {
    pub id: String,
    pub cfg: Cfg,
    pub ops: Vec<Value>,
}

#[derive(Deserialize, Serialize, Clone, Debug)]
pub struct Acked {
    pub key: i64,
    pub size: usize,
    pub id: i64,
    pub file: String,
}

#[derive(Deserialize, Serialize, Clone, Debug)]
pub struct ContSpec {
    pub beh_id: String,
    pub cfg: Cfg,
    pub base: String,
    pub out: String,
    pub acked: BTreeMap<String, Vec<Acked>>,
    pub ops: Vec<Value>,
    pub clock_ms: u64,
    pub open: Vec<bool>,
}

pub fn fsync_of(s: &str) -> FsyncSchedule {
    if s == "sync_each" {
        FsyncSchedule::SyncEach
    } else if s == "none" {
        FsyncSchedule::NoFsync
    } else if let Some(ms) = s.strip_prefix("ms") {
        FsyncSchedule::Milliseconds(ms.parse().unwrap_or(200))
    } else {
        FsyncSchedule::Milliseconds(200)
    }
}

pub fn consistency_of(cfg: &Cfg) -> ReadConsistency {
    if cfg.mode == "alo" {
        ReadConsistency::AtLeastOnce { persist_every: cfg.pe }
    } else {
        ReadConsistency::StrictlyAtOnce
    }
}

pub fn set_backend(cfg: &Cfg) {
    if cfg.backend == "mmap" {
        walrus_rust::disable_fd_backend();
    } else {
        walrus_rust::enable_fd_backend();
    }
}

// ---------------------------------------------------------------------------------------------
// Watchdog: a single operation that does not return within the limit is a hang.

static HEARTBEAT: AtomicU64 = AtomicU64::new(0);
static WATCH_ACTIVE: AtomicU64 = AtomicU64::new(0);

pub fn start_watchdog(limit_secs: u64, out_path: String) {
    std::thread::spawn(move || {
        let mut last = HEARTBEAT.load(Ordering::SeqCst);
        let mut stuck = 0u64;
        loop {
            std::thread::sleep(std::time::Duration::from_millis(500));
            if WATCH_ACTIVE.load(Ordering::SeqCst) == 0 {
                stuck = 0;
                continue;
            }
            let now = HEARTBEAT.load(Ordering::SeqCst);
            if now == last {
                stuck += 1;
                if stuck * 500 >= limit_secs * 1000 {
                    if let Ok(mut f) = std::fs::OpenOptions::new().append(true).open(&out_path) {
                        let _ = writeln!(f, "{}", json!({"ev":"hang","st":"hang"}));
                    }
                    unsafe { libc::_exit(88) };
                }
            } else {
                stuck = 0;
                last = now;
            }
        }
    });
}

fn beat() {
    HEARTBEAT.fetch_add(1, Ordering::SeqCst);
}

// ---------------------------------------------------------------------------------------------

pub struct Run {
    pub beh_id: String,
    pub cfg: Cfg,
    pub base: PathBuf,
    pub insts: Vec<Option<Walrus>>,
    pub acked: BTreeMap<String, Vec<Acked>>,
    pub lines: Vec<String>,
    pub clock_ms: u64,
    pub dead: bool,
    /// dry runs of the crash enumerator keep the whole numbered I/O log
    pub keep_io_log: bool,
    pub io_log_all: Vec<verif::IoRec>,
    /// reads after a damaged open are tagged (the contract only demands "no foreign payload")
    pub dmg: bool,
}

pub fn compound(i: usize, t: &str) -> String {
    if i == 0 { t.to_string() } else { format!("{}{}", i, t) }
}

fn real_topic(t: &str, tlen: Option<u64>) -> String {
    match tlen {
        Some(n) if (n as usize) > t.len() => {
            let mut s = t.to_string();
            while s.len() < n as usize {
                s.push('x');
            }
            s
        }
        _ => t.to_string(),
    }
}

/// The WAL files of one data directory in name order (names are creation times in ms; recovery
/// scans them in this order). The position in this list + 1 is the file's ordinal: the design
/// model WalrusBlocks identifies files by it.
pub fn wal_files_in(root: &Path) -> Vec<String> {
    let mut names: Vec<String> = match std::fs::read_dir(root) {
        Ok(d) => d
            .filter_map(|e| e.ok())
            .filter(|e| e.file_type().map(|t| !t.is_dir()).unwrap_or(true))
            .filter_map(|e| e.file_name().to_str().map(|s| s.to_string()))
            .filter(|n| !n.is_empty() && n.chars().all(|c| c.is_ascii_digit()))
            .collect(),
        Err(_) => Vec::new(),
    };
    names.sort_by(|a, b| (a.len(), a.as_str()).cmp(&(b.len(), b.as_str())));
    names
}

fn err_kind(e: &std::io::Error) -> String {
    format!("{:?}", e.kind())
}

impl Run {
    pub fn new(beh_id: &str, cfg: &Cfg, base: &Path) -> Self {
        let mut cfg = cfg.clone();
        if cfg.insts.is_empty() {
            cfg.insts.push(InstCfg { dir: "d0".to_string(), key: None });
        }
        if cfg.topics.is_empty() {
            cfg.topics = vec!["a".to_string(), "b".to_string()];
        }
        let n = cfg.insts.len();
        Run {
            beh_id: beh_id.to_string(),
            cfg,
            base: base.to_path_buf(),
            insts: (0..n).map(|_| None).collect(),
            acked: BTreeMap::new(),
            lines: Vec::new(),
            clock_ms: 0,
            dead: false,
            keep_io_log: false,
            io_log_all: Vec::new(),
            dmg: false,
        }
    }

    pub fn emit(&mut self, mut v: Value) {
        if self.dmg {
            if let Some(o) = v.as_object_mut() {
                if o.get("ev").map(|e| e == "read" || e == "bread").unwrap_or(false) {
                    o.insert("dmg".to_string(), json!(true));
                }
            }
        }
        self.lines.push(v.to_string());
    }

    pub fn open_inst(&mut self, i: usize) -> Result<(), String> {
        let ic = self.cfg.insts[i].clone();
        let dir = self.base.join(&ic.dir);
        let _ = std::fs::create_dir_all(&dir);
        if self.clock_ms != 0 {
            verif::set_clock_override(self.clock_ms);
        }
        let cfg = self.cfg.clone();
        let r = catch_unwind(AssertUnwindSafe(|| {
            let mut b = Walrus::builder()
                .data_dir(dir.clone())
                .consistency(consistency_of(&cfg))
                .fsync_schedule(fsync_of(&cfg.fsync));
            if let Some(k) = ic.key.as_deref() {
                b = b.key(k);
            }
            b.build()
        }));
        match r {
            Ok(Ok(w)) => {
                self.insts[i] = Some(w);
                Ok(())
            }
            Ok(Err(e)) => Err(format!("err:{}", err_kind(&e))),
            Err(_) => Err("panic".to_string()),
        }
    }

    fn proj(&self, i: usize, t: &str) -> Value {
        if !self.cfg.proj {
            return Value::Null;
        }
        let w = match self.insts[i].as_ref() {
            Some(w) => w,
            None => return Value::Null,
        };
        let v = w.__verif_topic_view(t);
        let ix = match v.index {
            Some((raw, off)) => {
                if raw & TAIL_FLAG != 0 {
                    json!([1, (raw & !TAIL_FLAG).min(1 << 30), off.min(1 << 30)])
                } else {
                    json!([0, raw.min(1 << 30), off.min(1 << 30)])
                }
            }
            None => json!([]),
        };
        let wr = match v.writer.as_ref() {
            Some((b, off)) => json!([b.id, off, b.limit]),
            None => json!([]),
        };
        // FileStateTracker (process-global), restricted to this instance's files, by file ordinal:
        // [locked, checkpointed, total, fully_allocated]; [] = not registered
        let root = w.__verif_root();
        let views = Walrus::__verif_file_views();
        let fs: Vec<Value> = wal_files_in(&root)
            .iter()
            .map(|name| {
                let path = root.join(name).to_string_lossy().into_owned();
                match views.iter().find(|f| f.path == path) {
                    Some(f) => json!([f.locked, f.checkpointed, f.total, f.fully_allocated]),
                    None => json!([]),
                }
            })
            .collect();
        json!({
            "fs": fs,
            "ci": v.cur_block_idx, "co": v.cur_block_offset,
            "ch": v.chain.iter().map(|b| json!([b.id, b.used])).collect::<Vec<_>>(),
            "tb": v.tail_block_id.min(1 << 30), "to": v.tail_offset.min(1 << 30),
            "w": wr, "ix": ix, "hy": v.hydrated, "rsp": v.reads_since_persist,
        })
    }

    fn with_proj(&self, mut ev: Value, i: usize, t: &str) -> Value {
        let p = self.proj(i, t);
        if !p.is_null() {
            ev.as_object_mut().unwrap().insert("proj".to_string(), p);
        }
        ev
    }

    pub fn emit_counts(&mut self, i: usize) {
        let mut n = serde_json::Map::new();
        if let Some(w) = self.insts[i].as_ref() {
            for t in self.cfg.topics.clone() {
                let c = w.get_topic_entry_count(&t);
                n.insert(compound(i, &t), json!(c.min(1 << 30)));
            }
            self.emit(json!({"ev":"counts","i":i,"n":Value::Object(n)}));
        }
    }

    /// Reclamation requests raised since the last call -> `reclaim` events.
    pub fn emit_reclaims(&mut self) {
        let reqs = verif::take_reclaim_log();
        for path in reqs {
            let mut stored: Vec<Value> = Vec::new();
            for (ct, list) in self.acked.iter() {
                for (pos, a) in list.iter().enumerate() {
                    if a.file == path {
                        stored.push(json!([ct, pos + 1]));
                    }
                }
            }
            let fname = Path::new(&path)
                .file_name()
                .map(|s| s.to_string_lossy().into_owned())
                .unwrap_or_default();
            // only files below this behaviour's scratch area concern this behaviour
            if Path::new(&path).starts_with(&self.base) {
                // ordinal of the file among the WAL files of its directory (0 = not found)
                let fo = Path::new(&path)
                    .parent()
                    .map(|d| wal_files_in(d))
                    .and_then(|l| l.iter().position(|n| *n == fname))
                    .map(|p| p + 1)
                    .unwrap_or(0);
                self.emit(json!({"ev":"reclaim","file":fname,"fo":fo,"stored":stored}));
            }
        }
    }

    pub fn drain_io(&mut self) -> Vec<verif::IoRec> {
        let log = verif::take_io_log();
        if self.keep_io_log {
            self.io_log_all.extend(log.iter().cloned());
        }
        log
    }

    fn entry_files_from_io_log(&mut self, n: usize) -> Vec<String> {
        let log = self.drain_io();
        let mut files: Vec<String> = log
            .iter()
            .filter(|r| (r.kind == "write" || r.kind == "uring_write") && r.len >= 256)
            .map(|r| r.path.clone())
            .collect();
        // a successful operation wrote exactly its entries (zeroing only happens on failure)
        if files.len() > n {
            files = files.split_off(files.len() - n);
        }
        while files.len() < n {
            files.push(String::new());
        }
        files
    }

    fn parse_entries(&self, ct: &str, entries: &[Vec<u8>], offset_read: bool) -> (Vec<Value>, i64, bool) {
        // returns (pairs, headof, foreign)
        let mut out = Vec::new();
        let mut headof: i64 = 0;
        let mut foreign = false;
        for (j, data) in entries.iter().enumerate() {
            let parsed = payload::parse(data);
            // a trimmed first element of an offset read can look like a complete small payload by
            // chance: if it is not an entry of this topic, try the suffix interpretation first
            let known = match (parsed, self.acked.get(ct)) {
                (Some(k), Some(list)) => list.iter().any(|a| a.key == k && a.size == data.len()),
                _ => false,
            };
            match parsed {
                Some(k) if known || !(offset_read && j == 0) => out.push(json!([k, data.len()])),
                _ => {
                    let mut found = false;
                    if offset_read && j == 0 {
                        if let Some(list) = self.acked.get(ct) {
                            for (pos, a) in list.iter().enumerate() {
                                if a.size > data.len() {
                                    let full = payload::gen(a.id, a.size);
                                    if full.ends_with(data) {
                                        headof = (pos + 1) as i64;
                                        found = true;
                                        break;
                                    }
                                }
                            }
                        }
                    }
                    if !found {
                        match parsed {
                            Some(k) => out.push(json!([k, data.len()])),
                            None => {
                                foreign = true;
                                out.push(json!([-9999, data.len()]));
                            }
                        }
                    }
                }
            }
        }
        (out, headof, foreign)
    }

    pub fn exec_op(&mut self, op: &Value) {
        beat();
        let kind = op["op"].as_str().unwrap_or("");
        let i = op["i"].as_u64().unwrap_or(0) as usize;
        let t = op["t"].as_str().unwrap_or("a").to_string();
        let ct = compound(i, &t);
        match kind {
            "append" | "batch" => {
                let tlen = op["tlen"].as_u64();
                let rt = real_topic(&t, tlen);
                let es: Vec<(i64, usize)> = if kind == "append" {
                    vec![(op["id"].as_i64().unwrap(), op["size"].as_u64().unwrap() as usize)]
                } else {
                    op["es"]
                        .as_array()
                        .unwrap()
                        .iter()
                        .map(|e| (e[0].as_i64().unwrap(), e[1].as_u64().unwrap() as usize))
                        .collect()
                };
                // Huge batches by count only (rejection by entry cap) share one small payload.
                let bufs: Vec<Vec<u8>> = es.iter().map(|(id, sz)| payload::gen(*id, *sz)).collect();
                let ev0 = if kind == "append" {
                    json!({"ev":"append","i":i,"t":ct,"k":payload::key_of(es[0].0, es[0].1),"size":es[0].1})
                } else {
                    json!({"ev":"batch","i":i,"t":ct,
                           "es": es.iter().map(|(id, sz)| json!([payload::key_of(*id, *sz), sz])).collect::<Vec<_>>()})
                };
                let mut ev = self.with_proj(ev0, i, &t);
                if !self.keep_io_log {
                    verif::set_recording(true, false);
                }
                let _ = self.drain_io();
                let w = match self.insts[i].as_ref() {
                    Some(w) => w,
                    None => return,
                };
                let r = catch_unwind(AssertUnwindSafe(|| {
                    if kind == "append" {
                        w.append_for_topic(&rt, &bufs[0])
                    } else {
                        let refs: Vec<&[u8]> = bufs.iter().map(|b| b.as_slice()).collect();
                        w.batch_append_for_topic(&rt, &refs)
                    }
                }));
                if !self.keep_io_log {
                    verif::set_recording(false, false);
                }
                let mut failed_io = false;
                let files_ok = if matches!(r, Ok(Ok(()))) { self.entry_files_from_io_log(es.len()) } else { Vec::new() };
                let o = ev.as_object_mut().unwrap();
                match r {
                    Ok(Ok(())) => {
                        o.insert("res".into(), json!("ok"));
                        let files = files_ok;
                        if tlen.is_none() {
                            let list = self.acked.entry(ct.clone()).or_default();
                            for (j, (id, sz)) in es.iter().enumerate() {
                                list.push(Acked { key: payload::key_of(*id, *sz), size: *sz, id: *id, file: files[j].clone() });
                            }
                        } else {
                            // an over-long topic name that was nevertheless accepted: a separate topic
                            o.insert("res".into(), json!("ok_longtopic"));
                        }
                    }
                    Ok(Err(e)) => {
                        failed_io = true;
                        o.insert("res".into(), json!("err"));
                        o.insert("kind".into(), json!(err_kind(&e)));
                    }
                    Err(_) => {
                        failed_io = true;
                        o.insert("res".into(), json!("panic"));
                        o.insert("kind".into(), json!("panic"));
                    }
                }
                if failed_io {
                    let _ = self.drain_io();
                }
                self.emit(ev);
                self.emit_reclaims();
                self.emit_counts(i);
            }
            "read" => {
                let ckpt = op["ckpt"].as_bool().unwrap_or(true);
                let ev0 = json!({"ev":"read","i":i,"t":ct,"ckpt":ckpt});
                let mut ev = self.with_proj(ev0, i, &t);
                let w = match self.insts[i].as_ref() {
                    Some(w) => w,
                    None => return,
                };
                let r = catch_unwind(AssertUnwindSafe(|| w.read_next(&t, ckpt)));
                let o = ev.as_object_mut().unwrap();
                match r {
                    Ok(Ok(opt)) => {
                        let entries: Vec<Vec<u8>> = opt.into_iter().map(|e| e.data).collect();
                        let (pairs, _h, foreign) = self.parse_entries(&ct, &entries, false);
                        o.insert("st".into(), json!(if foreign { "foreign" } else { "ok" }));
                        o.insert("res".into(), json!(pairs));
                    }
                    Ok(Err(e)) => {
                        o.insert("st".into(), json!("err"));
                        o.insert("kind".into(), json!(err_kind(&e)));
                        o.insert("res".into(), json!([]));
                    }
                    Err(_) => {
                        o.insert("st".into(), json!("panic"));
                        o.insert("res".into(), json!([]));
                    }
                }
                self.emit(ev);
                self.emit_reclaims();
                self.emit_counts(i);
            }
            "bread" => {
                let ckpt = op["ckpt"].as_bool().unwrap_or(true);
                let budget = op["budget"].as_i64().unwrap_or(-1);
                let off = op["off"].as_i64().unwrap_or(-1);
                let ev0 = json!({"ev":"bread","i":i,"t":ct,"ckpt":ckpt,"budget":budget,"off":off});
                let mut ev = self.with_proj(ev0, i, &t);
                let w = match self.insts[i].as_ref() {
                    Some(w) => w,
                    None => return,
                };
                let max_bytes = if budget < 0 { usize::MAX } else { budget as usize };
                let start = if off < 0 { None } else { Some(off as u64) };
                let r = catch_unwind(AssertUnwindSafe(|| w.batch_read_for_topic(&t, max_bytes, ckpt, start)));
                let o = ev.as_object_mut().unwrap();
                match r {
                    Ok(Ok(v)) => {
                        let entries: Vec<Vec<u8>> = v.into_iter().map(|e| e.data).collect();
                        let (pairs, headof, foreign) = self.parse_entries(&ct, &entries, off >= 0);
                        o.insert("st".into(), json!(if foreign { "foreign" } else { "ok" }));
                        o.insert("res".into(), json!(pairs));
                        o.insert("headof".into(), json!(headof));
                    }
                    Ok(Err(e)) => {
                        o.insert("st".into(), json!("err"));
                        o.insert("kind".into(), json!(err_kind(&e)));
                        o.insert("res".into(), json!([]));
                        o.insert("headof".into(), json!(0));
                    }
                    Err(_) => {
                        o.insert("st".into(), json!("panic"));
                        o.insert("res".into(), json!([]));
                        o.insert("headof".into(), json!(0));
                    }
                }
                self.emit(ev);
                self.emit_reclaims();
                self.emit_counts(i);
            }
            "count" => self.emit_counts(i),
            "is_clean" => {
                if let Some(w) = self.insts[i].as_ref() {
                    let v = w.topic_is_clean(&t);
                    self.emit(json!({"ev":"is_clean","i":i,"t":ct,"v":v}));
                }
            }
            "mark" => {
                let v = op["v"].as_bool().unwrap_or(true);
                if let Some(w) = self.insts[i].as_ref() {
                    if v { w.mark_topic_clean(&t) } else { w.mark_topic_dirty(&t) }
                    self.emit(json!({"ev":"mark","i":i,"t":ct,"v":v}));
                }
            }
            "fault" => {
                let site = op["site"].as_str().unwrap_or("").to_string();
                let nth = op["nth"].as_u64().unwrap_or(1);
                verif::set_fault_plan(verif::FaultPlan { sites: vec![(site, nth)] });
            }
            "clear_fault" => verif::set_fault_plan(verif::FaultPlan::default()),
            "sleep" => {
                std::thread::sleep(std::time::Duration::from_millis(op["ms"].as_u64().unwrap_or(1)));
            }
            "close" => {
                self.insts[i] = None;
            }
            // C17: hold marker persister threads at the gate `tc_before_persist` (after the snapshot, before
            // persist_updates). Default: only the first thread that arrives is held (scenario family `latep`).
            // `all: true`: EVERY thread that arrives while armed takes the next ticket (0,1,2,...) and parks.
            "hold_persister" => {
                persister_gate::arm(op["all"].as_bool().unwrap_or(false));
            }
            // wait (bounded) until `n` threads have arrived at the gate in total (default 1)
            "await_persister" => {
                let n = op["n"].as_u64().unwrap_or(1);
                let ok = persister_gate::await_arrived(n, op["ms"].as_u64().unwrap_or(300));
                self.emit(json!({"ev":"note","what":"persister_parked","ok":ok,"n":n,"arrived":persister_gate::arrived()}));
            }
            // `ticket: k`: release exactly that thread and wait (bounded) until it has passed `tc_after_persist`;
            // without a ticket: release everything and disarm
            "release_persister" => {
                if let Some(k) = op["ticket"].as_u64() {
                    let ok = persister_gate::release_ticket(k, op["ms"].as_u64().unwrap_or(2000));
                    self.emit(json!({"ev":"note","what":"persister_released","ticket":k,"ok":ok}));
                } else {
                    persister_gate::release(op["ms"].as_u64().unwrap_or(40));
                }
            }
            // gate bookkeeping and the decoded marker file, as notes (no obligation for the contract)
            "gate_stats" => {
                let (arrived, passed) = (persister_gate::arrived(), persister_gate::passed());
                self.emit(json!({"ev":"note","what":"gate_stats","arrived":arrived,"passed":passed}));
            }
            "marker_file" => {
                let ic = self.cfg.insts[i].clone();
                let m = marker_file::read(&self.base.join(&ic.dir));
                self.emit(json!({"ev":"note","what":"marker_file","m":m}));
            }
            "reopen" => {
                // proc = "same": drop and reopen here; "new" is handled by the caller
                if let Some(d) = op["delay_ms"].as_u64() {
                    std::thread::sleep(std::time::Duration::from_millis(d));
                }
                self.insts[i] = None;
                if op["release_persister"].as_bool().unwrap_or(false) {
                    // the dropped instance's persister (held since an earlier op) runs now, before the reopen
                    persister_gate::release(40);
                }
                if let Some(d) = op["clock"].as_i64() {
                    if self.clock_ms == 0 {
                        self.clock_ms = 1_700_000_000_000;
                    }
                    self.clock_ms = (self.clock_ms as i64 + d) as u64;
                }
                let r = self.open_inst(i);
                let res = match &r { Ok(()) => "ok".to_string(), Err(e) => e.clone() };
                self.emit(json!({"ev":"reopen","i":i,"res":res,"proc":op["proc"].as_str().unwrap_or("same")}));
                if r.is_err() {
                    self.dead = true;
                    return;
                }
                self.emit_reclaims();
                self.emit_counts(i);
            }
            _ => {}
        }
    }
}

fn flush_lines(out: &str, lines: &mut Vec<String>) {
    if lines.is_empty() {
        return;
    }
    let mut f = std::fs::OpenOptions::new().create(true).append(true).open(out).expect("open out");
    let mut buf = String::new();
    for l in lines.iter() {
        buf.push_str(l);
        buf.push('\n');
    }
    f.write_all(buf.as_bytes()).expect("write out");
    lines.clear();
}

fn reset_event(beh: &Behaviour) -> Value {
    let g = geometry();
    json!({"ev":"reset","g":beh.id,"mode":beh.cfg.mode,"pe":beh.cfg.pe.max(1),"mb":g.max_batch,
           "backend":beh.cfg.backend,"fsync":beh.cfg.fsync,"geom": if g.tiny {"tiny"} else {"real"}})
}

/// Runs ops[from..]; on a `reopen proc=new` hands the rest to a child process.
fn run_ops(run: &mut Run, ops: &[Value], out: &str) {
    let mut idx = 0;
    while idx < ops.len() {
        if run.dead {
            break;
        }
        let op = &ops[idx];
        if op["op"] == "reopen" && op["proc"] == "new" {
            let i = op["i"].as_u64().unwrap_or(0) as usize;
            if let Some(d) = op["delay_ms"].as_u64() {
                std::thread::sleep(std::time::Duration::from_millis(d));
            }
            // clean shutdown of every instance of this process
            for w in run.insts.iter_mut() {
                *w = None;
            }
            if let Some(d) = op["clock"].as_i64() {
                if run.clock_ms == 0 {
                    run.clock_ms = 1_700_000_000_000;
                }
                run.clock_ms = (run.clock_ms as i64 + d) as u64;
            }
            flush_lines(out, &mut run.lines);
            let mut rest = vec![json!({"op":"_open_after_new","i":i})];
            rest.extend_from_slice(&ops[idx + 1..]);
            let spec = ContSpec {
                beh_id: run.beh_id.clone(),
                cfg: run.cfg.clone(),
                base: run.base.to_string_lossy().into_owned(),
                out: out.to_string(),
                acked: run.acked.clone(),
                ops: rest,
                clock_ms: run.clock_ms,
                open: run.insts.iter().map(|_| true).collect(),
            };
            let spec_path = run.base.join("cont.json");
            std::fs::write(&spec_path, serde_json::to_vec(&spec).unwrap()).unwrap();
            WATCH_ACTIVE.store(0, Ordering::SeqCst);
            let status = std::process::Command::new(std::env::current_exe().unwrap())
                .arg("cont")
                .arg("--spec")
                .arg(&spec_path)
                .status();
            WATCH_ACTIVE.store(1, Ordering::SeqCst);
            match status {
                Ok(s) if s.success() => {}
                Ok(s) => {
                    run.lines.push(json!({"ev":"reopen","i":i,"res":format!("child_exit_{}", s.code().unwrap_or(-1)),"proc":"new"}).to_string());
                }
                Err(_) => {
                    run.lines.push(json!({"ev":"reopen","i":i,"res":"spawn_failed","proc":"new"}).to_string());
                }
            }
            run.dead = true; // the child did the rest
            break;
        }
        run.exec_op(op);
        flush_lines(out, &mut run.lines);
        idx += 1;
    }
}

pub fn run_file(inp: &str, out: &str, dir: &str, start: usize, count: usize) -> i32 {
    let text = std::fs::read_to_string(inp).expect("read behaviours");
    let behs: Vec<Behaviour> = text
        .lines()
        .filter(|l| !l.trim().is_empty())
        .map(|l| serde_json::from_str(l).expect("behaviour json"))
        .collect();
    let _ = std::fs::create_dir_all(dir);
    start_watchdog(30, out.to_string());
    verif::count_this_thread(true);
    let mut first = true;
    for (n, beh) in behs.iter().enumerate().skip(start).take(count) {
        if first {
            set_backend(&beh.cfg);
            first = false;
        }
        let base = Path::new(dir).join(format!("b{}", n));
        let _ = std::fs::remove_dir_all(&base);
        std::fs::create_dir_all(&base).unwrap();
        let mut run = Run::new(&beh.id, &beh.cfg, &base);
        run.emit(reset_event(beh));
        // progress marker for the orchestrator (which behaviour a hang/abort belongs to)
        run.emit(json!({"ev":"note","what":"begin","n":n}));
        WATCH_ACTIVE.store(1, Ordering::SeqCst);
        verif::set_fault_plan(verif::FaultPlan::default());
        let _ = verif::take_reclaim_log();
        let mut ok = true;
        for i in 0..run.insts.len() {
            if let Err(e) = run.open_inst(i) {
                run.emit(json!({"ev":"reopen","i":i,"res":e,"proc":"initial"}));
                ok = false;
                break;
            }
        }
        if ok {
            flush_lines(out, &mut run.lines);
            run_ops(&mut run, &beh.ops, out);
        }
        WATCH_ACTIVE.store(0, Ordering::SeqCst);
        flush_lines(out, &mut run.lines);
        for w in run.insts.iter_mut() {
            *w = None;
        }
        if !beh.cfg.keep_dir {
            let _ = std::fs::remove_dir_all(&base);
        }
    }
    0
}

pub fn run_continuation(spec_path: &str) -> i32 {
    let spec: ContSpec = serde_json::from_slice(&std::fs::read(spec_path).expect("read spec")).expect("spec json");
    set_backend(&spec.cfg);
    start_watchdog(30, spec.out.clone());
    verif::count_this_thread(true);
    let mut run = Run::new(&spec.beh_id, &spec.cfg, Path::new(&spec.base));
    run.acked = spec.acked.clone();
    run.clock_ms = spec.clock_ms;
    WATCH_ACTIVE.store(1, Ordering::SeqCst);
    let mut ops = spec.ops.clone();
    if !ops.is_empty() && ops[0]["op"] == "_open_after_new" {
        let which = ops[0]["i"].as_u64().unwrap_or(0) as usize;
        ops.remove(0);
        // reopen every instance that was open; report the one the behaviour named
        for i in 0..run.insts.len() {
            let r = run.open_inst(i);
            if i == which || r.is_err() {
                let res = match &r { Ok(()) => "ok".to_string(), Err(e) => e.clone() };
                run.emit(json!({"ev":"reopen","i":i,"res":res,"proc":"new"}));
            } else {
                run.emit(json!({"ev":"reopen","i":i,"res":"ok","proc":"new"}));
            }
            if r.is_err() {
                run.dead = true;
                break;
            }
            run.emit_reclaims();
            run.emit_counts(i);
        }
    }
    run_ops(&mut run, &ops, &spec.out);
    flush_lines(&spec.out, &mut run.lines);
    0
}


/// Gate for the marker persister threads (engine labels `tc_before_persist` / `tc_after_persist`), used by the
/// scripted C17 scenarios and by the replay of MarkerStore behaviours.
pub mod persister_gate {
    use std::cell::Cell;
    use std::collections::BTreeSet;
    use std::sync::atomic::{AtomicBool, Ordering};
    use std::sync::Mutex;
    use std::time::{Duration, Instant};
    use walrus_rust::wal::verif;

    /// mode 0: not armed; 1: hold the first arrival only; 2: every arrival takes a ticket and parks
    struct Gate {
        mode: u8,
        epoch: u64,
        next: u64,
        released: BTreeSet<u64>,
        passed: BTreeSet<u64>,
    }
    static GATE: Mutex<Gate> = Mutex::new(Gate { mode: 0, epoch: 0, next: 0, released: BTreeSet::new(), passed: BTreeSet::new() });
    static INSTALLED: AtomicBool = AtomicBool::new(false);
    thread_local! {
        /// (epoch, ticket) of a thread that was parked and has not passed `tc_after_persist` yet
        static MINE: Cell<Option<(u64, u64)>> = const { Cell::new(None) };
    }

    fn hook(label: &'static str) {
        if label == "tc_before_persist" {
            let (epoch, ticket) = {
                let mut g = GATE.lock().unwrap();
                if g.mode == 0 || (g.mode == 1 && g.next > 0) {
                    return;
                }
                let t = g.next;
                g.next += 1;
                (g.epoch, t)
            };
            MINE.with(|m| m.set(Some((epoch, ticket))));
            let t0 = Instant::now();
            // never hold longer than 5 s (a scenario that forgets to release must not hang the driver)
            while t0.elapsed() < Duration::from_secs(5) {
                {
                    let g = GATE.lock().unwrap();
                    if g.mode == 0 || g.epoch != epoch || g.released.contains(&ticket) {
                        break;
                    }
                }
                std::thread::sleep(Duration::from_micros(200));
            }
        } else if label == "tc_after_persist" {
            if let Some((epoch, ticket)) = MINE.with(|m| m.take()) {
                let mut g = GATE.lock().unwrap();
                if g.epoch == epoch {
                    g.passed.insert(ticket);
                }
            }
        }
    }

    pub fn arm(all: bool) {
        if !INSTALLED.swap(true, Ordering::SeqCst) {
            verif::set_sched_hook(Some(Box::new(hook)));
        }
        let mut g = GATE.lock().unwrap();
        g.epoch += 1;
        g.next = 0;
        g.released.clear();
        g.passed.clear();
        g.mode = if all { 2 } else { 1 };
    }

    pub fn arrived() -> u64 {
        GATE.lock().unwrap().next
    }

    pub fn passed() -> u64 {
        GATE.lock().unwrap().passed.len() as u64
    }

    pub fn await_arrived(n: u64, ms: u64) -> bool {
        let t0 = Instant::now();
        while arrived() < n && t0.elapsed() < Duration::from_millis(ms) {
            std::thread::sleep(Duration::from_micros(300));
        }
        arrived() >= n
    }

    /// Releases exactly the thread holding `ticket`; true once it has passed `tc_after_persist`.
    pub fn release_ticket(ticket: u64, ms: u64) -> bool {
        {
            let mut g = GATE.lock().unwrap();
            if ticket >= g.next {
                return false;
            }
            g.released.insert(ticket);
        }
        let t0 = Instant::now();
        loop {
            if GATE.lock().unwrap().passed.contains(&ticket) {
                return true;
            }
            if t0.elapsed() >= Duration::from_millis(ms) {
                return false;
            }
            std::thread::sleep(Duration::from_micros(200));
        }
    }

    /// Releases every parked thread and disarms the gate.
    pub fn release(settle_ms: u64) {
        let was = {
            let mut g = GATE.lock().unwrap();
            let was = g.mode != 0;
            g.mode = 0;
            was
        };
        if was {
            std::thread::sleep(Duration::from_millis(settle_ms));
        }
    }
}

/// The marker file of a data directory, decoded (same archived layout as the engine's private
/// `HashMap<String, CleanMarkerRecord>`): {topic: [generation, is_clean]}.
pub mod marker_file {
    use rkyv::{Archive, Deserialize, Serialize};
    use serde_json::{json, Value};
    use std::collections::HashMap;
    use std::path::Path;

    #[derive(Archive, Deserialize, Serialize, Debug, Clone)]
    #[archive(check_bytes)]
    pub struct Rec {
        pub generation: u64,
        pub is_clean: bool,
    }

    pub fn read(dir: &Path) -> Value {
        let path = dir.join("topic_clean_index.db");
        let bytes = match std::fs::read(&path) {
            Ok(b) => b,
            Err(_) => return json!({}),
        };
        if bytes.is_empty() {
            return json!({});
        }
        let mut aligned = rkyv::AlignedVec::with_capacity(bytes.len());
        aligned.extend_from_slice(&bytes);
        match rkyv::check_archived_root::<HashMap<String, Rec>>(&aligned[..]) {
            Ok(archived) => {
                let m: HashMap<String, Rec> = archived.deserialize(&mut rkyv::Infallible).unwrap_or_default();
                let mut o = serde_json::Map::new();
                for (k, r) in m {
                    o.insert(k, json!([r.generation, r.is_clean]));
                }
                Value::Object(o)
            }
            Err(_) => json!({"_undecodable": [bytes.len(), false]}),
        }
    }
}
