//! Verification shim for `tokio` (DESIGN.md 4.4): a deterministic single-threaded executor and an
//! in-memory TCP. Only what /repo/distributed-walrus/src/client.rs names is provided:
//! `tokio::spawn`, `tokio::net::{TcpListener, TcpStream}`, `tokio::io::{AsyncReadExt, AsyncWriteExt}`
//! (`read_exact`, `write_all`). The test side drives everything through `tokio::shim`:
//! `shim::reset()`, `shim::spawn_root(fut)`, `shim::connect(addr)`, `shim::run_until_idle(budget)`.
//!
//! Semantics kept from the real crate because client.rs depends on them:
//!  * `read_exact` returns `ErrorKind::UnexpectedEof` when the peer closed before the buffer was
//!    filled (whether zero or some bytes had arrived),
//!  * dropping a `TcpStream` closes its write direction (the peer then reads EOF),
//!  * spawned tasks run independently of the spawner and are dropped with the runtime.
use std::cell::RefCell;
use std::collections::{HashMap, VecDeque};
use std::future::Future;
use std::pin::Pin;
use std::sync::atomic::{AtomicBool, Ordering};
use std::sync::{Arc, Mutex};
use std::task::{Context, Poll, Wake, Waker};

// ------------------------------------------------------------------------------------------------
// executor

struct TaskWaker {
    id: usize,
    queued: AtomicBool,
    ready: Arc<Mutex<VecDeque<usize>>>,
}

impl Wake for TaskWaker {
    fn wake(self: Arc<Self>) {
        self.wake_by_ref()
    }
    fn wake_by_ref(self: &Arc<Self>) {
        if !self.queued.swap(true, Ordering::SeqCst) {
            self.ready.lock().unwrap().push_back(self.id);
        }
    }
}

struct Task {
    fut: Pin<Box<dyn Future<Output = ()>>>,
    waker: Arc<TaskWaker>,
}

#[derive(Default)]
struct Runtime {
    tasks: HashMap<usize, Task>,
    next_id: usize,
    ready: Arc<Mutex<VecDeque<usize>>>,
    listeners: HashMap<String, Arc<Mutex<ListenerInner>>>,
    next_port: u16,
    polls: u64,
    finished: u64,
}

thread_local! {
    static RT: RefCell<Runtime> = RefCell::new(Runtime::default());
}

fn spawn_boxed(fut: Pin<Box<dyn Future<Output = ()>>>) -> usize {
    RT.with(|rt| {
        let mut rt = rt.borrow_mut();
        let id = rt.next_id;
        rt.next_id += 1;
        let waker = Arc::new(TaskWaker { id, queued: AtomicBool::new(true), ready: rt.ready.clone() });
        rt.ready.lock().unwrap().push_back(id);
        rt.tasks.insert(id, Task { fut, waker });
        id
    })
}

pub mod task {
    use super::*;

    pub struct JoinHandle<T> {
        pub(crate) slot: Arc<Mutex<Option<T>>>,
        pub(crate) done: Arc<AtomicBool>,
    }

    impl<T> JoinHandle<T> {
        pub fn is_finished(&self) -> bool {
            self.done.load(Ordering::SeqCst)
        }
        /// Test-side accessor: the task's output once it finished.
        pub fn take_output(&self) -> Option<T> {
            self.slot.lock().unwrap().take()
        }
    }
}

/// `tokio::spawn`: same bounds as the real function, so the included files are held to them.
pub fn spawn<F>(fut: F) -> task::JoinHandle<F::Output>
where
    F: Future + Send + 'static,
    F::Output: Send + 'static,
{
    let slot = Arc::new(Mutex::new(None));
    let done = Arc::new(AtomicBool::new(false));
    let (s2, d2) = (slot.clone(), done.clone());
    spawn_boxed(Box::pin(async move {
        let out = fut.await;
        *s2.lock().unwrap() = Some(out);
        d2.store(true, Ordering::SeqCst);
    }));
    task::JoinHandle { slot, done }
}

pub mod shim {
    use super::*;

    #[derive(Debug, Clone, Copy, Default)]
    pub struct RunStats {
        pub polls: u64,
        pub exhausted: bool,
    }

    /// Drops every task, listener and connection of this thread's runtime.
    pub fn reset() {
        let old = RT.with(|rt| std::mem::take(&mut *rt.borrow_mut()));
        drop(old);
    }

    /// Spawns a root task (no `Send` bound: the harness may hold thread-local state).
    pub fn spawn_root<F: Future<Output = ()> + 'static>(fut: F) -> usize {
        spawn_boxed(Box::pin(fut))
    }

    /// Polls runnable tasks in FIFO wake order until none is runnable or `budget` polls were made.
    pub fn run_until_idle(budget: u64) -> RunStats {
        let mut stats = RunStats::default();
        loop {
            if stats.polls >= budget {
                stats.exhausted = true;
                return stats;
            }
            let next = RT.with(|rt| rt.borrow().ready.lock().unwrap().pop_front());
            let Some(id) = next else { return stats };
            // take the task out so that polling it may spawn/accept without a re-entrant borrow
            let task = RT.with(|rt| rt.borrow_mut().tasks.remove(&id));
            let Some(mut task) = task else { continue };
            task.waker.queued.store(false, Ordering::SeqCst);
            let waker = Waker::from(task.waker.clone());
            let mut cx = Context::from_waker(&waker);
            stats.polls += 1;
            let res = task.fut.as_mut().poll(&mut cx);
            match res {
                Poll::Ready(()) => {
                    RT.with(|rt| {
                        let mut rt = rt.borrow_mut();
                        rt.polls += 1;
                        rt.finished += 1;
                    });
                    // dropped outside the borrow: its destructors may touch the runtime
                    drop(task);
                }
                Poll::Pending => RT.with(|rt| {
                    let mut rt = rt.borrow_mut();
                    rt.polls += 1;
                    rt.tasks.insert(id, task);
                }),
            }
        }
    }

    pub fn live_tasks() -> usize {
        RT.with(|rt| rt.borrow().tasks.len())
    }

    pub fn finished_tasks() -> u64 {
        RT.with(|rt| rt.borrow().finished)
    }

    /// Client side of an in-memory connection, used synchronously by the harness.
    pub struct ClientEnd {
        pub(crate) to_server: Arc<Mutex<Pipe>>,
        pub(crate) from_server: Arc<Mutex<Pipe>>,
    }

    impl ClientEnd {
        pub fn send(&self, bytes: &[u8]) {
            let w = {
                let mut p = self.to_server.lock().unwrap();
                p.buf.extend(bytes.iter().copied());
                p.waker.take()
            };
            if let Some(w) = w {
                w.wake();
            }
        }
        /// Half-close: the server reads EOF after the bytes already sent.
        pub fn shutdown_write(&self) {
            let w = {
                let mut p = self.to_server.lock().unwrap();
                p.closed = true;
                p.waker.take()
            };
            if let Some(w) = w {
                w.wake();
            }
        }
        /// Everything the server wrote so far and that was not yet taken.
        pub fn recv_available(&self) -> Vec<u8> {
            let mut p = self.from_server.lock().unwrap();
            p.buf.drain(..).collect()
        }
        /// The server dropped its socket (connection task ended).
        pub fn server_closed(&self) -> bool {
            self.from_server.lock().unwrap().closed
        }
        /// Bytes sent by the client that the server has not read.
        pub fn unread_by_server(&self) -> usize {
            self.to_server.lock().unwrap().buf.len()
        }
    }

    /// Connects to a listener bound with `TcpListener::bind(addr)`.
    pub fn connect(addr: &str) -> std::io::Result<ClientEnd> {
        let l = RT.with(|rt| rt.borrow().listeners.get(addr).cloned());
        let Some(l) = l else {
            return Err(std::io::Error::new(std::io::ErrorKind::ConnectionRefused, "no listener"));
        };
        let port = RT.with(|rt| {
            let mut rt = rt.borrow_mut();
            rt.next_port = rt.next_port.wrapping_add(1);
            40000u16.wrapping_add(rt.next_port)
        });
        let c2s = Arc::new(Mutex::new(Pipe::default()));
        let s2c = Arc::new(Mutex::new(Pipe::default()));
        let server = net::TcpStream { rx: c2s.clone(), tx: s2c.clone() };
        let w = {
            let mut li = l.lock().unwrap();
            li.pending.push_back((server, std::net::SocketAddr::from(([127, 0, 0, 1], port))));
            li.waker.take()
        };
        if let Some(w) = w {
            w.wake();
        }
        Ok(ClientEnd { to_server: c2s, from_server: s2c })
    }
}

// ------------------------------------------------------------------------------------------------
// in-memory byte pipes

#[derive(Default)]
pub struct Pipe {
    buf: VecDeque<u8>,
    closed: bool,
    waker: Option<Waker>,
}

struct ListenerInner {
    pending: VecDeque<(net::TcpStream, std::net::SocketAddr)>,
    waker: Option<Waker>,
}

pub mod net {
    use super::*;

    pub struct TcpListener {
        addr: String,
        inner: Arc<Mutex<ListenerInner>>,
    }

    impl TcpListener {
        pub async fn bind<A: AsRef<str>>(addr: A) -> std::io::Result<TcpListener> {
            let addr = addr.as_ref().to_string();
            RT.with(|rt| {
                let mut rt = rt.borrow_mut();
                if rt.listeners.contains_key(&addr) {
                    return Err(std::io::Error::new(std::io::ErrorKind::AddrInUse, "address in use"));
                }
                let inner = Arc::new(Mutex::new(ListenerInner { pending: VecDeque::new(), waker: None }));
                rt.listeners.insert(addr.clone(), inner.clone());
                Ok(TcpListener { addr, inner })
            })
        }

        pub fn accept(&self) -> Accept<'_> {
            Accept { l: self }
        }
    }

    impl Drop for TcpListener {
        fn drop(&mut self) {
            let _ = RT.try_with(|rt| {
                if let Ok(mut rt) = rt.try_borrow_mut() {
                    rt.listeners.remove(&self.addr);
                }
            });
        }
    }

    pub struct Accept<'a> {
        l: &'a TcpListener,
    }

    impl<'a> Future for Accept<'a> {
        type Output = std::io::Result<(TcpStream, std::net::SocketAddr)>;
        fn poll(self: Pin<&mut Self>, cx: &mut Context<'_>) -> Poll<Self::Output> {
            let mut li = self.l.inner.lock().unwrap();
            match li.pending.pop_front() {
                Some(x) => Poll::Ready(Ok(x)),
                None => {
                    li.waker = Some(cx.waker().clone());
                    Poll::Pending
                }
            }
        }
    }

    pub struct TcpStream {
        pub(crate) rx: Arc<Mutex<Pipe>>,
        pub(crate) tx: Arc<Mutex<Pipe>>,
    }

    impl Drop for TcpStream {
        fn drop(&mut self) {
            let w = {
                let mut p = self.tx.lock().unwrap();
                p.closed = true;
                p.waker.take()
            };
            if let Some(w) = w {
                w.wake();
            }
        }
    }
}

pub mod io {
    use super::*;
    use crate::net::TcpStream;

    pub struct ReadExact<'a> {
        s: &'a mut TcpStream,
        buf: &'a mut [u8],
        filled: usize,
    }

    impl<'a> Future for ReadExact<'a> {
        type Output = std::io::Result<usize>;
        fn poll(self: Pin<&mut Self>, cx: &mut Context<'_>) -> Poll<Self::Output> {
            let me = self.get_mut();
            let mut p = me.s.rx.lock().unwrap();
            while me.filled < me.buf.len() {
                match p.buf.pop_front() {
                    Some(b) => {
                        me.buf[me.filled] = b;
                        me.filled += 1;
                    }
                    None => break,
                }
            }
            if me.filled == me.buf.len() {
                return Poll::Ready(Ok(me.filled));
            }
            if p.closed {
                return Poll::Ready(Err(std::io::Error::new(std::io::ErrorKind::UnexpectedEof, "early eof")));
            }
            p.waker = Some(cx.waker().clone());
            Poll::Pending
        }
    }

    /// `read`: whatever is available, at most `buf.len()` bytes; 0 at end of stream.
    pub struct ReadSome<'a> {
        s: &'a mut TcpStream,
        buf: &'a mut [u8],
    }

    impl<'a> Future for ReadSome<'a> {
        type Output = std::io::Result<usize>;
        fn poll(self: Pin<&mut Self>, cx: &mut Context<'_>) -> Poll<Self::Output> {
            let me = self.get_mut();
            let mut p = me.s.rx.lock().unwrap();
            let mut n = 0;
            while n < me.buf.len() {
                match p.buf.pop_front() {
                    Some(b) => {
                        me.buf[n] = b;
                        n += 1;
                    }
                    None => break,
                }
            }
            if n > 0 || me.buf.is_empty() || p.closed {
                return Poll::Ready(Ok(n));
            }
            p.waker = Some(cx.waker().clone());
            Poll::Pending
        }
    }

    /// Fixed-width integer reads (`read_u8`, `read_u32`, `read_u32_le`, ...): read_exact into a small buffer.
    pub struct ReadInt<'a, const N: usize> {
        s: &'a mut TcpStream,
        buf: [u8; N],
        filled: usize,
    }

    impl<'a, const N: usize> ReadInt<'a, N> {
        fn poll_fill(&mut self, cx: &mut Context<'_>) -> Poll<std::io::Result<[u8; N]>> {
            let mut p = self.s.rx.lock().unwrap();
            while self.filled < N {
                match p.buf.pop_front() {
                    Some(b) => {
                        self.buf[self.filled] = b;
                        self.filled += 1;
                    }
                    None => break,
                }
            }
            if self.filled == N {
                return Poll::Ready(Ok(self.buf));
            }
            if p.closed {
                return Poll::Ready(Err(std::io::Error::new(std::io::ErrorKind::UnexpectedEof, "early eof")));
            }
            p.waker = Some(cx.waker().clone());
            Poll::Pending
        }
    }

    pub struct MapInt<'a, const N: usize, T> {
        inner: ReadInt<'a, N>,
        f: fn([u8; N]) -> T,
    }

    impl<'a, const N: usize, T> Future for MapInt<'a, N, T> {
        type Output = std::io::Result<T>;
        fn poll(self: Pin<&mut Self>, cx: &mut Context<'_>) -> Poll<Self::Output> {
            let me = self.get_mut();
            match me.inner.poll_fill(cx) {
                Poll::Ready(Ok(b)) => Poll::Ready(Ok((me.f)(b))),
                Poll::Ready(Err(e)) => Poll::Ready(Err(e)),
                Poll::Pending => Poll::Pending,
            }
        }
    }

    pub struct ReadToEnd<'a> {
        s: &'a mut TcpStream,
        out: &'a mut Vec<u8>,
        n: usize,
    }

    impl<'a> Future for ReadToEnd<'a> {
        type Output = std::io::Result<usize>;
        fn poll(self: Pin<&mut Self>, cx: &mut Context<'_>) -> Poll<Self::Output> {
            let me = self.get_mut();
            let mut p = me.s.rx.lock().unwrap();
            while let Some(b) = p.buf.pop_front() {
                me.out.push(b);
                me.n += 1;
            }
            if p.closed {
                return Poll::Ready(Ok(me.n));
            }
            p.waker = Some(cx.waker().clone());
            Poll::Pending
        }
    }

    pub trait AsyncReadExt {
        fn read_exact<'a>(&'a mut self, buf: &'a mut [u8]) -> ReadExact<'a>;
        fn read<'a>(&'a mut self, buf: &'a mut [u8]) -> ReadSome<'a>;
        fn read_to_end<'a>(&'a mut self, out: &'a mut Vec<u8>) -> ReadToEnd<'a>;
        fn read_u8<'a>(&'a mut self) -> MapInt<'a, 1, u8>;
        fn read_u16<'a>(&'a mut self) -> MapInt<'a, 2, u16>;
        fn read_u16_le<'a>(&'a mut self) -> MapInt<'a, 2, u16>;
        fn read_u32<'a>(&'a mut self) -> MapInt<'a, 4, u32>;
        fn read_u32_le<'a>(&'a mut self) -> MapInt<'a, 4, u32>;
        fn read_u64<'a>(&'a mut self) -> MapInt<'a, 8, u64>;
        fn read_u64_le<'a>(&'a mut self) -> MapInt<'a, 8, u64>;
    }

    impl AsyncReadExt for TcpStream {
        fn read_exact<'a>(&'a mut self, buf: &'a mut [u8]) -> ReadExact<'a> {
            ReadExact { s: self, buf, filled: 0 }
        }
        fn read<'a>(&'a mut self, buf: &'a mut [u8]) -> ReadSome<'a> {
            ReadSome { s: self, buf }
        }
        fn read_to_end<'a>(&'a mut self, out: &'a mut Vec<u8>) -> ReadToEnd<'a> {
            ReadToEnd { s: self, out, n: 0 }
        }
        fn read_u8<'a>(&'a mut self) -> MapInt<'a, 1, u8> {
            MapInt { inner: ReadInt { s: self, buf: [0; 1], filled: 0 }, f: |b| b[0] }
        }
        fn read_u16<'a>(&'a mut self) -> MapInt<'a, 2, u16> {
            MapInt { inner: ReadInt { s: self, buf: [0; 2], filled: 0 }, f: u16::from_be_bytes }
        }
        fn read_u16_le<'a>(&'a mut self) -> MapInt<'a, 2, u16> {
            MapInt { inner: ReadInt { s: self, buf: [0; 2], filled: 0 }, f: u16::from_le_bytes }
        }
        fn read_u32<'a>(&'a mut self) -> MapInt<'a, 4, u32> {
            MapInt { inner: ReadInt { s: self, buf: [0; 4], filled: 0 }, f: u32::from_be_bytes }
        }
        fn read_u32_le<'a>(&'a mut self) -> MapInt<'a, 4, u32> {
            MapInt { inner: ReadInt { s: self, buf: [0; 4], filled: 0 }, f: u32::from_le_bytes }
        }
        fn read_u64<'a>(&'a mut self) -> MapInt<'a, 8, u64> {
            MapInt { inner: ReadInt { s: self, buf: [0; 8], filled: 0 }, f: u64::from_be_bytes }
        }
        fn read_u64_le<'a>(&'a mut self) -> MapInt<'a, 8, u64> {
            MapInt { inner: ReadInt { s: self, buf: [0; 8], filled: 0 }, f: u64::from_le_bytes }
        }
    }

    pub struct WriteAll<'a> {
        s: &'a mut TcpStream,
        src: &'a [u8],
    }

    impl<'a> Future for WriteAll<'a> {
        type Output = std::io::Result<()>;
        fn poll(self: Pin<&mut Self>, _cx: &mut Context<'_>) -> Poll<Self::Output> {
            let me = self.get_mut();
            let mut p = me.s.tx.lock().unwrap();
            p.buf.extend(me.src.iter().copied());
            Poll::Ready(Ok(()))
        }
    }

    /// `write`: the in-memory pipe takes everything at once.
    pub struct WriteSome<'a> {
        s: &'a mut TcpStream,
        src: &'a [u8],
    }

    impl<'a> Future for WriteSome<'a> {
        type Output = std::io::Result<usize>;
        fn poll(self: Pin<&mut Self>, _cx: &mut Context<'_>) -> Poll<Self::Output> {
            let me = self.get_mut();
            let mut p = me.s.tx.lock().unwrap();
            p.buf.extend(me.src.iter().copied());
            Poll::Ready(Ok(me.src.len()))
        }
    }

    pub struct WriteOwned<'a> {
        s: &'a mut TcpStream,
        src: Vec<u8>,
    }

    impl<'a> Future for WriteOwned<'a> {
        type Output = std::io::Result<()>;
        fn poll(self: Pin<&mut Self>, _cx: &mut Context<'_>) -> Poll<Self::Output> {
            let me = self.get_mut();
            let mut p = me.s.tx.lock().unwrap();
            p.buf.extend(me.src.iter().copied());
            Poll::Ready(Ok(()))
        }
    }

    pub struct Done;

    impl Future for Done {
        type Output = std::io::Result<()>;
        fn poll(self: Pin<&mut Self>, _cx: &mut Context<'_>) -> Poll<Self::Output> {
            Poll::Ready(Ok(()))
        }
    }

    pub struct Shutdown<'a> {
        s: &'a mut TcpStream,
    }

    impl<'a> Future for Shutdown<'a> {
        type Output = std::io::Result<()>;
        fn poll(self: Pin<&mut Self>, _cx: &mut Context<'_>) -> Poll<Self::Output> {
            let w = {
                let mut p = self.s.tx.lock().unwrap();
                p.closed = true;
                p.waker.take()
            };
            if let Some(w) = w {
                w.wake();
            }
            Poll::Ready(Ok(()))
        }
    }

    pub trait AsyncWriteExt {
        fn write_all<'a>(&'a mut self, src: &'a [u8]) -> WriteAll<'a>;
        fn write<'a>(&'a mut self, src: &'a [u8]) -> WriteSome<'a>;
        fn write_u8<'a>(&'a mut self, v: u8) -> WriteOwned<'a>;
        fn write_u32<'a>(&'a mut self, v: u32) -> WriteOwned<'a>;
        fn write_u32_le<'a>(&'a mut self, v: u32) -> WriteOwned<'a>;
        fn write_u64<'a>(&'a mut self, v: u64) -> WriteOwned<'a>;
        fn write_u64_le<'a>(&'a mut self, v: u64) -> WriteOwned<'a>;
        fn flush(&mut self) -> Done;
        fn shutdown<'a>(&'a mut self) -> Shutdown<'a>;
    }

    impl AsyncWriteExt for TcpStream {
        fn write_all<'a>(&'a mut self, src: &'a [u8]) -> WriteAll<'a> {
            WriteAll { s: self, src }
        }
        fn write<'a>(&'a mut self, src: &'a [u8]) -> WriteSome<'a> {
            WriteSome { s: self, src }
        }
        fn write_u8<'a>(&'a mut self, v: u8) -> WriteOwned<'a> {
            WriteOwned { s: self, src: vec![v] }
        }
        fn write_u32<'a>(&'a mut self, v: u32) -> WriteOwned<'a> {
            WriteOwned { s: self, src: v.to_be_bytes().to_vec() }
        }
        fn write_u32_le<'a>(&'a mut self, v: u32) -> WriteOwned<'a> {
            WriteOwned { s: self, src: v.to_le_bytes().to_vec() }
        }
        fn write_u64<'a>(&'a mut self, v: u64) -> WriteOwned<'a> {
            WriteOwned { s: self, src: v.to_be_bytes().to_vec() }
        }
        fn write_u64_le<'a>(&'a mut self, v: u64) -> WriteOwned<'a> {
            WriteOwned { s: self, src: v.to_le_bytes().to_vec() }
        }
        fn flush(&mut self) -> Done {
            Done
        }
        fn shutdown<'a>(&'a mut self) -> Shutdown<'a> {
            Shutdown { s: self }
        }
    }
}
