//! Verification shim for `octopii`: the trait below is copied verbatim from
//! /repo/octopii/src/state_machine.rs (lines 6-14). Nothing else of octopii is named by the
//! distributed-walrus files compiled into `dwpure`.
use bytes::Bytes;
use std::sync::Arc;

/// Trait for application state machines.
pub trait StateMachineTrait: Send + Sync {
    fn apply(&self, command: &[u8]) -> std::result::Result<Bytes, String>;
    fn snapshot(&self) -> Vec<u8>;
    fn restore(&self, data: &[u8]) -> std::result::Result<(), String>;
    fn compact(&self) -> std::result::Result<(), String> {
        Ok(())
    }
}

/// Shared state machine handle type.
pub type StateMachine = Arc<dyn StateMachineTrait>;
