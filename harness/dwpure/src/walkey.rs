//! C25: the real `wal_key` / `parse_wal_key` (controller/types.rs) and the real use site
//! `forward_append` (controller/internal.rs), evaluated on (topic, segment) pairs.
//!
//! case: {"id": s, "topic": s, "seg": u64, "key": s?}   ("key" = the value the spec WalKey computed)
//! result: {"id", "ok", "key", "parsed": [topic, seg]|null, "rollover": [topic, seg]|null, "why": [..]}
//! final line: {"summary": true, "n", "distinct_pairs", "distinct_keys", "collisions": [[id, id, key]..]}
use crate::controller::{parse_wal_key, wal_key, NodeController};
use crate::util::{block_on_ready, guarded};
use serde_json::{json, Value};
use std::collections::HashMap;

#[derive(Default)]
pub struct State {
    n: u64,
    pairs: HashMap<(String, u64), String>,
    /// real key -> (id, pair) of the first case that produced it
    keys: HashMap<String, (String, (String, u64))>,
    collisions: Vec<Value>,
    panics: u64,
}

pub fn run_case(st: &mut State, case: &Value) -> Value {
    let id = case["id"].as_str().unwrap_or("?").to_string();
    let topic = case["topic"].as_str().unwrap_or("").to_string();
    let seg = case["seg"].as_u64().unwrap_or(0);
    let mut why: Vec<String> = Vec::new();
    st.n += 1;

    let key = match guarded(|| wal_key(&topic, seg)) {
        Ok(k) => k,
        Err(p) => {
            st.panics += 1;
            return json!({"id": id, "ok": false, "why": ["panic in wal_key: ".to_string() + &p], "kind": "panic"});
        }
    };
    if let Some(spec_key) = case.get("key").and_then(|k| k.as_str()) {
        if spec_key != key {
            why.push(format!("wal_key differs from the spec: real {:?} spec {:?}", key, spec_key));
        }
    }
    let parsed = match guarded(|| parse_wal_key(&key)) {
        Ok(p) => p,
        Err(p) => {
            st.panics += 1;
            return json!({"id": id, "ok": false, "key": key, "why": ["panic in parse_wal_key: ".to_string() + &p], "kind": "panic"});
        }
    };
    match &parsed {
        Some((t, s)) if *t == topic && *s == seg => {}
        other => why.push(format!("round trip: parse_wal_key(wal_key({:?}, {})) = {:?}", topic, seg, other)),
    }
    // the spec's Parse applied to the spec's key must agree with the real parse of that key too
    if let Some(sp) = case.get("parsed") {
        let exp = if sp.is_null() { None } else { Some((sp[0].as_str().unwrap_or("").to_string(), sp[1].as_u64().unwrap_or(0))) };
        if exp != parsed {
            why.push(format!("parse_wal_key differs from the spec: real {:?} spec {:?}", parsed, exp));
        }
    }
    // use site: the (topic, segment) the rollover check receives after an append to this key
    let ctrl = NodeController::new_double();
    let k2 = key.clone();
    let roll = guarded(|| block_on_ready(ctrl.forward_append(k2, b"x".to_vec())));
    let rollover = match roll {
        Ok(Some(_)) => ctrl.st.lock().unwrap().rollover_calls.last().cloned(),
        Ok(None) => {
            why.push("forward_append did not complete".into());
            None
        }
        Err(p) => {
            st.panics += 1;
            why.push(format!("panic in forward_append: {}", p));
            None
        }
    };
    match &rollover {
        Some((t, s)) if *t == topic && *s == seg => {}
        other => why.push(format!("use site: maybe_rollover received {:?} for an append to {:?}", other, key)),
    }
    // distinctness over everything seen in this run
    let pair = (topic.clone(), seg);
    if !st.pairs.contains_key(&pair) {
        st.pairs.insert(pair.clone(), id.clone());
        if let Some((oid, opair)) = st.keys.get(&key) {
            if *opair != pair {
                why.push(format!("collision: {:?} and {:?} both map to {:?}", opair, pair, key));
                st.collisions.push(json!([oid, id, key]));
            }
        } else {
            st.keys.insert(key.clone(), (id.clone(), pair));
        }
    }
    let kind = if why.is_empty() { "ok" } else if why.iter().any(|w| w.starts_with("collision")) { "collision" } else if why.iter().any(|w| w.contains("differs from the spec")) && why.len() == 1 { "spec_mismatch" } else { "round_trip" };
    json!({
        "id": id, "ok": why.is_empty(), "key": key, "kind": kind,
        "parsed": parsed.map(|(t, s)| json!([t, s])),
        "rollover": rollover.map(|(t, s)| json!([t, s])),
        "why": why,
    })
}

pub fn summary(st: &State) -> Value {
    json!({"summary": true, "n": st.n, "distinct_pairs": st.pairs.len(), "distinct_keys": st.keys.len(),
           "collisions": st.collisions, "panics": st.panics})
}
