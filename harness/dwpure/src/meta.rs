//! C18 / C20 (state-machine half): the real `Metadata` (metadata.rs) driven through its
//! `StateMachineTrait` implementation with commands serialised by the bincode shim exactly as
//! the real callers do (`bincode::serialize(&MetadataCmd)`).
//!
//! case kinds
//!   {"id", "kind": "spec", "path": [[k,t,n,c,a,r]..], "state": ENC, "succ": [[k,t,n,c,a,r,PATCH]..]}
//!       path  = commands with the value the spec says `apply` returns; state = the spec's state
//!       after the path; succ = for every command of the bounded alphabet the value and the one
//!       component it changes (see MC_Metadata.tla). The path is replayed on a fresh Metadata,
//!       the full state compared; then each succ command is applied to a replica.
//!   {"id", "kind": "seq", "path": [[k,t,n,c,a]..], "trace": bool}
//!       long/random sequence; no expected values: the property's invariants are evaluated on
//!       the real state after every command; with "trace" the observed (value, state) per step
//!       is written out for TLC trace validation.
//!   {"id", "kind": "bytes", "path": [...prefix commands...], "bytes": [hex..]}
//!       arbitrary byte strings as commands after a prefix.
//! ENC   = {"T": [[name, cur, leader, last, [[seg,count]..], [[seg,leader]..]]..], "N": [[id, addr]..]}
//! with --snap (C20) every prefix is additionally snapshotted, restored into a fresh Metadata,
//! compared, and the remaining commands are applied to both.
//!
//! result: {"id", "ok", "viol": [{"kind", "step", ...}], "snap_viol": [...], "n_apply", "n_compare",
//!          "n_snap", "trace": [...]?}
//! kinds: panic | result_mismatch | state_mismatch | invariant | sealed_changed | observers_disagree |
//!        undecodable_changed_state | rejected_changed_state | snapshot_mismatch | restore_failed | diverged_after_restore
use crate::metadata::{ClusterState, Metadata, MetadataCmd};
use crate::util::{guarded, hex, unhex};
use octopii::StateMachineTrait;
use serde_json::{json, Value};
use std::collections::{BTreeMap, BTreeSet};

#[derive(Clone, PartialEq, Eq, Debug, Default)]
pub struct TopicObs {
    cur: u64,
    leader: u64,
    last: u64,
    sealed: BTreeMap<u64, u64>,
    segl: BTreeMap<u64, u64>,
}

#[derive(Clone, PartialEq, Eq, Debug, Default)]
pub struct Obs {
    topics: BTreeMap<String, TopicObs>,
    nodes: BTreeMap<u64, String>,
}

impl Obs {
    fn to_json(&self) -> Value {
        json!({
            "T": self.topics.iter().map(|(t, s)| json!([t, s.cur, s.leader, s.last,
                    s.sealed.iter().map(|(k, v)| json!([k, v])).collect::<Vec<_>>(),
                    s.segl.iter().map(|(k, v)| json!([k, v])).collect::<Vec<_>>()])).collect::<Vec<_>>(),
            "N": self.nodes.iter().map(|(k, v)| json!([k, v])).collect::<Vec<_>>(),
        })
    }
}

fn topic_from_json(v: &Value) -> Option<(String, TopicObs)> {
    let a = v.as_array()?;
    let mut t = TopicObs { cur: a.get(1)?.as_u64()?, leader: a.get(2)?.as_u64()?, last: a.get(3)?.as_u64()?, ..Default::default() };
    for p in a.get(4)?.as_array()? {
        t.sealed.insert(p[0].as_u64()?, p[1].as_u64()?);
    }
    for p in a.get(5)?.as_array()? {
        t.segl.insert(p[0].as_u64()?, p[1].as_u64()?);
    }
    Some((a.first()?.as_str()?.to_string(), t))
}

fn obs_from_json(v: &Value) -> Option<Obs> {
    let mut o = Obs::default();
    for t in v.get("T")?.as_array()? {
        let (name, ts) = topic_from_json(t)?;
        o.topics.insert(name, ts);
    }
    for n in v.get("N")?.as_array()? {
        o.nodes.insert(n[0].as_u64()?, n[1].as_str()?.to_string());
    }
    Some(o)
}

#[derive(Clone, Debug)]
pub struct Cmd {
    k: String,
    t: String,
    n: u64,
    c: u64,
    a: String,
    r: Option<String>,
    patch: Option<Value>,
}

fn cmd_from_json(v: &Value) -> Option<Cmd> {
    let a = v.as_array()?;
    Some(Cmd {
        k: a.first()?.as_str()?.to_string(),
        t: a.get(1)?.as_str()?.to_string(),
        n: a.get(2)?.as_u64()?,
        c: a.get(3)?.as_u64()?,
        a: a.get(4)?.as_str()?.to_string(),
        r: a.get(5).and_then(|x| x.as_str()).map(|s| s.to_string()),
        patch: a.get(6).cloned(),
    })
}

fn cmd_to_json(c: &Cmd) -> Value {
    json!([c.k, c.t, c.n, c.c, c.a])
}

/// Byte strings that are not a MetadataCmd under the bincode-1.3 layout.
fn undecodable_variants() -> Vec<Vec<u8>> {
    let valid = bincode::serialize(&MetadataCmd::CreateTopic { name: "zz".into(), initial_leader: 7 }).unwrap();
    let mut bad_utf8 = vec![0u8, 0, 0, 0, 2, 0, 0, 0, 0, 0, 0, 0, 0xff, 0xfe];
    bad_utf8.extend_from_slice(&7u64.to_le_bytes());
    let mut huge_len = vec![1u8, 0, 0, 0];
    huge_len.extend_from_slice(&u64::MAX.to_le_bytes());
    huge_len.extend_from_slice(b"abc");
    vec![
        vec![],
        vec![0xff, 0xff, 0xff, 0xff],
        vec![3, 0, 0, 0, 0, 0, 0, 0, 0, 0, 0, 0],
        valid[..valid.len() - 1].to_vec(),
        vec![0, 0, 0, 0],
        bad_utf8,
        huge_len,
        vec![2, 0, 0],
    ]
}

fn encode(c: &Cmd) -> Vec<Vec<u8>> {
    match c.k.as_str() {
        "C" => vec![bincode::serialize(&MetadataCmd::CreateTopic { name: c.t.clone(), initial_leader: c.n }).unwrap()],
        "R" => vec![bincode::serialize(&MetadataCmd::RolloverTopic { name: c.t.clone(), new_leader: c.n, sealed_segment_entry_count: c.c }).unwrap()],
        "U" => vec![bincode::serialize(&MetadataCmd::UpsertNode { node_id: c.n, addr: c.a.clone() }).unwrap()],
        _ => undecodable_variants(),
    }
}

fn classify(res: &Result<bytes::Bytes, String>) -> String {
    match res {
        Ok(b) => match &b[..] {
            b"CREATED" => "CREATED".into(),
            b"EXISTS" => "EXISTS".into(),
            b"ROLLED" => "ROLLED".into(),
            b"NODE" => "NODE".into(),
            other => format!("OK:{}", String::from_utf8_lossy(other)),
        },
        Err(e) if e == "Topic not found" => "ERR_NOTOPIC".into(),
        Err(e) if e.starts_with("decode cmd") => "ERR_DECODE".into(),
        Err(e) if e == "sealed entry offset overflow" => "ERR_OVERFLOW".into(),
        Err(e) => format!("ERR:{}", e),
    }
}

/// Full state as decoded from the machine's own snapshot (the only complete observer), checked
/// against the accessor API (`get_topic_state`, `all_node_addrs`, `sealed_count`,
/// `segment_leader`, `get_node_addr`, `owned_topics`).
fn observe(m: &Metadata, universe: &BTreeSet<String>) -> Result<Obs, String> {
    let snap = m.snapshot();
    let cs: ClusterState = bincode::deserialize(&snap).map_err(|e| format!("own snapshot does not decode: {}", e))?;
    let mut o = Obs::default();
    for (t, s) in cs.topics.iter() {
        o.topics.insert(t.clone(), TopicObs {
            cur: s.current_segment, leader: s.leader_node, last: s.last_sealed_entry_offset,
            sealed: s.sealed_segments.iter().map(|(k, v)| (*k, *v)).collect(),
            segl: s.segment_leaders.iter().map(|(k, v)| (*k, *v)).collect(),
        });
    }
    for (n, a) in cs.nodes.iter() {
        o.nodes.insert(*n, a.clone());
    }
    // accessor API must tell the same story
    let mut names: BTreeSet<String> = universe.clone();
    names.extend(o.topics.keys().cloned());
    for t in names.iter() {
        let api = m.get_topic_state(t).map(|s| TopicObs {
            cur: s.current_segment, leader: s.leader_node, last: s.last_sealed_entry_offset,
            sealed: s.sealed_segments.iter().map(|(k, v)| (*k, *v)).collect(),
            segl: s.segment_leaders.iter().map(|(k, v)| (*k, *v)).collect(),
        });
        if api.as_ref() != o.topics.get(t) {
            return Err(format!("get_topic_state({:?}) = {:?} but snapshot has {:?}", t, api, o.topics.get(t)));
        }
        if let Some(ts) = o.topics.get(t) {
            for (g, c) in ts.sealed.iter() {
                if m.sealed_count(t, *g) != Some(*c) {
                    return Err(format!("sealed_count({:?},{}) = {:?}, snapshot {}", t, g, m.sealed_count(t, *g), c));
                }
            }
            for (g, l) in ts.segl.iter() {
                if m.segment_leader(t, *g) != Some(*l) {
                    return Err(format!("segment_leader({:?},{}) = {:?}, snapshot {}", t, g, m.segment_leader(t, *g), l));
                }
            }
        }
    }
    let api_nodes: BTreeMap<u64, String> = m.all_node_addrs().into_iter().collect();
    if api_nodes != o.nodes {
        return Err(format!("all_node_addrs = {:?} but snapshot has {:?}", api_nodes, o.nodes));
    }
    for (n, a) in o.nodes.iter() {
        if m.get_node_addr(*n).as_ref() != Some(a) {
            return Err(format!("get_node_addr({}) = {:?}, snapshot {:?}", n, m.get_node_addr(*n), a));
        }
    }
    Ok(o)
}

/// The invariants of C18, evaluated directly on an observed state.
fn invariants(o: &Obs) -> Vec<String> {
    let mut bad = Vec::new();
    for (t, s) in o.topics.iter() {
        if s.cur < 1 {
            bad.push(format!("{}: current segment {} < 1", t, s.cur));
            continue;
        }
        let want: Vec<u64> = (1..=s.cur.min(1_000_000)).collect();
        let have: Vec<u64> = s.segl.keys().copied().collect();
        if have != want {
            bad.push(format!("{}: segment leaders recorded for {:?}, segments are 1..={}", t, abbreviate(&have), s.cur));
        }
        if s.segl.get(&s.cur) != Some(&s.leader) {
            bad.push(format!("{}: leader of open segment {} is {:?}, topic leader is {}", t, s.cur, s.segl.get(&s.cur), s.leader));
        }
        let wants: Vec<u64> = (1..s.cur.min(1_000_000)).collect();
        let haves: Vec<u64> = s.sealed.keys().copied().collect();
        if haves != wants {
            bad.push(format!("{}: sealed segments {:?}, expected 1..{}", t, abbreviate(&haves), s.cur));
        }
        let sum: u128 = s.sealed.values().map(|v| *v as u128).sum();
        if sum != s.last as u128 {
            bad.push(format!("{}: cumulative sealed offset {} != sum of sealed counts {}", t, s.last, sum));
        }
    }
    bad
}

fn abbreviate(v: &[u64]) -> Vec<u64> {
    if v.len() <= 12 { v.to_vec() } else { let mut x = v[..6].to_vec(); x.extend_from_slice(&v[v.len() - 6..]); x }
}

/// Sealed counts and leaders of `old` are still there, unchanged, in `new`.
fn sealed_stable(old: &Obs, new: &Obs) -> Vec<String> {
    let mut bad = Vec::new();
    for (t, s) in old.topics.iter() {
        let Some(n) = new.topics.get(t) else {
            bad.push(format!("{}: topic disappeared", t));
            continue;
        };
        for (g, c) in s.sealed.iter() {
            if n.sealed.get(g) != Some(c) {
                bad.push(format!("{}: sealed count of segment {} changed from {} to {:?}", t, g, c, n.sealed.get(g)));
            }
            if n.segl.get(g) != s.segl.get(g) {
                bad.push(format!("{}: leader of sealed segment {} changed from {:?} to {:?}", t, g, s.segl.get(g), n.segl.get(g)));
            }
        }
    }
    bad
}

struct Run {
    /// binding self-test only: flip one bit of every snapshot before restoring it
    corrupt_snapshot: bool,
    viol: Vec<Value>,
    snap_viol: Vec<Value>,
    n_apply: u64,
    n_compare: u64,
    n_snap: u64,
    universe: BTreeSet<String>,
}

impl Run {
    fn v(&mut self, kind: &str, step: i64, detail: Value) {
        if self.viol.len() < 8 {
            self.viol.push(json!({"kind": kind, "step": step, "detail": detail}));
        }
    }
    fn sv(&mut self, kind: &str, step: i64, detail: Value) {
        if self.snap_viol.len() < 8 {
            self.snap_viol.push(json!({"kind": kind, "step": step, "detail": detail}));
        }
    }

    /// Applies one command (all byte variants of an undecodable one). Returns the class of the
    /// returned value, or None after a panic.
    fn apply(&mut self, m: &Metadata, c: &Cmd, step: i64, check: bool) -> Option<String> {
        let mut last = None;
        for (vi, bytes) in encode(c).iter().enumerate() {
            let before = if check && c.k == "X" { observe(m, &self.universe).ok() } else { None };
            self.n_apply += 1;
            match guarded(|| m.apply(bytes)) {
                Ok(res) => {
                    let cls = classify(&res);
                    if check && c.k == "X" {
                        if cls != "ERR_DECODE" {
                            self.v("result_mismatch", step, json!({"cmd": cmd_to_json(c), "variant": vi, "bytes": hex(bytes), "real": cls, "expected": "ERR_DECODE"}));
                        }
                        if let (Some(b), Ok(a)) = (before, observe(m, &self.universe)) {
                            if a != b {
                                self.v("undecodable_changed_state", step, json!({"bytes": hex(bytes), "before": b.to_json(), "after": a.to_json()}));
                            }
                        }
                    }
                    last = Some(cls);
                }
                Err(p) => {
                    if check {
                        self.v("panic", step, json!({"cmd": cmd_to_json(c), "bytes": hex(bytes), "panic": p}));
                    }
                    return None;
                }
            }
        }
        last
    }

    fn replay(&mut self, path: &[Cmd]) -> Option<Metadata> {
        let m = Metadata::new();
        for c in path {
            self.apply(&m, c, -1, false)?;
        }
        Some(m)
    }

    fn observe_or_report(&mut self, m: &Metadata, step: i64) -> Option<Obs> {
        match guarded(|| observe(m, &self.universe)) {
            Ok(Ok(o)) => Some(o),
            Ok(Err(e)) => {
                self.v("observers_disagree", step, json!(e));
                None
            }
            Err(p) => {
                self.v("panic", step, json!({"in": "observer", "panic": p}));
                None
            }
        }
    }

    /// invariants on `now`, immutability against `prev`
    fn check_property(&mut self, prev: Option<&Obs>, now: &Obs, step: i64, cmd: &Value) {
        self.n_compare += 1;
        let bad = invariants(now);
        if !bad.is_empty() {
            self.v("invariant", step, json!({"cmd": cmd, "broken": bad, "state": now.to_json()}));
        }
        if let Some(p) = prev {
            let bad = sealed_stable(p, now);
            if !bad.is_empty() {
                self.v("sealed_changed", step, json!({"cmd": cmd, "broken": bad, "before": p.to_json(), "after": now.to_json()}));
            }
        }
    }

    /// C20: snapshot `m`, restore into a fresh machine, compare; returns the restored machine.
    fn snapshot_restore(&mut self, m: &Metadata, step: i64) -> Option<Metadata> {
        self.n_snap += 1;
        let orig = match guarded(|| observe(m, &self.universe)) {
            Ok(Ok(o)) => o,
            other => {
                self.sv("observers_disagree", step, json!(format!("{:?}", other.err())));
                return None;
            }
        };
        let snap = match guarded(|| m.snapshot()) {
            Ok(mut s) => {
                if self.corrupt_snapshot {
                    if let Some(b) = s.last_mut() {
                        *b ^= 1;
                    }
                }
                s
            }
            Err(p) => {
                self.sv("panic", step, json!({"in": "snapshot", "panic": p}));
                return None;
            }
        };
        let r = Metadata::new();
        match guarded(|| r.restore(&snap)) {
            Ok(Ok(())) => {}
            Ok(Err(e)) => {
                self.sv("restore_failed", step, json!({"error": e, "snapshot": hex(&snap)}));
                return None;
            }
            Err(p) => {
                self.sv("panic", step, json!({"in": "restore", "panic": p, "snapshot": hex(&snap)}));
                return None;
            }
        }
        match guarded(|| observe(&r, &self.universe)) {
            Ok(Ok(o)) => {
                if o != orig {
                    self.sv("snapshot_mismatch", step, json!({"original": orig.to_json(), "restored": o.to_json()}));
                    return None;
                }
            }
            other => {
                self.sv("observers_disagree", step, json!({"on": "restored", "error": format!("{:?}", other)}));
                return None;
            }
        }
        // the original is untouched by taking a snapshot
        match guarded(|| observe(m, &self.universe)) {
            Ok(Ok(o)) if o == orig => {}
            _ => self.sv("snapshot_mismatch", step, json!("taking a snapshot changed the original")),
        }
        Some(r)
    }

    /// applies `rest` to both machines and compares after every command
    fn lockstep(&mut self, a: &Metadata, b: &Metadata, rest: &[Cmd], from: i64) {
        for (i, c) in rest.iter().enumerate() {
            let ra = self.apply(a, c, -1, false);
            let rb = self.apply(b, c, -1, false);
            let oa = guarded(|| observe(a, &self.universe));
            let ob = guarded(|| observe(b, &self.universe));
            let same = match (&oa, &ob) {
                (Ok(Ok(x)), Ok(Ok(y))) => x == y,
                _ => false,
            };
            if ra != rb || !same {
                self.sv("diverged_after_restore", from, json!({"after_commands": i + 1, "cmd": cmd_to_json(c), "value_original": ra, "value_restored": rb,
                    "original": oa.ok().and_then(|x| x.ok()).map(|o| o.to_json()), "restored": ob.ok().and_then(|x| x.ok()).map(|o| o.to_json())}));
                return;
            }
        }
    }
}

/// a command that was refused (error or EXISTS) must leave the state as it was
fn rejected(cls: &str) -> bool {
    cls.starts_with("ERR") || cls == "EXISTS"
}

fn apply_patch(base: &Obs, c: &Cmd) -> Option<Obs> {
    let mut o = base.clone();
    let p = c.patch.as_ref()?.as_array()?;
    match c.k.as_str() {
        "C" | "R" => {
            if p.is_empty() {
                o.topics.remove(&c.t);
            } else {
                let (name, ts) = topic_from_json(&p[0])?;
                o.topics.insert(name, ts);
            }
        }
        "U" => {
            if p.is_empty() {
                o.nodes.remove(&c.n);
            } else {
                o.nodes.insert(c.n, p[0].as_str()?.to_string());
            }
        }
        _ => {}
    }
    Some(o)
}

pub fn run_case(case: &Value, snap: bool) -> Value {
    let id = case["id"].as_str().unwrap_or("?").to_string();
    let kind = case["kind"].as_str().unwrap_or("seq");
    let path: Vec<Cmd> = case["path"].as_array().map(|a| a.iter().filter_map(cmd_from_json).collect()).unwrap_or_default();
    let succ: Vec<Cmd> = case["succ"].as_array().map(|a| a.iter().filter_map(cmd_from_json).collect()).unwrap_or_default();
    let want_trace = case["trace"].as_bool().unwrap_or(false);
    let mut run = Run { corrupt_snapshot: case["selftest_corrupt_snapshot"].as_bool().unwrap_or(false), viol: vec![], snap_viol: vec![], n_apply: 0, n_compare: 0, n_snap: 0, universe: BTreeSet::new() };
    for c in path.iter().chain(succ.iter()) {
        if c.k == "C" || c.k == "R" {
            run.universe.insert(c.t.clone());
        }
    }
    let expected_final = case.get("state").and_then(obs_from_json);
    if let Some(e) = &expected_final {
        run.universe.extend(e.topics.keys().cloned());
    }
    let mut trace: Vec<Value> = Vec::new();

    // ---- the path, command by command, on the real state machine ----
    let m = Metadata::new();
    let mut prev = run.observe_or_report(&m, 0);
    let mut alive = prev.is_some();
    if snap && alive {
        if let Some(r) = run.snapshot_restore(&m, 0) {
            if let Some(twin) = run.replay(&[]) {
                run.lockstep(&twin, &r, &path, 0);
            }
        }
    }
    let snap_points: BTreeSet<usize> = if path.len() <= 8 { (1..=path.len()).collect() } else {
        // long sequences: a spread of prefixes (deterministic)
        let n = path.len();
        [1, 2, n / 7, n / 3, n / 2, (2 * n) / 3, n - 1, n].into_iter().filter(|k| *k >= 1 && *k <= n).collect()
    };
    if alive {
        for (i, c) in path.iter().enumerate() {
            let step = (i + 1) as i64;
            let Some(cls) = run.apply(&m, c, step, true) else {
                alive = false;
                break;
            };
            if let Some(exp) = &c.r {
                if *exp != cls {
                    run.v("result_mismatch", step, json!({"cmd": cmd_to_json(c), "real": cls, "expected": exp}));
                }
            }
            let Some(now) = run.observe_or_report(&m, step) else {
                alive = false;
                break;
            };
            run.check_property(prev.as_ref(), &now, step, &cmd_to_json(c));
            if rejected(&cls) && Some(&now) != prev.as_ref() {
                run.v("rejected_changed_state", step, json!({"cmd": cmd_to_json(c), "value": cls, "after": now.to_json()}));
            }
            if want_trace {
                trace.push(json!({"c": cmd_to_json(c), "r": cls, "s": now.to_json()}));
            }
            if snap && snap_points.contains(&(i + 1)) {
                if let Some(r) = run.snapshot_restore(&m, step) {
                    if let Some(twin) = run.replay(&path[..=i]) {
                        run.lockstep(&twin, &r, &path[i + 1..], step);
                    }
                }
            }
            prev = Some(now);
        }
    }
    // ---- the state after the path against the spec's ----
    if alive {
        if let (Some(exp), Some(real)) = (&expected_final, &prev) {
            run.n_compare += 1;
            if exp != real {
                run.v("state_mismatch", path.len() as i64, json!({"real": real.to_json(), "expected": exp.to_json()}));
            }
        }
    }
    // ---- every command of the alphabet from here, each on its own replica ----
    if alive && !succ.is_empty() {
        let base_real = prev.clone().unwrap_or_default();
        let base_exp = expected_final.clone().unwrap_or_else(|| base_real.clone());
        let step = (path.len() + 1) as i64;
        for c in succ.iter() {
            let Some(rep) = run.replay(&path) else { break };
            let Some(cls) = run.apply(&rep, c, step, true) else { continue };
            if let Some(exp) = &c.r {
                if *exp != cls {
                    run.v("result_mismatch", step, json!({"cmd": cmd_to_json(c), "real": cls, "expected": exp}));
                }
            }
            let Some(now) = run.observe_or_report(&rep, step) else { continue };
            run.check_property(Some(&base_real), &now, step, &cmd_to_json(c));
            if let Some(exp) = apply_patch(&base_exp, c) {
                run.n_compare += 1;
                if exp != now {
                    run.v("state_mismatch", step, json!({"cmd": cmd_to_json(c), "real": now.to_json(), "expected": exp.to_json()}));
                }
            } else {
                run.v("state_mismatch", step, json!({"cmd": cmd_to_json(c), "error": "unusable patch in case"}));
            }
            if snap {
                // a restored replica answers this command exactly like the original
                if let Some(orig) = run.replay(&path) {
                    if let Some(r) = run.snapshot_restore(&orig, step - 1) {
                        run.lockstep(&orig, &r, std::slice::from_ref(c), step - 1);
                    }
                }
            }
        }
    }
    // ---- arbitrary byte strings as commands ----
    if alive && kind == "bytes" {
        let step0 = path.len() as i64;
        for (j, h) in case["bytes"].as_array().cloned().unwrap_or_default().iter().enumerate() {
            let Some(bytes) = h.as_str().and_then(unhex) else { continue };
            let step = step0 + 1 + j as i64;
            run.n_apply += 1;
            match guarded(|| m.apply(&bytes)) {
                Ok(res) => {
                    let cls = classify(&res);
                    let Some(now) = run.observe_or_report(&m, step) else { break };
                    run.check_property(prev.as_ref(), &now, step, &json!({"bytes": hex(&bytes)}));
                    if rejected(&cls) && Some(&now) != prev.as_ref() {
                        run.v("rejected_changed_state", step, json!({"bytes": hex(&bytes), "value": cls, "after": now.to_json()}));
                    }
                    if want_trace {
                        trace.push(json!({"bytes": hex(&bytes), "r": cls}));
                    }
                    prev = Some(now);
                }
                Err(p) => {
                    run.v("panic", step, json!({"bytes": hex(&bytes), "panic": p}));
                    break;
                }
            }
        }
    }
    let mut out = json!({
        "id": id, "ok": run.viol.is_empty() && run.snap_viol.is_empty(), "viol": run.viol, "snap_viol": run.snap_viol,
        "n_apply": run.n_apply, "n_compare": run.n_compare, "n_snap": run.n_snap,
        "final": prev.map(|o| o.to_json()),
    });
    if want_trace {
        out["trace"] = Value::Array(trace);
    }
    out
}
