//! dwpure: binds the TLA+ specs WalKey / Metadata / ClientProto to the *real* code of
//! distributed-walrus (metadata.rs, controller/types.rs, controller/internal.rs, client.rs, rpc.rs
//! compiled unmodified through `#[path]`, see build.rs) for the properties C25, C18, C20
//! (state-machine half) and C24.
//!
//!   dwpure walkey --in cases.ndjson --out results.ndjson
//!   dwpure meta   --in cases.ndjson --out results.ndjson [--snap]
//!   dwpure proto  --in cases.ndjson --out results.ndjson
//!   dwpure info
//!
//! Every subcommand reads one JSON case per line and writes one JSON result per line. A panic of
//! the code under test is caught and reported as a result, never as a harness failure. Exit code 0
//! whenever all cases were processed (verdicts are in the results), 2 on usage/IO errors.
#![allow(dead_code, unused_imports, unused_variables)]

include!(concat!(env!("OUT_DIR"), "/mods.rs"));

mod meta;
mod proto;
mod util;
mod walkey;

use std::io::{BufRead, BufReader, BufWriter, Write};

fn usage() -> ! {
    eprintln!("usage: dwpure walkey|meta|proto --in <cases.ndjson> --out <results.ndjson> [--snap] | dwpure info");
    std::process::exit(2)
}

fn main() {
    let args: Vec<String> = std::env::args().collect();
    if args.len() < 2 {
        usage();
    }
    let sub = args[1].as_str();
    util::install_quiet_panic_hook();
    if sub == "info" {
        println!("{}", serde_json::json!({"dw_src": DW_SRC, "overflow_checks": util::overflow_checks_on(), "debug_assertions": cfg!(debug_assertions)}));
        return;
    }
    let mut inp = None;
    let mut out = None;
    let mut snap = false;
    let mut i = 2;
    while i < args.len() {
        match args[i].as_str() {
            "--in" => {
                inp = args.get(i + 1).cloned();
                i += 2;
            }
            "--out" => {
                out = args.get(i + 1).cloned();
                i += 2;
            }
            "--snap" => {
                snap = true;
                i += 1;
            }
            _ => usage(),
        }
    }
    let (Some(inp), Some(out)) = (inp, out) else { usage() };
    let rd = BufReader::new(std::fs::File::open(&inp).unwrap_or_else(|e| {
        eprintln!("dwpure: cannot open {}: {}", inp, e);
        std::process::exit(2)
    }));
    let mut wr = BufWriter::new(std::fs::File::create(&out).unwrap_or_else(|e| {
        eprintln!("dwpure: cannot create {}: {}", out, e);
        std::process::exit(2)
    }));
    let mut wk = walkey::State::default();
    let mut n = 0u64;
    for line in rd.lines() {
        let line = match line {
            Ok(l) => l,
            Err(e) => {
                eprintln!("dwpure: read error: {}", e);
                std::process::exit(2)
            }
        };
        let line = line.trim();
        if line.is_empty() {
            continue;
        }
        let case: serde_json::Value = match serde_json::from_str(line) {
            Ok(v) => v,
            Err(e) => {
                eprintln!("dwpure: bad case line {}: {}", n + 1, e);
                std::process::exit(2)
            }
        };
        n += 1;
        let res = match sub {
            "walkey" => walkey::run_case(&mut wk, &case),
            "meta" => meta::run_case(&case, snap),
            "proto" => proto::run_case(&case),
            _ => usage(),
        };
        writeln!(wr, "{}", res).unwrap();
    }
    if sub == "walkey" {
        writeln!(wr, "{}", walkey::summary(&wk)).unwrap();
    }
    wr.flush().unwrap();
}
