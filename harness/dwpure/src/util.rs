//! Small helpers: quiet panic capture, hex, a trivial block_on for futures that never wait.
use std::cell::RefCell;
use std::future::Future;
use std::panic::{self, AssertUnwindSafe};
use std::pin::Pin;
use std::sync::Arc;
use std::task::{Context, Poll, Wake, Waker};

thread_local! {
    static LAST_PANIC: RefCell<Option<String>> = RefCell::new(None);
}

pub fn install_quiet_panic_hook() {
    panic::set_hook(Box::new(|info| {
        let msg = if let Some(s) = info.payload().downcast_ref::<&str>() {
            s.to_string()
        } else if let Some(s) = info.payload().downcast_ref::<String>() {
            s.clone()
        } else {
            "panic".to_string()
        };
        let loc = info.location().map(|l| format!("{}:{}", l.file(), l.line())).unwrap_or_default();
        LAST_PANIC.with(|p| *p.borrow_mut() = Some(format!("{} @ {}", msg, loc)));
    }));
}

/// Runs `f`; a panic becomes Err(message with location).
pub fn guarded<T>(f: impl FnOnce() -> T) -> Result<T, String> {
    match panic::catch_unwind(AssertUnwindSafe(f)) {
        Ok(v) => Ok(v),
        Err(_) => Err(LAST_PANIC.with(|p| p.borrow_mut().take()).unwrap_or_else(|| "panic".into())),
    }
}

pub fn overflow_checks_on() -> bool {
    guarded(|| {
        let x = std::hint::black_box(u64::MAX);
        std::hint::black_box(x + std::hint::black_box(1))
    })
    .is_err()
}

pub fn hex(b: &[u8]) -> String {
    let mut s = String::with_capacity(b.len() * 2);
    for x in b {
        s.push_str(&format!("{:02x}", x));
    }
    s
}

pub fn unhex(s: &str) -> Option<Vec<u8>> {
    if s.len() % 2 != 0 {
        return None;
    }
    let b = s.as_bytes();
    let mut out = Vec::with_capacity(b.len() / 2);
    for i in (0..b.len()).step_by(2) {
        let h = (b[i] as char).to_digit(16)?;
        let l = (b[i + 1] as char).to_digit(16)?;
        out.push((h * 16 + l) as u8);
    }
    Some(out)
}

struct Noop;
impl Wake for Noop {
    fn wake(self: Arc<Self>) {}
}

/// Polls a future that is expected to complete without ever waiting (the controller double has
/// no real suspension points). Returns None if it stays pending.
pub fn block_on_ready<F: Future>(fut: F) -> Option<F::Output> {
    let waker = Waker::from(Arc::new(Noop));
    let mut cx = Context::from_waker(&waker);
    let mut fut = Box::pin(fut);
    for _ in 0..1000 {
        if let Poll::Ready(v) = Pin::as_mut(&mut fut).poll(&mut cx) {
            return Some(v);
        }
    }
    None
}
