//! C24: the real `client::start_client_listener` / `handle_connection` / `handle_command`
//! (client.rs, unmodified) served over the tokio shim's in-memory TCP, with the controller test
//! double behind it (PUT goes through the real `wal_key` and the real `forward_append`).
//!
//! case: {"id", "chunks": [CHUNK..], "expect": [{"k": "ERR"|"OK"|"EMPTY"|"VAL"|"ANY", "p": hex?}..], "slack": bool}
//!   CHUNK = hex | {"rep": hex, "n": count} | [CHUNK..]
//!   chunks = the client's byte stream in delivery order (the runtime runs until idle after each
//!   chunk; chunks larger than 4 KiB are delivered in 4 KiB pieces); afterwards the client
//!   half-closes. expect = the contract's response list; slack = one additional trailing ERR is
//!   allowed (incomplete trailing frame whose length is already invalid).
//! result: {"id", "ok", "kind", "diverge_at", "n_resp", "responses": [..first 24..], "leftover": hex,
//!          "server_closed", "unread_by_server", "panic"?, "stopped_early"}
//! kinds: ok | extra_responses | missing_responses | wrong_response | payload_mismatch | garbled_output | panic | hang
use crate::client::start_client_listener;
use crate::controller::NodeController;
use crate::util::{guarded, hex, unhex};
use serde_json::{json, Value};
use std::sync::Arc;
use tokio::shim;

const PIECE: usize = 4096;
const POLL_BUDGET: u64 = 2_000_000;

#[derive(Debug, Clone, PartialEq)]
enum Resp {
    Err(Vec<u8>),
    Ok,
    Empty,
    Val(Vec<u8>),
    Other(Vec<u8>),
}

fn classify(body: &[u8]) -> Resp {
    if body.starts_with(b"ERR") {
        Resp::Err(body.to_vec())
    } else if body == b"OK" {
        Resp::Ok
    } else if body == b"EMPTY" {
        Resp::Empty
    } else if body.starts_with(b"OK ") {
        Resp::Val(body[3..].to_vec())
    } else {
        Resp::Other(body.to_vec())
    }
}

fn resp_json(r: &Resp) -> Value {
    match r {
        Resp::Err(b) => json!({"k": "ERR", "text": String::from_utf8_lossy(b)}),
        Resp::Ok => json!({"k": "OK"}),
        Resp::Empty => json!({"k": "EMPTY"}),
        Resp::Val(p) => json!({"k": "VAL", "p": hex(p)}),
        Resp::Other(b) => json!({"k": "OTHER", "raw": hex(&b[..b.len().min(64)])}),
    }
}

/// splits complete response frames off the front of `buf`
fn drain_frames(buf: &mut Vec<u8>, out: &mut Vec<Resp>) {
    let mut at = 0;
    while buf.len() - at >= 4 {
        let n = u32::from_le_bytes(buf[at..at + 4].try_into().unwrap()) as usize;
        if buf.len() - at - 4 < n {
            break;
        }
        out.push(classify(&buf[at + 4..at + 4 + n]));
        at += 4 + n;
    }
    buf.drain(..at);
}

fn matches(exp: &Value, got: &Resp) -> Result<(), &'static str> {
    let k = exp["k"].as_str().unwrap_or("?");
    match (k, got) {
        ("ANY", Resp::Err(_)) => Err("wrong_response"),
        ("ANY", _) => Ok(()),
        ("ERR", Resp::Err(_)) => Ok(()),
        ("OK", Resp::Ok) => Ok(()),
        ("EMPTY", Resp::Empty) => Ok(()),
        ("VAL", Resp::Val(p)) => {
            let want = exp["p"].as_str().and_then(unhex).unwrap_or_default();
            if *p == want { Ok(()) } else { Err("payload_mismatch") }
        }
        _ => Err("wrong_response"),
    }
}

/// a chunk is a hex string, or a list of parts each a hex string or {"rep": hex, "n": count}
fn chunk_bytes(v: &Value) -> Option<Vec<u8>> {
    match v {
        Value::String(h) => unhex(h),
        Value::Object(o) => {
            let unit = o.get("rep")?.as_str().and_then(unhex)?;
            let n = o.get("n")?.as_u64()? as usize;
            let mut out = Vec::with_capacity(unit.len() * n);
            for _ in 0..n {
                out.extend_from_slice(&unit);
            }
            Some(out)
        }
        Value::Array(parts) => {
            let mut out = Vec::new();
            for p in parts {
                out.extend(chunk_bytes(p)?);
            }
            Some(out)
        }
        _ => None,
    }
}

pub fn run_case(case: &Value) -> Value {
    let id = case["id"].as_str().unwrap_or("?").to_string();
    let chunks: Vec<Vec<u8>> = case["chunks"].as_array().map(|a| a.iter().filter_map(chunk_bytes).collect()).unwrap_or_default();
    let expect: Vec<Value> = case["expect"].as_array().cloned().unwrap_or_default();
    let slack = case["slack"].as_bool().unwrap_or(false);
    let limit = expect.len() + if slack { 1 } else { 0 };

    shim::reset();
    let ctrl = Arc::new(NodeController::new_double());
    let addr = "mem:8080".to_string();
    let c2 = ctrl.clone();
    let a2 = addr.clone();
    shim::spawn_root(async move {
        let _ = start_client_listener(c2, a2).await;
    });
    let mut panic: Option<String> = None;
    let mut hang = false;
    let run = |panic: &mut Option<String>, hang: &mut bool| {
        if panic.is_some() {
            return;
        }
        match guarded(|| shim::run_until_idle(POLL_BUDGET)) {
            Ok(st) => {
                if st.exhausted {
                    *hang = true;
                }
            }
            Err(p) => *panic = Some(p),
        }
    };
    run(&mut panic, &mut hang);
    let conn = match shim::connect(&addr) {
        Ok(c) => c,
        Err(e) => {
            shim::reset();
            return json!({"id": id, "ok": false, "kind": "no_listener", "error": e.to_string(), "panic": panic});
        }
    };
    run(&mut panic, &mut hang);

    let mut inbuf: Vec<u8> = Vec::new();
    let mut resps: Vec<Resp> = Vec::new();
    let mut stopped_early = false;
    'outer: for ch in chunks.iter() {
        for piece in ch.chunks(PIECE) {
            conn.send(piece);
            run(&mut panic, &mut hang);
            inbuf.extend(conn.recv_available());
            drain_frames(&mut inbuf, &mut resps);
            if resps.len() > limit + 64 || panic.is_some() || hang {
                stopped_early = true;
                break 'outer;
            }
        }
    }
    if !stopped_early {
        conn.shutdown_write();
        run(&mut panic, &mut hang);
        inbuf.extend(conn.recv_available());
        drain_frames(&mut inbuf, &mut resps);
    }
    let server_closed = conn.server_closed();
    let unread = conn.unread_by_server();
    shim::reset();

    // ---- compare with the contract's list ----
    let mut kind = "ok";
    let mut diverge_at: i64 = -1;
    for (i, e) in expect.iter().enumerate() {
        match resps.get(i) {
            None => {
                kind = "missing_responses";
                diverge_at = i as i64;
                break;
            }
            Some(r) => {
                if let Err(k) = matches(e, r) {
                    kind = k;
                    diverge_at = i as i64;
                    break;
                }
            }
        }
    }
    if kind == "ok" && resps.len() > expect.len() {
        let extra_ok = slack && resps.len() == expect.len() + 1 && matches!(resps[expect.len()], Resp::Err(_));
        if !extra_ok {
            kind = "extra_responses";
            diverge_at = expect.len() as i64;
        }
    }
    if kind == "ok" && !inbuf.is_empty() {
        kind = "garbled_output";
        diverge_at = resps.len() as i64;
    }
    if panic.is_some() {
        kind = "panic";
    } else if hang {
        kind = "hang";
    }
    json!({
        "id": id, "ok": kind == "ok", "kind": kind, "diverge_at": diverge_at, "n_resp": resps.len(), "n_expected": expect.len(),
        "responses": resps.iter().take(24).map(resp_json).collect::<Vec<_>>(),
        "leftover": hex(&inbuf[..inbuf.len().min(64)]), "server_closed": server_closed, "unread_by_server": unread,
        "panic": panic, "stopped_early": stopped_early,
    })
}
