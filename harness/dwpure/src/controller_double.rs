// Test double for `controller::NodeController` (included inside `pub mod controller` next to the
// REAL `types.rs` and `internal.rs`). client.rs calls: ensure_topic, append_for_topic,
// read_one_for_topic_shared, topic_snapshot, get_metrics. internal.rs (`forward_append`) calls:
// update_leases, append_with_retry, record_append, maybe_rollover. The double keeps one FIFO per
// wal key in memory; the append path goes through the real `wal_key` and the real
// `forward_append`, so the (topic, segment) the rollover check receives is the one the real
// `parse_wal_key` decoded.
use crate::rpc::InternalResp;
use anyhow::{anyhow, Result};
use std::collections::{HashMap, VecDeque};
use std::sync::Mutex;

#[derive(Default)]
pub struct DoubleState {
    /// topic -> current segment
    pub topics: HashMap<String, u64>,
    /// wal key -> unread entries
    pub logs: HashMap<String, VecDeque<Vec<u8>>>,
    pub offsets: HashMap<String, u64>,
    /// every (topic, segment) handed to `maybe_rollover`
    pub rollover_calls: Vec<(String, u64)>,
    pub appended: Vec<(String, Vec<u8>)>,
}

#[derive(Default)]
pub struct NodeController {
    pub st: Mutex<DoubleState>,
}

impl NodeController {
    pub fn new_double() -> Self {
        Self::default()
    }

    pub async fn update_leases(&self) {}

    pub async fn ensure_topic(&self, topic: &str) -> Result<()> {
        let mut st = self.st.lock().unwrap();
        st.topics.entry(topic.to_string()).or_insert(1);
        Ok(())
    }

    /// Mirrors the shape of the real method: key from the real `wal_key`, append through the
    /// real `forward_append`.
    pub async fn append_for_topic(&self, topic: &str, data: Vec<u8>) -> Result<()> {
        let seg = {
            let st = self.st.lock().unwrap();
            match st.topics.get(topic) {
                Some(s) => *s,
                None => return Err(anyhow!("unknown topic {}", topic)),
            }
        };
        let key = wal_key(topic, seg);
        match self.forward_append(key, data).await {
            InternalResp::Ok => Ok(()),
            InternalResp::Error(e) => Err(anyhow!(e)),
            other => Err(anyhow!("unexpected append response: {:?}", other)),
        }
    }

    pub async fn read_one_for_topic_shared(&self, topic: &str) -> Result<Option<Vec<u8>>> {
        let mut st = self.st.lock().unwrap();
        let seg = match st.topics.get(topic) {
            Some(s) => *s,
            None => return Err(anyhow!("unknown topic {}", topic)),
        };
        let key = wal_key(topic, seg);
        Ok(st.logs.get_mut(&key).and_then(|q| q.pop_front()))
    }

    pub fn topic_snapshot(&self, topic: &str) -> Result<String> {
        let st = self.st.lock().unwrap();
        match st.topics.get(topic) {
            Some(s) => Ok(format!("{{\"current_segment\":{}}}", s)),
            None => Err(anyhow!("unknown topic {}", topic)),
        }
    }

    pub fn get_metrics(&self) -> Result<String> {
        Ok("{}".to_string())
    }

    async fn append_with_retry(&self, wal_key: &str, data: Vec<u8>) -> Result<()> {
        let mut st = self.st.lock().unwrap();
        st.appended.push((wal_key.to_string(), data.clone()));
        st.logs.entry(wal_key.to_string()).or_default().push_back(data);
        Ok(())
    }

    async fn record_append(&self, wal_key: &str, num_entries: u64) -> u64 {
        let mut st = self.st.lock().unwrap();
        let e = st.offsets.entry(wal_key.to_string()).or_insert(0);
        *e += num_entries;
        *e
    }

    async fn maybe_rollover(&self, topic: &str, segment: u64) -> Result<()> {
        let mut st = self.st.lock().unwrap();
        st.rollover_calls.push((topic.to_string(), segment));
        Ok(())
    }
}
