SPECIFICATION MCSpec
CONSTANTS
  MaxFrame = 3
  ConsumeOversized = TRUE
  MaxLen = 8
INVARIANTS TypeOK InvConforms InvPrefix
CHECK_DEADLOCK FALSE
