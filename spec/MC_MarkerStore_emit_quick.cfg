SPECIFICATION Spec
CONSTANTS
  Topics = {"a", "b"}
  MaxInst = 3
  MaxCalls = 3
  FlushOnDrop = TRUE
  FlushByLastRef = FALSE
  GenGuard = TRUE
  CloseOnFinalFlush = TRUE
  Prompt = TRUE
  KeepHist = TRUE
VIEW View
INVARIANTS TypeOK C17Cex FileAfterDrop GenNotAhead ClosedMeansGone SingleWriter Emit
CHECK_DEADLOCK FALSE
