SPECIFICATION MCSpec
CONSTANTS
  Topics = {"a", "b"}
  Nodes = {1, 2, 3}
  Counts = {0, 1, 2}
  Addrs = {"x", "y"}
  MaxU64 = 4
  MaxDepth = 4
  EmitDepth = 0
VIEW View
INVARIANTS InvSyncApply InvSyncTopicOK
CHECK_DEADLOCK FALSE
