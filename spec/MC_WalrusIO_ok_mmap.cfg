SPECIFICATION Spec
CONSTANTS
  MaxAppends = 3
  OSync = FALSE
  DirSync = TRUE
INVARIANTS TypeOK InvAckedAppendsSurvive InvConsumedNotForgotten InvNothingSkipped
CHECK_DEADLOCK FALSE
