SPECIFICATION Spec
CONSTANTS
  MaxAppends = 3
  OSync = TRUE
  DirSync = TRUE
INVARIANTS TypeOK InvAckedAppendsSurvive InvConsumedNotForgotten InvNothingSkipped
CHECK_DEADLOCK FALSE
