SPECIFICATION MCSpec
CONSTANTS
  PersistCursor = FALSE
  MaxOps = 5
  MaxReopens = 3
  MaxIndex = 3
  MaxTerm = 2
  MaxBatch = 2
INVARIANTS TypeOK ObsEqual InvMirrorIsFullReplayBeforeFirstReopen
VIEW View
CHECK_DEADLOCK FALSE
