SPECIFICATION Spec
CONSTANTS
  Caps <- Caps12
  MaxBatch = 6
  MaxPre2 = 9
  MaxPre3 = 9
  ProgSets <- Small
  MaxThreads = 5
  FineLocks = TRUE
  DefRnStaleSnapshot = FALSE
  DefBrStaleSnapshot = FALSE
  DefBwEarlyPublish = FALSE
  MutBrNewestOnly = FALSE
VIEW ViewState
INVARIANTS ProgramsOK TypeOK LocksAtGates NoDuplicate NoPhantom NoneLost OnlyAcked ReaderOrder CursorNotBehind CursorNotAhead BatchContiguous EmitSched
CHECK_DEADLOCK TRUE
