SPECIFICATION MCSpec
CONSTANTS
  Topics = {"a", "b"}
  Nodes = {1, 2, 3}
  Counts = {0, 1, 2}
  Addrs = {"x", "y"}
  MaxU64 = 4
  MaxDepth = 5
  EmitDepth = 5
VIEW View
INVARIANTS InvSegments InvTotal InvHist InvFrame SnapshotRoundTrip Emit
PROPERTIES PropStable
CHECK_DEADLOCK FALSE
