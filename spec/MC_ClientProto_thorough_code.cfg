SPECIFICATION MCSpec
CONSTANTS
  MaxFrame = 3
  ConsumeOversized = FALSE
  MaxLen = 8
INVARIANTS TypeOK InvConforms InvPrefix Emit
CHECK_DEADLOCK FALSE
