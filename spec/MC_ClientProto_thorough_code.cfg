SPECIFICATION MCSpec
CONSTANTS
  MaxFrame = 3
  DiscardOversized = TRUE
  MaxLen = 8
INVARIANTS TypeOK InvConforms InvPrefix Emit
CHECK_DEADLOCK FALSE
