SPECIFICATION Spec
CONSTANTS
  Classes <- MCClasses
  MaxLen = 4
  DotFix = FALSE
INVARIANTS StrictlyInside NameIsPlain Emit
CHECK_DEADLOCK FALSE
