------------------------------ MODULE Trace_WalrusConc ------------------------------
(***************************************************************************************)
(* C05: linearizability of concurrent call/ret histories recorded from the real engine  *)
(* (threads gated at the cfg(walrus_verif) scheduling points) against the contract       *)
(* WalrusAPI. Events: `call` (thread, call id, operation, arguments) and `ret` (call id,  *)
(* result), in the global order in which they happened, plus ordinary sequential events   *)
(* before the threads start and after they have joined (the quiescent drain).            *)
(*                                                                                     *)
(* Between a call and its return TLC may take one internal step Lin(id) that applies the  *)
(* contract action of that call with the result the call went on to return. A history is  *)
(* accepted iff some choice of linearization points consumes all events: every entry      *)
(* appended successfully is then returned exactly once, in an order consistent with every  *)
(* producer's program order, batches contiguously (the contract's log is a sequence).     *)
(* An empty read result is always acceptable in a concurrent history.                     *)
(***************************************************************************************)
EXTENDS WalrusAPI, Json, IOUtils, TLC

TopicsDef == {"a", "b", "c"}
InstOfDef(t) == 0

Rec == ndJsonDeserialize(IOEnv.TRACE)
N == Len(Rec)

VARIABLES l, ok,
          pend,   \* positions of call events not yet linearized
          lin     \* call ids linearized and not yet returned

cvars == <<avars, l, ok, pend, lin>>
Ev == Rec[l]
Pairs(xs) == [j \in 1 .. Len(xs) |-> <<xs[j][1], xs[j][2]>>]

Boundary(k) == k = N + 1 \/ Rec[k].ev = "reset"
RECURSIVE NextBoundary(_)
NextBoundary(k) == IF Boundary(k) THEN k ELSE NextBoundary(k + 1)

(* index of the call / return event of a call id, searched in the current group *)
RECURSIVE FindFrom(_, _, _)
FindFrom(k, kind, id) ==
  IF Boundary(k) THEN 0
  ELSE IF Rec[k].ev = kind /\ Rec[k].id = id THEN k
  ELSE FindFrom(k + 1, kind, id)
RECURSIVE GroupStart(_)
GroupStart(k) == IF k = 1 \/ Rec[k].ev = "reset" THEN k ELSE GroupStart(k - 1)

BlankNext ==
  /\ log' = [t \in Topics |-> <<>>]
  /\ cur' = [t \in Topics |-> 0]
  /\ lb'  = [t \in Topics |-> 0]
  /\ slack' = [t \in Topics |-> 0]
  /\ rn'  = [t \in Topics |-> 0]
  /\ clean' = [t \in Topics |-> TRUE]
  /\ countKnown' = [t \in Topics |-> TRUE]
  /\ cleanKnown' = [t \in Topics |-> TRUE]
  /\ lastPeek' = <<>>
  /\ reclaimed' = {}
  /\ pend' = {} /\ lin' = {}

CInit ==
  /\ l = 1 /\ ok = TRUE /\ pend = {} /\ lin = {}
  /\ mode = [i \in Instances |-> "strict"] /\ pe = [i \in Instances |-> 1] /\ maxBatch = 2000
  /\ log = [t \in Topics |-> <<>>]
  /\ cur = [t \in Topics |-> 0]
  /\ lb  = [t \in Topics |-> 0]
  /\ slack = [t \in Topics |-> 0]
  /\ rn  = [t \in Topics |-> 0]
  /\ clean = [t \in Topics |-> TRUE]
  /\ countKnown = [t \in Topics |-> TRUE]
  /\ cleanKnown = [t \in Topics |-> TRUE]
  /\ lastPeek = <<>>
  /\ reclaimed = {}

Reset ==
  /\ l <= N /\ Ev.ev = "reset"
  /\ mode' = [i \in Instances |-> Ev.mode]
  /\ pe' = [i \in Instances |-> Ev.pe]
  /\ maxBatch' = Ev.mb
  /\ BlankNext
  /\ ok' = TRUE
  /\ l' = l + 1

(* sequential events (before the threads start / after they joined) *)
SeqEvent ==
  /\ l <= N /\ pend = {} /\ lin = {}
  /\ \/ /\ Ev.ev = "append"
        /\ IF Ev.res = "ok" THEN AppendOk(Ev.t, <<Ev.k, Ev.size>>) ELSE AppendFail(Ev.t)
     \/ /\ Ev.ev = "batch"
        /\ IF Ev.res = "ok" THEN BatchOk(Ev.t, Pairs(Ev.es)) ELSE AppendFail(Ev.t)
     \/ /\ Ev.ev = "read" /\ Ev.st = "ok"
        /\ \E c \in Cands(Ev.t) : ReadNext(Ev.t, Ev.ckpt, c, Pairs(Ev.res))
     \/ /\ Ev.ev = "bread" /\ Ev.st = "ok" /\ Ev.off < 0
        /\ \E c \in Cands(Ev.t) : BatchRead(Ev.t, Ev.budget, Ev.ckpt, c, Pairs(Ev.res))
     \/ /\ Ev.ev = "note"
        /\ UNCHANGED avars
  /\ l' = l + 1
  /\ UNCHANGED <<ok, pend, lin>>

Call ==
  /\ l <= N /\ Ev.ev = "call"
  /\ pend' = pend \cup {l}
  /\ l' = l + 1
  /\ UNCHANGED <<avars, ok, lin>>

(* the linearization point of call `id`, with the result it returned *)
Lin(ci) ==
  LET c == Rec[ci]
      id == c.id
      rk == FindFrom(l, "ret", id)
      r == Rec[IF rk = 0 THEN ci ELSE rk]
  IN /\ ci \in pend
     /\ rk # 0
     /\ \/ /\ c.op = "append"
           /\ IF r.res = "ok" THEN AppendOk(c.t, <<c.es[1][1], c.es[1][2]>>) ELSE AppendFail(c.t)
        \/ /\ c.op = "batch"
           /\ IF r.res = "ok" THEN BatchOk(c.t, Pairs(c.es)) ELSE AppendFail(c.t)
        \/ /\ c.op = "read" /\ r.st = "ok"
           /\ IF Len(r.res) = 0 THEN UNCHANGED avars
              ELSE \E p \in Cands(c.t) : ReadNext(c.t, TRUE, p, Pairs(r.res))
        \/ /\ c.op = "bread" /\ r.st = "ok"
           /\ IF Len(r.res) = 0 THEN UNCHANGED avars
              ELSE \E p \in Cands(c.t) : BatchRead(c.t, c.budget, TRUE, p, Pairs(r.res))
     /\ pend' = pend \ {ci}
     /\ lin' = lin \cup {id}
     /\ UNCHANGED <<l, ok>>

Ret ==
  /\ l <= N /\ Ev.ev = "ret"
  /\ Ev.id \in lin
  /\ lin' = lin \ {Ev.id}
  /\ l' = l + 1
  /\ UNCHANGED <<avars, ok, pend>>

Abandon ==
  /\ l <= N /\ Ev.ev # "reset"
  /\ l' = NextBoundary(l)
  /\ ok' = FALSE
  /\ BlankNext
  /\ UNCHANGED cfgvars

CNext == Reset \/ SeqEvent \/ Call \/ (\E ci \in pend : Lin(ci)) \/ Ret \/ Abandon
CSpec == CInit /\ [][CNext]_cvars

Report == ok => PrintT(<<"AT", l>>)
ReportState == ok => PrintT(<<"ST", l, ToJson([log |-> log, cur |-> cur, pend |-> pend, lin |-> lin])>>)
=========================================================================================
