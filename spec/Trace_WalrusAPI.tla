------------------------------ MODULE Trace_WalrusAPI ------------------------------
(***************************************************************************************)
(* Trace validation: executions recorded from the real engine (ndjson, one event per    *)
(* line, see DESIGN.md appendix B) are checked against the contract WalrusAPI.           *)
(*                                                                                     *)
(* The file holds many independent executions ("groups"), each starting with a `reset`   *)
(* event. Every event carries its arguments and results, so the search is linear; the    *)
(* only branching is the contract's own freedom (restart/crash choices).                 *)
(*                                                                                     *)
(* Acceptance is per group: a group is accepted iff some behaviour of the contract        *)
(* consumes all of its events. `Abandon` lets TLC go on to the next group after a         *)
(* rejection; it clears `ok`, and only states reached with ok = TRUE at a group boundary   *)
(* print a PASS line. The runner compares the PASS lines with the list of groups.         *)
(***************************************************************************************)
EXTENDS WalrusAPI, Json, IOUtils, TLC

TopicsDef == {"a", "b", "c", "1a", "1b", "1c", "2a", "2b", "2c"}
InstOfDef(t) == IF t \in {"a", "b", "c"} THEN 0 ELSE IF t \in {"1a", "1b", "1c"} THEN 1 ELSE 2

CONSTANT BatchAtomic      \* TRUE: C08's all-or-nothing reading of interrupted batches

Rec == ndJsonDeserialize(IOEnv.TRACE)
N == Len(Rec)

VARIABLES l,   \* next event to consume
          ok   \* no event of the current group was skipped

tvars == <<avars, l, ok>>

Ev == Rec[l]
Pair(x) == <<x[1], x[2]>>
Pairs(xs) == [j \in 1 .. Len(xs) |-> <<xs[j][1], xs[j][2]>>]

Boundary(k) == k = N + 1 \/ Rec[k].ev = "reset"
RECURSIVE NextBoundary(_)
NextBoundary(k) == IF Boundary(k) THEN k ELSE NextBoundary(k + 1)

Blank ==
  /\ log = [t \in Topics |-> <<>>]
  /\ cur = [t \in Topics |-> 0]
  /\ lb  = [t \in Topics |-> 0]
  /\ slack = [t \in Topics |-> 0]
  /\ rn  = [t \in Topics |-> 0]
  /\ clean = [t \in Topics |-> TRUE]
  /\ countKnown = [t \in Topics |-> TRUE]
  /\ cleanKnown = [t \in Topics |-> TRUE]
  /\ lastPeek = <<>>
  /\ reclaimed = {}

TInit ==
  /\ l = 1 /\ ok = TRUE
  /\ mode = [i \in Instances |-> "strict"] /\ pe = [i \in Instances |-> 1] /\ maxBatch = 2000
  /\ Blank

BlankNext ==
  /\ log' = [t \in Topics |-> <<>>]
  /\ cur' = [t \in Topics |-> 0]
  /\ lb'  = [t \in Topics |-> 0]
  /\ slack' = [t \in Topics |-> 0]
  /\ rn'  = [t \in Topics |-> 0]
  /\ clean' = [t \in Topics |-> TRUE]
  /\ countKnown' = [t \in Topics |-> TRUE]
  /\ cleanKnown' = [t \in Topics |-> TRUE]
  /\ lastPeek' = <<>>
  /\ reclaimed' = {}

TReset ==
  /\ Ev.ev = "reset"
  /\ mode' = [i \in Instances |-> Ev.mode]
  /\ pe' = [i \in Instances |-> Ev.pe]
  /\ maxBatch' = Ev.mb
  /\ BlankNext
  /\ ok' = TRUE

TAppend ==
  /\ Ev.ev = "append"
  /\ IF Ev.res = "ok" THEN AppendOk(Ev.t, <<Ev.k, Ev.size>>) ELSE AppendFail(Ev.t)

TBatch ==
  /\ Ev.ev = "batch"
  /\ IF Ev.res = "ok" THEN BatchOk(Ev.t, Pairs(Ev.es)) ELSE AppendFail(Ev.t)

(* A read that returns an error, panics or returns a payload that was never appended      *)
(* (reported as res = "err"/"panic"/"foreign") matches no action: the group is rejected.  *)
(* C11: after opening a damaged directory the only obligation on reads is that every       *)
(* returned payload was appended to that topic (entries may be missing, repeated, reordered; *)
(* a read may also return an error).                                                      *)
Appended(t) == {log[t][j] : j \in 1 .. Len(log[t])}
TDamagedRead ==
  /\ Ev.ev \in {"read", "bread"} /\ "dmg" \in DOMAIN Ev
  /\ Ev.st \in {"ok", "err"}
  /\ \A j \in 1 .. Len(Ev.res) : <<Ev.res[j][1], Ev.res[j][2]>> \in Appended(Ev.t)
  /\ UNCHANGED avars

TRead ==
  /\ Ev.ev = "read" /\ Ev.st = "ok" /\ "dmg" \notin DOMAIN Ev
  /\ \E c \in Cands(Ev.t) : ReadNext(Ev.t, Ev.ckpt, c, Pairs(Ev.res))

TBRead ==
  /\ Ev.ev = "bread" /\ Ev.st = "ok" /\ "dmg" \notin DOMAIN Ev
  /\ IF Ev.off < 0
     THEN \E c \in Cands(Ev.t) : BatchRead(Ev.t, Ev.budget, Ev.ckpt, c, Pairs(Ev.res))
     ELSE OffsetRead(Ev.t, Ev.budget, Ev.ckpt, Ev.headof, Pairs(Ev.res))

TCounts ==
  /\ Ev.ev = "counts"
  /\ \A t \in DOMAIN Ev.n : (countKnown[t] /\ slack[t] = 0) => Ev.n[t] = Len(log[t]) - cur[t]
  /\ UNCHANGED avars

TIsClean ==
  /\ Ev.ev = "is_clean"
  /\ IsClean(Ev.t, Ev.v)

TMark ==
  /\ Ev.ev = "mark"
  /\ Mark(Ev.t, Ev.v)

TReopen ==
  /\ Ev.ev = "reopen" /\ Ev.res = "ok"
  /\ Restart(Ev.i)

Inflight(x) ==
  IF Len(x) = 0 THEN <<>>
  ELSE IF x[1] = "read" THEN <<"read", x[2], x[3]>>
  ELSE <<x[1], x[2], Pairs(x[3])>>

TCrash ==
  /\ Ev.ev = "crash" /\ Ev.res = "ok"
  /\ LET inf == Inflight(Ev.inflight) IN
     \E kept \in KeptChoices(inf, BatchAtomic) : Crash(Ev.i, inf, BatchAtomic, kept)

TReclaim ==
  /\ Ev.ev = "reclaim"
  /\ Reclaim({<<p[1], p[2]>> : p \in {Ev.stored[j] : j \in 1 .. Len(Ev.stored)}})

(* Events that carry no obligation (notes of the harness). *)
TNote ==
  /\ Ev.ev = "note"
  /\ UNCHANGED avars

Regular ==
  /\ l <= N
  /\ \/ TAppend \/ TBatch \/ TRead \/ TBRead \/ TDamagedRead \/ TCounts \/ TIsClean \/ TMark
     \/ TReopen \/ TCrash \/ TReclaim \/ TNote
  /\ l' = l + 1
  /\ UNCHANGED ok

Reset ==
  /\ l <= N
  /\ TReset
  /\ l' = l + 1

Abandon ==
  /\ l <= N
  /\ Ev.ev # "reset"
  /\ l' = NextBoundary(l)
  /\ ok' = FALSE
  /\ BlankNext
  /\ UNCHANGED cfgvars

TNext == Regular \/ Reset \/ Abandon
TSpec == TInit /\ [][TNext]_tvars

(* Always true. Prints the position reached by every state that got there without         *)
(* skipping an event of its group: the runner derives, per group, the longest matched      *)
(* prefix (a group is accepted iff its boundary position is reached).                     *)
Report == ok => PrintT(<<"AT", l>>)

(* Diagnostic variant: also prints the contract state (used on a single rejected group).   *)
ReportState == ok => PrintT(<<"ST", l, ToJson([log |-> log, cur |-> cur, lb |-> lb, slack |-> slack, countKnown |-> countKnown,
                                              clean |-> clean, lastPeek |-> lastPeek, maxBatch |-> maxBatch,
                                              mode |-> mode, pe |-> pe])>>)
=========================================================================================
