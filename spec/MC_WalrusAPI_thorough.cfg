SPECIFICATION MCSpec
CONSTANTS
  Topics <- MCTopics
  InstOf <- MCInstOf
  MaxLen = 3
  Sizes = {0, 2}
  Budgets <- MCBudgets
INVARIANTS TypeOK InvDelivered InvReclaim InvLb
PROPERTIES PropAppendOnly PropNoSkip
CHECK_DEADLOCK FALSE
