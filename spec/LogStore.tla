------------------------------ MODULE LogStore ------------------------------
(***************************************************************************************)
(* Contract of octopii's durable Raft log store and peer address book (property C21).    *)
(*                                                                                     *)
(* The state is exactly what the callers were told is stored: every operation that      *)
(* returned success is applied, nothing else is. A restart of any kind (clean drop and   *)
(* reopen in the same or a new process, or the process being killed between two calls)   *)
(* changes nothing. Observations must report exactly this state:                         *)
(*     "each reopened store reports exactly the acknowledged vote, committed id, purge    *)
(*      point, log entries and peer addresses".                                          *)
(*                                                                                     *)
(* The operations are the store API that openraft drives (RaftLogStorage / RaftLogReader *)
(* as implemented by WalLogStore in octopii/src/openraft/storage.rs) plus the two         *)
(* peer-address functions of octopii/src/openraft/node.rs. Their in-memory meaning is the *)
(* one of openraft's reference store (a map index -> entry): append inserts by index,     *)
(* truncate(id) removes every index >= id.index, purge(id) records id and removes every   *)
(* index <= id.index.                                                                   *)
(*                                                                                     *)
(* Actions take their arguments and results as parameters, so the same definitions serve  *)
(* the bounded model (MC_LogStore) and trace validation (Trace_LogStore).                 *)
(*                                                                                     *)
(* Values. An optional value is a sequence of length <= 1 (JSON has no null).            *)
(*   log id   [t |-> term, n |-> node, i |-> index]                                      *)
(*   entry    [t, n, i, k |-> "blank" | "normal" | "membership", d |-> payload key]       *)
(*   vote     [t |-> term, n |-> node, c |-> committed?]                                 *)
(*   peer     <<id, addr>>                                                             *)
(***************************************************************************************)
EXTENDS Naturals, Sequences, FiniteSets

VARIABLES vote,       \* <<>> or <<v>>: the last vote whose save_vote returned Ok
          committed,  \* <<>> or <<log id>>: the argument of the last successful save_committed
          purged,     \* <<>> or <<log id>>: the argument of the last successful purge
          log,        \* set of entries, at most one per index
          peers       \* set of <<id, addr>>, at most one per id

cvars == <<vote, committed, purged, log, peers>>

None == <<>>
Some(x) == <<x>>

LogIdOf(e) == [t |-> e.t, n |-> e.n, i |-> e.i]
SeqSet(s) == {s[j] : j \in 1 .. Len(s)}
Indexes(S) == {e.i : e \in S}

Init ==
  /\ vote = None /\ committed = None /\ purged = None
  /\ log = {} /\ peers = {}

(* ---- effects (state functions, shared with the design layer's replay) ---- *)
AppendTo(L, es)   == {e \in L : e.i \notin Indexes(SeqSet(es))} \cup SeqSet(es)
TruncateAt(L, at) == {e \in L : e.i < at.i}
PurgeAt(L, at)    == {e \in L : e.i > at.i}
PutPeer(P, id, a) == {p \in P : p[1] # id} \cup {<<id, a>>}

(* ---- mutating calls that returned Ok ---- *)
AppendEntries(es) ==
  /\ log' = AppendTo(log, es)
  /\ UNCHANGED <<vote, committed, purged, peers>>

Truncate(at) ==
  /\ log' = TruncateAt(log, at)
  /\ UNCHANGED <<vote, committed, purged, peers>>

Purge(at) ==
  /\ purged' = Some(at)
  /\ log' = PurgeAt(log, at)
  /\ UNCHANGED <<vote, committed, peers>>

SaveVote(v) ==
  /\ vote' = Some(v)
  /\ UNCHANGED <<committed, purged, log, peers>>

SaveCommitted(c) ==      \* c is itself optional: save_committed(None) is legal
  /\ committed' = c
  /\ UNCHANGED <<vote, purged, log, peers>>

RecordPeer(id, addr) ==
  /\ peers' = PutPeer(peers, id, addr)
  /\ UNCHANGED <<vote, committed, purged, log>>

(* ---- mutating calls that returned an error: not acknowledged, so either outcome (for a   *)
(* multi-entry append: any prefix) is acceptable afterwards. ---- *)
AppendEntriesFailed(es)   == \E k \in 0 .. Len(es) : AppendEntries(SubSeq(es, 1, k))
TruncateFailed(at)        == Truncate(at) \/ UNCHANGED cvars
PurgeFailed(at)           == Purge(at) \/ UNCHANGED cvars
SaveVoteFailed(v)         == SaveVote(v) \/ UNCHANGED cvars
SaveCommittedFailed(c)    == SaveCommitted(c) \/ UNCHANGED cvars
RecordPeerFailed(id, a)   == RecordPeer(id, a) \/ UNCHANGED cvars

(* ---- restarts: nothing that was acknowledged may change ---- *)
ReopenKinds == {"clean", "killed"}
Reopen(kind) ==
  /\ kind \in ReopenKinds
  /\ UNCHANGED cvars

(* ---- observations: enabled only with the acknowledged values ---- *)
LastId ==
  IF log = {} THEN purged
  ELSE Some(LogIdOf(CHOOSE e \in log : \A f \in log : f.i <= e.i))

ReadVote(v)      == v = vote /\ UNCHANGED cvars
ReadCommitted(c) == c = committed /\ UNCHANGED cvars
GetLogState(p, last) ==
  /\ p = purged
  /\ last = LastId
  /\ UNCHANGED cvars
GetEntries(lo, hi, es) ==
  /\ LET S == {e \in log : lo <= e.i /\ e.i < hi} IN
       /\ Len(es) = Cardinality(S)
       /\ SeqSet(es) = S
       /\ \A j \in 1 .. Len(es) - 1 : es[j].i < es[j + 1].i
  /\ UNCHANGED cvars
LoadPeers(m) ==        \* m: sequence of <<id, addr>>
  /\ Len(m) = Cardinality(peers)
  /\ SeqSet(m) = peers
  /\ UNCHANGED cvars

(* ---- structure ---- *)
TypeOK ==
  /\ Len(vote) <= 1 /\ Len(committed) <= 1 /\ Len(purged) <= 1
  /\ \A e, f \in log : e.i = f.i => e = f
  /\ \A p, q \in peers : p[1] = q[1] => p = q
=============================================================================
