------------------------------- MODULE WalrusBlocks -------------------------------
(***************************************************************************************)
(* Design specification (layer B, sequential) of the walrus storage engine: the         *)
(* block-level mechanics behind the public API, transcribed from                        *)
(*   src/wal/runtime/writer.rs       (write, batch_write: allocate-before-seal, empty   *)
(*                                    blocks not published, rollback of a failed batch) *)
(*   src/wal/runtime/reader.rs       (append_block_to_chain with tail carry-over)       *)
(*   src/wal/runtime/allocator.rs    (ids, files of UnitsPerFile units, sized blocks;   *)
(*                                    BlockStateTracker / FileStateTracker / flush_check: *)
(*                                    the reclamation bookkeeping)                       *)
(*   src/wal/runtime/walrus_read.rs  (read_next; batch_read_for_topic = plan . parse .  *)
(*                                    commit)                                           *)
(*   src/wal/runtime/walrus.rs       (startup_chore: recovery scan, ids, hydration,     *)
(*                                    recount, re-registration of the recovered blocks,  *)
(*                                    blocks before the index position marked consumed,  *)
(*                                    flush_check of every file seen)                    *)
(* as the code is NOW (after the "fix:" commits).  Four historical defects can be        *)
(* switched back on (constants below): with all switches FALSE the design refines the    *)
(* contract within the checked bounds, with a switch TRUE TLC finds the shortest         *)
(* behaviour in which it does not.                                                      *)
(*                                                                                     *)
(* Every public call is one atomic action (one caller).  The contract WalrusAPI is       *)
(* carried along: each design action computes the result the code would return and takes *)
(* the contract's own action with that result; when the contract does not allow the       *)
(* result, the contract state is frozen and `viol` names the broken clause.               *)
(* Refinement within the bounds  <=>  INVARIANT viol = "".                               *)
(*                                                                                     *)
(* Reclamation (C12).  The per-file counters of FileStateTracker (locked / checkpointed /   *)
(* total blocks, fully allocated), the per-(file, block id) is_checkpointed flags of         *)
(* BlockStateTracker and every call that touches them are transcribed; `flush_check`          *)
(* finding a file ready (fully allocated, nothing locked, total > 0, checkpointed >= total)   *)
(* appends it to `rq`.  Each pending request is then discharged by the internal step          *)
(* DReclaim, which takes the contract action Reclaim(stored) with stored = the acknowledged   *)
(* entries stored in that file: a request for a file holding an entry that is not durably     *)
(* consumed sets `viol` to a "C12: ..." text.  The trackers are process-global statics:       *)
(* DReopen (same process) keeps them (totals grow, blocks are registered again under their    *)
(* recovered ids), DReopenNew (fresh process; enabled by NewProcReopen) starts from empty     *)
(* trackers.                                                                                 *)
(* On the pinned tree the design does NOT refine the contract in AtLeastOnce mode: blocks     *)
(* are marked from the in-memory position while the persisted index lags (known finding       *)
(* KF-ENG-ALO-RECLAIM-NOT-DURABLE).  The spec models what the code does; MC_WalrusBlocks      *)
(* carries the named avoidance guard (GuardAloReclaimNotDurable) and the configuration in     *)
(* which TLC must find the finding (MC_WalrusBlocks_finding_alo_reclaim.cfg).                 *)
(*                                                                                           *)
(* Not modelled: offset-addressed reads (they never touch the trackers: `info_guard` is       *)
(* None), clean markers, threads, crashes, real deletion of files (the deleter acts every     *)
(* 1000 background ticks), failing file creation (the only place where the different order    *)
(* of set_fully_allocated and file creation in the two allocation functions shows).           *)
(* The only I/O failure is `flush` failing at the end of a batch (the fault seam the harness  *)
(* can drive).  Since e6f06c9 a failed batch no longer leaves rolled-back ("dead") space      *)
(* inside a published block, so in this sequential model used = Bytes(es) for every           *)
(* published block; the dead-space branches of the readers are transcribed all the same (a    *)
(* crash can still produce such space).                                                      *)
(***************************************************************************************)
EXTENDS WalrusAPI

CONSTANTS
  Prefix,            \* PREFIX_META_SIZE (256)
  BlockSize,         \* DEFAULT_BLOCK_SIZE (2048 in the tiny geometry)
  UnitsPerFile,      \* BLOCKS_PER_FILE (4)
  MaxAlloc,          \* MAX_ALLOC (8192)
  CapEntries,        \* MAX_BATCH_ENTRIES (6)
  MaxBatchBytes,     \* MAX_BATCH_BYTES (16384)
  Sizes,             \* payload sizes of single appends
  BatchShapes,       \* set of sequences of payload sizes for batch appends
  FailShapes,        \* batch shapes that are also tried with a failing final flush
  Budgets,           \* byte budgets of batch reads (-1 = unbounded)
  Cks,               \* subset of BOOLEAN: checkpoint flags of reads
  ModeSet,           \* set of <<mode, persist_every>>
  MaxOps, MaxReopens,
  \* --- historical defects (deviation switches) ---
  ParserContinuesAfterShortRange,  \* before 24aadb9: later ranges parsed after an earlier one stopped short
  Budget0PlansNothing,             \* before 678dd66: budget 0 plans no sealed range
  TailInitPersistsZero,            \* before a3c434e/e1ac9b7: every tail poll persists offset 0 of the active block
  CkptCountedOnEveryReport,        \* before 93a0380: set_checkpointed_true counts a block on every report
  \* --- optional second reopen action: a fresh process (empty trackers) ---
  NewProcReopen

VARIABLES
  chain,    \* [t -> Seq(block)]        sealed blocks published to the reader, in order
  wr,       \* [t -> block]             the writer's active block (id = 0: no writer yet); used = written offset
  rd,       \* [t -> [ci,co,tb,to,rsp,hy]] ColReaderInfo
  ix,       \* [t -> <<>> | <<0,idx,off>> | <<1,id,off>>]  persisted read_offset_idx entry (<<1,..>> = the
            \*       TAIL_FLAG|id form: still understood by the readers, no longer written since ad9d0d0)
  cnt,      \* [t -> Nat]               topic_entry_counts
  al,       \* [id, f, u]               allocator: next block id, current file, next unit in it
  fs,       \* Seq([l,c,n,full])        FileStateTracker: per WAL file (in name = creation order) locked_block_ctr,
            \*                          checkpoint_block_ctr, total_blocks, is_fully_allocated
  bck,      \* SUBSET <<file, id>>      BlockStateTracker: the keys whose is_checkpointed flag is set
  rq,       \* Seq(file)                files handed to the deleter by the last operation, not yet discharged
  lrq,      \* Seq(file)                all requests the last operation raised (what the harness observes)
  nops, nre,
  viol,     \* "" or the contract clause the design broke
  lastOp,   \* label of the code path the last operation took
  hist      \* history of operations (driver vocabulary); hidden by VIEW

dvars == <<chain, wr, rd, ix, cnt, al, fs, bck, rq, lrq, nops, nre, viol, lastOp>>
vars  == <<avars, dvars, hist>>

(* A block: id, lim (bytes), used (bytes the code believes are written: sealed `used`, or the *)
(* writer offset), es = the entries with a valid header, in order, as <<key, size, pos>>        *)
(* (pos = position in the contract log), f/u = file and first unit. used - Bytes(es) > 0 is       *)
(* rolled-back space (zeroed headers) at the end of a sealed block.                             *)
NoBlock == [id |-> 0, lim |-> 0, used |-> 0, es |-> <<>>, f |-> 0, u |-> 0]
NoRd    == [ci |-> 0, co |-> 0, tb |-> 0, to |-> 0, rsp |-> 0, hy |-> FALSE]
Inf     == 1000000

Alo == mode[0] = "alo"
Every == IF pe[0] < 1 THEN 1 ELSE pe[0]

ESize(e) == Prefix + e[2]
RECURSIVE Bytes(_)
Bytes(es) == IF es = <<>> THEN 0 ELSE ESize(Head(es)) + Bytes(Tail(es))

(* What the 2-byte header probe at byte `off` of a block finds: i > 0: entry i starts there;  *)
(* 0: zero bytes (behind the valid entries: rolled-back or never written); -1: `off` is inside  *)
(* an entry (payload bytes would be read as a header: outside the model).                     *)
RECURSIVE EntIdxFrom(_, _, _, _)
EntIdxFrom(es, off, i, at) ==
  IF i > Len(es) THEN (IF off >= at THEN 0 ELSE -1)
  ELSE IF at = off THEN i
  ELSE IF at > off THEN -1
  ELSE EntIdxFrom(es, off, i + 1, at + ESize(es[i]))
EntIdx(es, off) == EntIdxFrom(es, off, 1, 0)

(* number of entries that lie completely below byte `limit` *)
RECURSIVE CountUpTo(_, _, _, _)
CountUpTo(es, limit, i, at) ==
  IF i > Len(es) \/ at + ESize(es[i]) > limit THEN i - 1
  ELSE CountUpTo(es, limit, i + 1, at + ESize(es[i]))

RECURSIVE SumLen(_, _)
SumLen(ch, n) == IF n = 0 THEN 0 ELSE Len(ch[n].es) + SumLen(ch, n - 1)

IdxOfId(ch, id) == IF \E k \in 1 .. Len(ch) : ch[k].id = id
                   THEN CHOOSE k \in 1 .. Len(ch) : ch[k].id = id ELSE 0
CountLess(ch, id) == Cardinality({k \in 1 .. Len(ch) : ch[k].id < id})

Pairs2(es) == [i \in 1 .. Len(es) |-> <<es[i][1], es[i][2]>>]
KeyOf(id, size) == IF size >= 8 THEN id ELSE 0 - (size + 1)
TotalLogged == LET RECURSIVE S(_)
                   S(ts) == IF ts = {} THEN 0 ELSE LET t == CHOOSE x \in ts : TRUE IN Len(log[t]) + S(ts \ {t})
               IN S(Topics)

(* the projection the harness records before every call (exec.rs, `proj`) *)
Proj(t) == [ch |-> [i \in 1 .. Len(chain[t]) |-> <<chain[t][i].id, chain[t][i].used>>],
            ci |-> rd[t].ci, co |-> rd[t].co, tb |-> rd[t].tb, to |-> rd[t].to,
            w  |-> IF wr[t].id = 0 THEN <<>> ELSE <<wr[t].id, wr[t].used, wr[t].lim>>,
            ix |-> ix[t], hy |-> rd[t].hy, rsp |-> rd[t].rsp, n |-> cnt[t]]

(* the per-file tracker state the harness records with it (file = ordinal in name order) *)
FsProj == [f \in 1 .. Len(fs) |-> <<fs[f].l, fs[f].c, fs[f].n, fs[f].full>>]

-----------------------------------------------------------------------------------------
(* refinement step: take the contract's action if it allows this result, else record why not *)
Refine(A, why) == IF ENABLED A THEN A /\ UNCHANGED viol
                  ELSE viol' = why /\ UNCHANGED avars

Log(op, label) ==
  /\ hist' = Append(hist, op)
  /\ lastOp' = label
  /\ nops' = nops + 1

-----------------------------------------------------------------------------------------
(* allocator.rs: the reclamation bookkeeping. k = [fs, bck, rq] is threaded through the        *)
(* statements of an operation (rq = the requests the operation has raised so far).            *)
(* Every existing file is registered: startup_chore registers every file it lists, including  *)
(* the one the new allocator has just created, and a file created at a rollover is registered  *)
(* in the same call (register_file_if_absent), so fs is a sequence as long as al.f.            *)
(* BlockStateTracker::register_block is `or_insert`: it never clears a flag; every block a     *)
(* reader can report was registered (allocation or recovery), so the key set itself is not      *)
(* carried.  A new allocator always starts a new file, so an allocated (file, id) key is new.   *)
NoFile == [l |-> 0, c |-> 0, n |-> 0, full |-> FALSE]
Tk0    == [fs |-> fs, bck |-> bck, rq |-> <<>>]

(* flush_check *)
Ready(s) == s.full /\ s.l = 0 /\ s.n > 0 /\ s.c >= s.n
TkFlushCheck(k, f) == IF Ready(k.fs[f]) THEN [k EXCEPT !.rq = Append(@, f)] ELSE k
(* a file created at a rollover *)
TkGrow(k, f) == IF f > Len(k.fs) THEN [k EXCEPT !.fs = Append(@, NoFile)] ELSE k
(* FileStateTracker::set_fully_allocated *)
TkFull(k, f) == TkFlushCheck([k EXCEPT !.fs[f].full = TRUE], f)
(* register_block; register_file_if_absent; add_block_to_file_state; set_block_locked *)
TkAlloc(k, f) == [k EXCEPT !.fs[f].n = @ + 1, !.fs[f].l = @ + 1]
(* FileStateTracker::set_block_unlocked (an AtomicU16: fetch_sub wraps) *)
TkUnlock(k, f) == TkFlushCheck([k EXCEPT !.fs[f].l = IF @ > 0 THEN @ - 1 ELSE 65535], f)
(* BlockStateTracker::set_checkpointed_true(id, file): counted once per key since 93a0380 *)
TkMark(k, key) ==
  IF key \in k.bck /\ ~CkptCountedOnEveryReport THEN k
  ELSE TkFlushCheck([k EXCEPT !.bck = @ \cup {key}, !.fs[key[1]].c = @ + 1], key[1])
RECURSIVE MarkAll(_, _)
MarkAll(k, mk) == IF mk = <<>> THEN k ELSE MarkAll(TkMark(k, Head(mk)), Tail(mk))
KeyOfBlock(b) == <<b.f, b.id>>

InstallTk(k) == fs' = k.fs /\ bck' = k.bck /\ rq' = k.rq /\ lrq' = k.rq

(* allocator.rs: block handout *)
AllocFirst(a, k) ==    \* get_next_available_block: a default block; new file when the current one is full
  LET roll == a.u >= UnitsPerFile
      a1 == IF roll THEN [a EXCEPT !.f = a.f + 1, !.u = 0] ELSE a
      \* the previous file is marked fully allocated (and flush-checked) before the new file is created
      k1 == IF roll THEN TkGrow(TkFull(k, a.f), a1.f) ELSE k IN
  [blk |-> [id |-> a1.id, lim |-> BlockSize, used |-> 0, es |-> <<>>, f |-> a1.f, u |-> a1.u],
   al  |-> [a1 EXCEPT !.u = a1.u + 1, !.id = a1.id + 1],
   tk  |-> TkAlloc(k1, a1.f)]

AllocSized(a, k, need) == \* alloc_block(need): whole units; new file when they do not fit
  LET units == (need + BlockSize - 1) \div BlockSize
      roll == a.u + units > UnitsPerFile
      a1 == IF roll THEN [a EXCEPT !.f = a.f + 1, !.u = 0] ELSE a
      \* here the new file is created first, then the previous one is marked fully allocated
      k1 == IF roll THEN TkFull(TkGrow(k, a1.f), a.f) ELSE k IN
  [blk |-> [id |-> a1.id, lim |-> units * BlockSize, used |-> 0, es |-> <<>>, f |-> a1.f, u |-> a1.u],
   al  |-> [a1 EXCEPT !.u = a1.u + units, !.id = a1.id + 1],
   tk  |-> TkAlloc(k1, a1.f),
   newfile |-> roll]

(* writer.rs: one entry. s = [w, al, tk, ch, r, rot, lab]. Rotation: allocate first, then seal *)
(* (set_block_unlocked of the sealed block's file, also when it is empty); the sealed block is  *)
(* published only if it holds bytes (reader.rs: with tail carry-over): an empty sealed block is  *)
(* unlocked but never reaches a reader, hence is never marked consumed.                        *)
WriteOne(s, e) ==
  LET need == ESize(e) IN
  IF s.w.used + need > s.w.lim
  THEN LET x      == AllocSized(s.al, s.tk, need)
           sealed == s.w
           pub    == sealed.used > 0
           ch1    == IF pub THEN Append(s.ch, sealed) ELSE s.ch
           r1     == IF pub /\ s.r.tb = sealed.id
                     THEN [s.r EXCEPT !.ci = Len(ch1) - 1, !.co = Min(s.r.to, sealed.used)]
                     ELSE s.r
       IN [w   |-> [x.blk EXCEPT !.es = <<e>>, !.used = need],
           al  |-> x.al, tk |-> TkUnlock(x.tk, sealed.f), ch |-> ch1, r |-> r1, rot |-> s.rot + 1,
           lab |-> IF ~pub THEN "rotate_empty"
                   ELSE IF x.blk.lim > BlockSize THEN "rotate_multi"
                   ELSE IF x.newfile THEN "rotate_newfile" ELSE "rotate"]
  ELSE [s EXCEPT !.w.es = Append(@, e), !.w.used = @ + need]

RECURSIVE WriteAll(_, _)
WriteAll(s, es) == IF es = <<>> THEN s ELSE WriteAll(WriteOne(s, Head(es)), Tail(es))

(* walrus.rs get_or_create_writer *)
WithWriter(t) ==
  IF wr[t].id # 0 THEN [w |-> wr[t], al |-> al, tk |-> Tk0, ch |-> chain[t], r |-> rd[t], rot |-> 0, lab |-> "fits"]
  ELSE LET x == AllocFirst(al, Tk0) IN
       [w |-> x.blk, al |-> x.al, tk |-> x.tk, ch |-> chain[t], r |-> rd[t], rot |-> 0, lab |-> "fits_first"]

Install(t, s) ==
  /\ wr' = [wr EXCEPT ![t] = s.w]
  /\ al' = s.al
  /\ chain' = [chain EXCEPT ![t] = s.ch]
  /\ rd' = [rd EXCEPT ![t] = s.r]
  /\ InstallTk(s.tk)

NewEntries(t, sizes) ==
  [j \in 1 .. Len(sizes) |-> <<KeyOf(TotalLogged + j, sizes[j]), sizes[j], Len(log[t]) + j>>]

(* ---- append_for_topic ---- *)
DAppend(t, size) ==
  LET s0 == WithWriter(t)
      e  == NewEntries(t, <<size>>)[1]
      op == [op |-> "append", t |-> t, id |-> TotalLogged + 1, size |-> size]
  IN IF Prefix + size > MaxAlloc
     THEN \* alloc_block rejects the size; the writer (and its first block) exists by then
          /\ Install(t, s0)
          /\ UNCHANGED <<ix, cnt>>
          /\ Refine(AppendFail(t) /\ clean'[t] = FALSE, "C04: rejected append not allowed")
          /\ Log([op |-> "append", t |-> t, id |-> 900 + nops, size |-> size, bad |-> TRUE],
                 "append_rejected")
     ELSE LET s1 == WriteOne(s0, e) IN
          /\ Install(t, s1)
          /\ cnt' = [cnt EXCEPT ![t] = @ + 1]
          /\ UNCHANGED ix
          /\ Refine(AppendOk(t, <<e[1], e[2]>>), "C01: append not allowed")
          /\ Log(op, "append_" \o (IF s1.rot = 0 THEN s0.lab ELSE s1.lab))

(* ---- batch_append_for_topic ---- *)
BatchTotal(sizes) == LET RECURSIVE S(_)
                         S(q) == IF q = <<>> THEN 0 ELSE Prefix + Head(q) + S(Tail(q))
                     IN S(sizes)
BatchInvalid(sizes) == \/ Len(sizes) > CapEntries
                       \/ BatchTotal(sizes) > MaxBatchBytes
                       \/ \E j \in 1 .. Len(sizes) : Prefix + sizes[j] > MaxAlloc

DBatch(t, sizes) ==
  LET s0 == WithWriter(t)
      es == NewEntries(t, sizes)
      op == [op |-> "batch", t |-> t,
             es |-> [j \in 1 .. Len(sizes) |-> <<TotalLogged + j, sizes[j]>>]]
  IN IF BatchInvalid(sizes)
     THEN /\ Install(t, s0)
          /\ UNCHANGED <<ix, cnt>>
          /\ Refine(AppendFail(t) /\ clean'[t] = FALSE, "C04: rejected batch not allowed")
          /\ Log([op |-> "batch", t |-> t, bad |-> TRUE,
                  es |-> [j \in 1 .. Len(sizes) |-> <<900 + 10 * nops + j, sizes[j]>>]], "batch_rejected")
     ELSE LET s1 == WriteAll(s0, es) IN
          /\ Install(t, s1)
          /\ cnt' = [cnt EXCEPT ![t] = @ + Len(sizes)]
          /\ UNCHANGED ix
          /\ Refine(BatchOk(t, Pairs2(es)), "C04: batch not allowed")
          /\ Log(op, "batch_" \o (IF s1.rot = 0 THEN s0.lab ELSE IF s1.rot = 1 THEN s1.lab ELSE "rotate_many"))

(* A batch whose final flush fails (writer.rs: the headers of the whole plan are zeroed, then    *)
(* BatchRevertInfo::rollback): the blocks sealed while planning were kept private; only the      *)
(* first of them is published, with the `used` it had before the batch (if that is > 0); the     *)
(* writer restarts at offset 0 of the last allocated block, or keeps block and offset when no      *)
(* block was allocated. The blocks allocated in between stay allocated and empty. Driven in the   *)
(* harness by fault site `flush`, occurrence rot+1 (one flush per seal while planning).            *)
(* Trackers: every block sealed while planning was unlocked then (s1.tk); the blocks left empty    *)
(* count in total_blocks but are never published, so their file can never become ready.            *)
DBatchFail(t, sizes) ==
  LET s0  == WithWriter(t)
      s1  == WriteAll(s0, NewEntries(t, sizes))     \* the plan: rotations and allocations
      pub == s1.rot > 0 /\ s0.w.used > 0
      ch1 == IF pub THEN Append(s0.ch, s0.w) ELSE s0.ch
      r1  == IF pub /\ s0.r.tb = s0.w.id
             THEN [s0.r EXCEPT !.ci = Len(ch1) - 1, !.co = Min(s0.r.to, s0.w.used)] ELSE s0.r
      w1  == IF s1.rot = 0 THEN s0.w ELSE [s1.w EXCEPT !.es = <<>>, !.used = 0]
      ids == [j \in 1 .. Len(sizes) |-> <<900 + 10 * nops + j, sizes[j]>>]
  IN /\ ~BatchInvalid(sizes) /\ sizes # <<>>
     /\ Install(t, [w |-> w1, al |-> s1.al, tk |-> s1.tk, ch |-> ch1, r |-> r1])
     /\ UNCHANGED <<ix, cnt>>
     /\ Refine(AppendFail(t) /\ clean'[t] = FALSE, "C04: failed batch not allowed")
     /\ Log([op |-> "batch", t |-> t, es |-> ids, bad |-> TRUE, flush_nth |-> s1.rot + 1],
            IF s1.rot = 0 THEN "batchfail_inplace" ELSE IF pub THEN "batchfail_rotated" ELSE "batchfail_rotated_unpublished")

-----------------------------------------------------------------------------------------
(* walrus_read.rs: hydration of the reader position from the index (once per process and    *)
(* topic). read_next keeps a persisted tail position in a local; batch reads also store it in *)
(* tail_block_id/tail_offset.                                                               *)
Hydrate(t, storeTail) ==
  LET r == rd[t]  p == ix[t]  ch == chain[t]  n == Len(ch) IN
  IF r.hy THEN r
  ELSE IF p = <<>> THEN [r EXCEPT !.hy = TRUE]
  ELSE IF p[1] = 1
  THEN LET k  == IdxOfId(ch, p[2])
           r1 == IF storeTail THEN [r EXCEPT !.tb = p[2], !.to = p[3]] ELSE r
       IN IF n = 0 THEN [r1 EXCEPT !.hy = TRUE, !.ci = 0, !.co = 0]
          ELSE IF k > 0 THEN [r1 EXCEPT !.hy = TRUE, !.ci = k - 1, !.co = Min(p[3], ch[k].used)]
          ELSE [r1 EXCEPT !.hy = TRUE, !.ci = CountLess(ch, p[2]), !.co = 0]
  ELSE LET ib == Min(p[2], n) IN
       [r EXCEPT !.hy = TRUE, !.ci = ib, !.co = IF ib < n THEN Min(p[3], ch[ib + 1].used) ELSE 0]

(* should_persist(info, false): [p |-> persist now, rsp |-> new counter] *)
ShouldPersist(rsp) ==
  IF ~Alo THEN [p |-> TRUE, rsp |-> rsp]
  ELSE IF rsp + 1 >= Every THEN [p |-> TRUE, rsp |-> 0] ELSE [p |-> FALSE, rsp |-> rsp + 1]

(* read_next, sealed part of the loop: walk past exhausted blocks and rolled-back space; every  *)
(* block walked past is reported to BlockStateTracker::set_checkpointed_true (mk), for peeks too *)
RECURSIVE RNAdv(_, _, _, _, _)
RNAdv(ch, ci, co, adv, mk) ==
  IF ci >= Len(ch) THEN [k |-> "tail", ci |-> ci, co |-> co, adv |-> adv, mk |-> mk]
  ELSE LET b == ch[ci + 1] IN
       IF co >= b.used THEN RNAdv(ch, ci + 1, 0, adv + 1, Append(mk, KeyOfBlock(b)))
       ELSE LET i == EntIdx(b.es, co) IN
            IF i > 0 THEN [k |-> "ent", ci |-> ci, co |-> co, adv |-> adv, e |-> b.es[i], mk |-> mk]
            ELSE IF i = 0 THEN RNAdv(ch, ci + 1, 0, adv + 100, Append(mk, KeyOfBlock(b)))
            ELSE [k |-> "bad", ci |-> ci, co |-> co, adv |-> adv, mk |-> mk]

(* outcome of a read: new reader info, new index entry, entries to subtract from the count,   *)
(* returned entries, code-path label, bad = the cursor was not at an entry boundary, mk = the  *)
(* blocks reported as consumed, in order                                                     *)
ReadNextOutcome(t, ck) ==
  LET r0 == Hydrate(t, FALSE)
      a  == RNAdv(chain[t], r0.ci, r0.co, 0, <<>>)
      ra == [r0 EXCEPT !.ci = a.ci, !.co = a.co]
      advl == IF a.adv = 0 THEN "" ELSE IF a.adv >= 100 THEN "_deadskip" ELSE "_adv"
  IN
  IF a.k = "bad" THEN [r |-> ra, ix |-> ix[t], dec |-> 0, rs |-> <<>>, lab |-> "rn_bad", bad |-> TRUE, mk |-> a.mk]
  ELSE IF a.k = "ent"
  THEN LET noff == a.co + ESize(a.e)
           sp   == ShouldPersist(r0.rsp) IN
       IF ck THEN [r |-> [ra EXCEPT !.co = noff, !.rsp = sp.rsp],
                   ix |-> IF sp.p THEN <<0, a.ci, noff>> ELSE ix[t],
                   dec |-> 1, rs |-> <<a.e>>, lab |-> "rn_sealed" \o advl, bad |-> FALSE, mk |-> a.mk]
             ELSE [r |-> ra, ix |-> ix[t], dec |-> 0, rs |-> <<a.e>>, lab |-> "rn_sealed_peek" \o advl, bad |-> FALSE, mk |-> a.mk]
  ELSE \* tail path
  IF wr[t].id = 0 THEN [r |-> ra, ix |-> ix[t], dec |-> 0, rs |-> <<>>, lab |-> "rn_nowriter" \o advl, bad |-> FALSE, mk |-> a.mk]
  ELSE
  LET w       == wr[t]
      \* a position in the active block is persisted as (number of sealed blocks, offset) since ad9d0d0
      tpos    == Len(chain[t])
      already == ix[t] # <<>> /\ ix[t][1] = 0 /\ ix[t][2] = tpos
      doInit  == ck /\ (TailInitPersistsZero \/ ~already)
      rspA    == IF doInit /\ Alo THEN 0 ELSE r0.rsp
      ixA     == IF doInit THEN <<0, tpos, 0>> ELSE ix[t]
      toff    == IF r0.tb = w.id THEN r0.to ELSE 0
      initl   == IF doInit THEN "_init" ELSE ""
  IN IF toff < w.used
     THEN LET i == EntIdx(w.es, toff) IN
          IF i <= 0 THEN [r |-> ra, ix |-> ixA, dec |-> 0, rs |-> <<>>, lab |-> "rn_bad", bad |-> TRUE, mk |-> a.mk]
          ELSE LET e == w.es[i]  noff == toff + ESize(e)  sp == ShouldPersist(rspA) IN
               IF ck THEN [r |-> [ra EXCEPT !.tb = w.id, !.to = noff, !.rsp = sp.rsp],
                           ix |-> IF sp.p THEN <<0, tpos, noff>> ELSE ixA,
                           dec |-> 1, rs |-> <<e>>, lab |-> "rn_tail" \o initl \o advl, bad |-> FALSE, mk |-> a.mk]
                     ELSE [r |-> ra, ix |-> ixA, dec |-> 0, rs |-> <<e>>, lab |-> "rn_tail_peek" \o advl, bad |-> FALSE, mk |-> a.mk]
     ELSE [r |-> [ra EXCEPT !.rsp = rspA], ix |-> ixA, dec |-> 0, rs |-> <<>>,
           lab |-> "rn_tail_caughtup" \o initl \o advl, bad |-> FALSE, mk |-> a.mk]

-----------------------------------------------------------------------------------------
(* batch_read_for_topic (cursor-based), step 2: the planner. A plan element is a byte range    *)
(* [s, e) of chain block k (0-based) or of the writer's block (tail).                          *)
(* A block the planner's local cursor walks past without planning a range (the cursor stands  *)
(* at or behind its `used`, or on rolled-back space) is reported as consumed (mk): cursor-based  *)
(* reads only (`info_guard.is_some()`), peeks included, and again on every call for as long as    *)
(* the shared cursor stays there. Blocks that are planned, parsed and committed in one call are   *)
(* not reported by that call (nor later: the committed cursor is already past them).             *)
RECURSIVE PlanSealed(_, _, _, _, _, _, _, _)
PlanSealed(ch, b, idx, off, planned, plan, skips, mk) ==
  LET go == (b < 0 \/ planned < b) \/ (plan = <<>> /\ ~Budget0PlansNothing) IN
  IF idx >= Len(ch) \/ ~go THEN [plan |-> plan, idx |-> idx, bad |-> FALSE, skips |-> skips, mk |-> mk]
  ELSE LET blk == ch[idx + 1] IN
       IF off >= blk.used THEN PlanSealed(ch, b, idx + 1, 0, planned, plan, skips, Append(mk, KeyOfBlock(blk)))
       ELSE LET i == EntIdx(blk.es, off) IN
            IF i = 0 THEN PlanSealed(ch, b, idx + 1, 0, planned, plan, skips + 1, Append(mk, KeyOfBlock(blk)))   \* dead space: skip, free of charge
            ELSE IF i < 0 THEN [plan |-> plan, idx |-> idx, bad |-> TRUE, skips |-> skips, mk |-> mk]
            ELSE
            LET want0 == IF b < 0 THEN Inf ELSE b - planned
                req1  == ESize(blk.es[i])
                off2  == off + req1
                \* double peek: first entry < 128 bytes and a valid header follows inside `used`
                dbl   == blk.es[i][2] < 128 /\ off2 + Prefix <= blk.used /\ i < Len(blk.es)
                fin   == IF dbl THEN req1 + ESize(blk.es[i + 1]) ELSE req1
                want  == IF planned = 0 /\ off + Prefix <= blk.used THEN Max(want0, fin) ELSE want0
                end   == Min(blk.used, off + want)
            IN IF end > off
               THEN PlanSealed(ch, b, idx + 1, 0, planned + (end - off),
                               Append(plan, [k |-> idx, s |-> off, e |-> end, tail |-> FALSE]), skips, mk)
               ELSE PlanSealed(ch, b, idx + 1, 0, planned, plan, skips, mk)

(* step 4: the parser. ps = [out, tot, fi, fo, ftb, fto, saw, why, bad] *)
RECURSIVE ParseRange(_, _, _, _, _)
ParseRange(blk, rg, pos, ps, b) ==
  IF pos >= rg.e THEN [ps EXCEPT !.why = "end"]
  ELSE IF Len(ps.out) >= CapEntries THEN [ps EXCEPT !.why = "short"]
  ELSE IF pos + Prefix > rg.e THEN [ps EXCEPT !.why = "cut"]
  ELSE LET i == EntIdx(blk.es, pos) IN
       IF i = 0 THEN [ps EXCEPT !.why = "dead"]
       ELSE IF i < 0 THEN [ps EXCEPT !.why = "bad", !.bad = TRUE]
       ELSE LET e == blk.es[i]  nxt == pos + ESize(e) IN
            IF nxt > rg.e THEN [ps EXCEPT !.why = "cut"]
            ELSE IF b >= 0 /\ ps.tot + e[2] > b /\ ps.out # <<>> THEN [ps EXCEPT !.why = "short"]
            ELSE ParseRange(blk, rg, nxt,
                            IF rg.tail
                            THEN [ps EXCEPT !.out = Append(@, e), !.tot = @ + e[2], !.saw = TRUE, !.ftb = blk.id, !.fto = nxt]
                            ELSE [ps EXCEPT !.out = Append(@, e), !.tot = @ + e[2], !.fi = rg.k, !.fo = nxt],
                            b)

RECURSIVE ParsePlan(_, _, _, _, _, _)
ParsePlan(ch, w, plan, j, ps, b) ==
  IF j > Len(plan) \/ Len(ps.out) >= CapEntries \/ ps.bad THEN ps
  ELSE LET rg   == plan[j]
           blk  == IF rg.tail THEN w ELSE ch[rg.k + 1]
           ps1  == ParseRange(blk, rg, rg.s, ps, b)
           stop == ps1.why = "short" \/ (ps1.why # "dead" /\ ~rg.tail /\ rg.e < blk.used)
       IN IF stop /\ ~ParserContinuesAfterShortRange THEN ps1
          ELSE ParsePlan(ch, w, plan, j + 1, ps1, b)

NStr(n) == IF n = 0 THEN "0" ELSE IF n = 1 THEN "1" ELSE "2+"

BatchReadOutcome(t, b, ck) ==
  LET r0 == Hydrate(t, TRUE)
      ch == chain[t]
      w  == wr[t]
      pl == PlanSealed(ch, b, r0.ci, r0.co, 0, <<>>, 0, <<>>)
      ts == IF r0.tb = w.id THEN r0.to ELSE 0
      planTail == pl.idx >= Len(ch) /\ w.id # 0 /\ IdxOfId(ch, w.id) = 0 /\ ts < w.used
      plan == IF planTail THEN Append(pl.plan, [k |-> 0 - 1, s |-> ts, e |-> w.used, tail |-> TRUE]) ELSE pl.plan
      ps0 == [out |-> <<>>, tot |-> 0, fi |-> 0, fo |-> 0, ftb |-> 0, fto |-> 0, saw |-> FALSE, why |-> "none", bad |-> FALSE, mk |-> pl.mk]
      ps == ParsePlan(ch, w, plan, 1, ps0, b)
      n  == Len(ps.out)
      partial == pl.plan # <<>> /\ pl.plan[Len(pl.plan)].e < ch[pl.plan[Len(pl.plan)].k + 1].used
      lab == "br_" \o (IF ck THEN "" ELSE "peek_") \o "s" \o NStr(Len(pl.plan)) \o (IF partial THEN "p" ELSE "")
             \o (IF planTail THEN "_t" ELSE "") \o (IF pl.skips > 0 THEN "_deadskip" ELSE "") \o "_" \o ps.why
  IN
  IF pl.bad \/ ps.bad THEN [r |-> r0, ix |-> ix[t], dec |-> 0, rs |-> <<>>, lab |-> "br_bad", bad |-> TRUE, mk |-> pl.mk]
  ELSE IF n = 0 \/ ~ck THEN [r |-> r0, ix |-> ix[t], dec |-> 0, rs |-> ps.out, lab |-> lab, bad |-> FALSE, mk |-> pl.mk]
  ELSE \* step 5: commit. AtLeastOnce batch reads never write the index.
  LET rsp1 == IF ~Alo THEN r0.rsp ELSE IF r0.rsp + n >= Every THEN 0 ELSE r0.rsp + n IN
  IF ps.saw
  THEN [r |-> [r0 EXCEPT !.ci = Len(ch), !.co = 0, !.tb = ps.ftb, !.to = ps.fto, !.rsp = rsp1],
        ix |-> IF Alo THEN ix[t] ELSE <<0, Len(ch), ps.fto>>,
        dec |-> n, rs |-> ps.out, lab |-> lab, bad |-> FALSE, mk |-> pl.mk]
  ELSE [r |-> [r0 EXCEPT !.ci = ps.fi, !.co = ps.fo, !.rsp = rsp1],
        ix |-> IF Alo THEN ix[t] ELSE <<0, ps.fi, ps.fo>>,
        dec |-> n, rs |-> ps.out, lab |-> lab, bad |-> FALSE, mk |-> pl.mk]

-----------------------------------------------------------------------------------------
(* Why the contract refuses a read result (for the `viol` text only) *)
ReadWhy(t, kind, b, ck, rs) ==
  LET un == Unread(t) IN
  IF rs = <<>> /\ un # <<>> THEN (IF kind = "bread" THEN "C03: empty result although entries are unconsumed" ELSE "C01: read_next empty although entries are unconsumed")
  ELSE IF rs # <<>> /\ un = <<>> THEN "C01: entries delivered again"
  ELSE IF rs # <<>> /\ rs[1] # un[1] THEN
       (IF \E j \in 1 .. Len(un) : un[j] = rs[1] THEN "C01: entries skipped" ELSE "C01: entries delivered again or out of order")
  ELSE IF Len(rs) > Len(un) \/ rs # SubSeq(un, 1, Len(rs)) THEN "C01: result is not a prefix of the unconsumed entries"
  ELSE IF Len(rs) > maxBatch THEN "C03: entry cap exceeded"
  ELSE IF ~WithinBudget(rs, b) THEN "C03: byte budget exceeded"
  ELSE "C02: consuming read disagrees with the preceding peek"

ApplyRead(t, kind, b, ck, o, op) ==
  LET rs == Pairs2(o.rs)
      c  == IF o.rs = <<>> THEN cur[t] ELSE o.rs[1][3] - 1
  IN /\ rd' = [rd EXCEPT ![t] = o.r]
     /\ ix' = [ix EXCEPT ![t] = o.ix]
     /\ cnt' = [cnt EXCEPT ![t] = IF @ >= o.dec THEN @ - o.dec ELSE 0]
     /\ UNCHANGED <<chain, wr, al>>
     /\ InstallTk(MarkAll(Tk0, o.mk))
     /\ IF o.bad THEN viol' = "design: read position is not an entry boundary" /\ UNCHANGED avars
        ELSE IF kind = "read" THEN Refine(ReadNext(t, ck, c, rs), ReadWhy(t, kind, b, ck, rs))
        ELSE Refine(BatchRead(t, b, ck, c, rs), ReadWhy(t, kind, b, ck, rs))
     /\ Log(op, o.lab)

DReadNext(t, ck) ==
  ApplyRead(t, "read", 0, ck, ReadNextOutcome(t, ck), [op |-> "read", t |-> t, ckpt |-> ck])

DBatchRead(t, b, ck) ==
  ApplyRead(t, "bread", b, ck, BatchReadOutcome(t, b, ck),
            [op |-> "bread", t |-> t, budget |-> b, ckpt |-> ck, off |-> 0 - 1])

-----------------------------------------------------------------------------------------
(* walrus.rs startup_chore after a clean shutdown. The disk is what the blocks hold: a block  *)
(* without a valid first entry is indistinguishable from never-allocated units.               *)
DiskSet == {x \in UNION {{[t |-> t, b |-> chain[t][k]] : k \in 1 .. Len(chain[t])} \cup {[t |-> t, b |-> wr[t]]} : t \in Topics}
              : x.b.id # 0 /\ x.b.es # <<>>}

(* Files in name order, units in order. A zero unit is skipped and counts towards the ids    *)
(* only if a written block follows in the same file; a written block is sized by the          *)
(* next_block_start of its first header; used = the valid entries.                           *)
RECURSIVE Scan(_, _, _, _, _)
Scan(f, u, next, skipped, acc) ==
  IF f > al.f THEN [next |-> next, ch |-> acc]
  ELSE IF u >= UnitsPerFile THEN Scan(f + 1, 0, next, 0, acc)
  ELSE IF \E x \in DiskSet : x.b.f = f /\ x.b.u = u
  THEN LET x  == CHOOSE y \in DiskSet : y.b.f = f /\ y.b.u = u
           id == next + skipped
           nb == [x.b EXCEPT !.id = id, !.used = Bytes(x.b.es)]
       IN Scan(f, u + (nb.lim \div BlockSize), id + 1, 0, [acc EXCEPT ![x.t] = Append(@, nb)])
  ELSE Scan(f, u + 1, next, skipped + 1, acc)

Recovered == Scan(1, 0, 1, 0, [t \in Topics |-> <<>>])

(* entries consumed according to the index, as rebuild_topic_entry_counts_after_recovery counts *)
IndexConsumed(ch, p) ==
  LET n == Len(ch) IN
  IF p = <<>> \/ n = 0 THEN 0
  ELSE IF p[1] = 1
  THEN LET k == IdxOfId(ch, p[2]) IN
       IF k > 0 THEN SumLen(ch, k - 1) + (IF p[3] >= ch[k].used THEN Len(ch[k].es) ELSE CountUpTo(ch[k].es, p[3], 1, 0))
       ELSE SumLen(ch, CountLess(ch, p[2]))
  ELSE LET bi == Min(p[2], n) IN
       SumLen(ch, bi) + (IF bi < n THEN (IF p[3] >= ch[bi + 1].used THEN Len(ch[bi + 1].es) ELSE CountUpTo(ch[bi + 1].es, p[3], 1, 0)) ELSE 0)

(* the in-memory position startup_chore derives from the index (hydrated_from_index stays false) *)
StartupPos(ch, p) ==
  LET n == Len(ch) IN
  IF p = <<>> \/ n = 0 THEN [ci |-> 0, co |-> 0]
  ELSE LET k   == IF p[1] = 1 THEN IdxOfId(ch, p[2]) ELSE 0
           ib0 == IF p[1] = 1 THEN (IF k > 0 THEN k - 1 ELSE CountLess(ch, p[2])) ELSE p[2]
           off == IF p[1] = 1 /\ k = 0 THEN 0 ELSE p[3]
           ib  == Min(ib0, n)
       IN [ci |-> ib, co |-> IF ib < n THEN Min(off, ch[ib + 1].used) ELSE 0]

(* startup_chore and the trackers. Every file listed is registered (the allocator of the new    *)
(* instance has created its file before the scan, so that one is listed too); every recovered  *)
(* block is registered under its recovered id and counted in total_blocks of its file - in a    *)
(* process that had these files open before, on top of what was counted then; for every topic    *)
(* with an index entry the blocks in front of the recovered position (and the block at it when    *)
(* its offset is at the end) are reported as consumed; then every file seen is flush-checked.     *)
(* Nothing here sets locked or fully-allocated: what a previous instance of the same process      *)
(* left locked stays locked (a Writer has no Drop), a fresh process never sees a file as full.     *)
RecCount(rch, f) ==
  Cardinality(UNION {{<<t, i>> : i \in {j \in 1 .. Len(rch[t]) : rch[t][j].f = f}} : t \in Topics})

StartupMarks(ch, p) ==
  LET n == Len(ch)  sp == StartupPos(ch, p) IN
  IF p = <<>> \/ n = 0 THEN <<>>
  ELSE [i \in 1 .. sp.ci |-> KeyOfBlock(ch[i])]
       \o (IF sp.ci < n /\ sp.co >= ch[sp.ci + 1].used THEN <<KeyOfBlock(ch[sp.ci + 1])>> ELSE <<>>)

(* (the code walks a HashMap of topics and a HashSet of files: the order of the requests of one  *)
(* startup is arbitrary, their multiset is not; the harness compares multisets)                  *)
RECURSIVE StartupMarkAll(_, _, _)
StartupMarkAll(k, rch, ts) ==
  IF ts = {} THEN k
  ELSE LET t == CHOOSE x \in ts : TRUE IN
       StartupMarkAll(MarkAll(k, StartupMarks(rch[t], ix[t])), rch, ts \ {t})

RECURSIVE FlushAll(_, _, _)
FlushAll(k, f, n) == IF f > n THEN k ELSE FlushAll(TkFlushCheck(k, f), f + 1, n)

StartupTk(rch, fresh) ==
  LET nf   == al.f + 1
      base == [f \in 1 .. nf |->
                 LET old == IF fresh \/ f > Len(fs) THEN NoFile ELSE fs[f] IN
                 [old EXCEPT !.n = @ + RecCount(rch, f)]]
      k0   == [fs |-> base, bck |-> IF fresh THEN {} ELSE bck, rq |-> <<>>]
  IN FlushAll(StartupMarkAll(k0, rch, Topics), 1, nf)

Reopen(fresh) ==
  LET rec == Recovered IN
  /\ nre < MaxReopens
  /\ nre' = nre + 1
  /\ chain' = rec.ch
  /\ wr' = [t \in Topics |-> NoBlock]
  /\ rd' = [t \in Topics |-> LET sp == StartupPos(rec.ch[t], ix[t]) IN [NoRd EXCEPT !.ci = sp.ci, !.co = sp.co]]
  /\ cnt' = [t \in Topics |-> LET tot == SumLen(rec.ch[t], Len(rec.ch[t]))
                                  con == IndexConsumed(rec.ch[t], ix[t])
                              IN IF tot >= con THEN tot - con ELSE 0]
  /\ al' = [id |-> rec.next, f |-> al.f + 1, u |-> 0]     \* a new allocator always starts a new file
  /\ InstallTk(StartupTk(rec.ch, fresh))
  /\ UNCHANGED ix
  /\ Refine(Restart(0), "C06: restart not allowed")
  /\ Log([op |-> "reopen", i |-> 0, proc |-> IF fresh THEN "new" ELSE "same", ro |-> TRUE],
         IF fresh THEN "reopen_new" ELSE "reopen")

DReopen    == Reopen(FALSE)     \* drop the instance and open it again in the same process
DReopenNew == Reopen(TRUE)      \* ... in a fresh process

-----------------------------------------------------------------------------------------
(* flush_check found a file ready and sent it to the deletion channel (the cfg(walrus_verif)     *)
(* `reclaim_requested` event): the contract's Reclaim with the acknowledged entries stored in     *)
(* that file, as <<topic, position in the contract log>>.                                       *)
BlocksOf(t) == {chain[t][k] : k \in 1 .. Len(chain[t])} \cup (IF wr[t].id # 0 THEN {wr[t]} ELSE {})
StoredIn(f) ==
  UNION {UNION {{<<t, b.es[i][3]>> : i \in 1 .. Len(b.es)} : b \in {x \in BlocksOf(t) : x.f = f}} : t \in Topics}

DReclaim ==
  /\ rq # <<>>
  /\ viol = ""
  /\ rq' = Tail(rq)
  /\ Refine(Reclaim(StoredIn(Head(rq))),
            "C12: a file was handed to the deleter while an acknowledged entry stored in it is not durably consumed")
  /\ UNCHANGED <<chain, wr, rd, ix, cnt, al, fs, bck, lrq, nops, nre, lastOp, hist>>

(* what the contract demands of a request, and the weaker "consumed in the running process"      *)
ReclaimAllowed(stored)   == \A p \in stored : p[2] <= lb[p[1]] /\ p[2] <= cur[p[1]] - slack[p[1]]
ConsumedInMemory(stored) == \A p \in stored : p[2] <= cur[p[1]] - slack[p[1]]

-----------------------------------------------------------------------------------------
DInit ==
  /\ \E m \in ModeSet : mode = [i \in Instances |-> m[1]] /\ pe = [i \in Instances |-> m[2]]
  /\ maxBatch = CapEntries
  /\ log = [t \in Topics |-> <<>>]
  /\ cur = [t \in Topics |-> 0]
  /\ lb  = [t \in Topics |-> 0]
  /\ slack = [t \in Topics |-> 0]
  /\ rn  = [t \in Topics |-> 0]
  /\ clean = [t \in Topics |-> TRUE]
  /\ countKnown = [t \in Topics |-> TRUE]
  /\ cleanKnown = [t \in Topics |-> TRUE]
  /\ lastPeek = <<>>
  /\ reclaimed = {}
  /\ chain = [t \in Topics |-> <<>>]
  /\ wr = [t \in Topics |-> NoBlock]
  /\ rd = [t \in Topics |-> NoRd]
  /\ ix = [t \in Topics |-> <<>>]
  /\ cnt = [t \in Topics |-> 0]
  /\ al = [id |-> 1, f |-> 1, u |-> 0]
  /\ fs = <<NoFile>>           \* the first startup_chore lists (and registers) the file the allocator created
  /\ bck = {}
  /\ rq = <<>> /\ lrq = <<>>
  /\ nops = 0 /\ nre = 0
  /\ viol = ""
  /\ lastOp = "init"
  /\ hist = <<>>

Go == viol = "" /\ nops < MaxOps /\ rq = <<>>     \* requests are discharged before the next call
OpAppend    == Go /\ \E t \in Topics, s \in Sizes : DAppend(t, s) /\ UNCHANGED nre
OpBatch     == Go /\ \E t \in Topics, q \in BatchShapes : DBatch(t, q) /\ UNCHANGED nre
OpBatchFail == Go /\ \E t \in Topics, q \in FailShapes : DBatchFail(t, q) /\ UNCHANGED nre
OpReadNext  == Go /\ \E t \in Topics, ck \in Cks : DReadNext(t, ck) /\ UNCHANGED nre
OpBatchRead == Go /\ \E t \in Topics, b \in Budgets, ck \in Cks : DBatchRead(t, b, ck) /\ UNCHANGED nre
OpReopen    == Go /\ DReopen
OpReopenNew == Go /\ NewProcReopen /\ DReopenNew
OpReclaim   == DReclaim /\ UNCHANGED nre

DNext == OpAppend \/ OpBatch \/ OpBatchFail \/ OpReadNext \/ OpBatchRead \/ OpReopen \/ OpReopenNew \/ OpReclaim
DSpec == DInit /\ [][DNext]_vars

-----------------------------------------------------------------------------------------
(* Invariants tying the design to the contract *)
Refines == viol = ""

(* C15: the entry count is appended minus consumed whenever the contract determines it *)
InvCount == \A t \in Topics : (countKnown[t] /\ slack[t] = 0) => cnt[t] = Len(log[t]) - cur[t]

(* entries in front of the in-memory read position *)
MemConsumed(t, r) ==
  LET ch == chain[t]  n == Len(ch) IN
  IF r.ci < n THEN SumLen(ch, r.ci) + CountUpTo(ch[r.ci + 1].es, r.co, 1, 0)
  ELSE SumLen(ch, n) + (IF wr[t].id # 0 /\ r.tb = wr[t].id THEN CountUpTo(wr[t].es, r.to, 1, 0) ELSE 0)

(* C01: once hydrated, the reader stands exactly behind the consumed entries (before the     *)
(* first read after a restart: wherever either read path would resume lies in lb .. cur)      *)
InvCursor == \A t \in Topics :
  IF rd[t].hy \/ ix[t] = <<>> THEN MemConsumed(t, rd[t]) \in Cands(t)
  ELSE MemConsumed(t, Hydrate(t, FALSE)) \in Cands(t) /\ MemConsumed(t, Hydrate(t, TRUE)) \in Cands(t)
InvCursorExact == \A t \in Topics : (rd[t].hy /\ slack[t] = 0) => MemConsumed(t, rd[t]) = cur[t]

(* every stored entry is where the contract log says, in order: chain then writer block *)
StoredSeq(t) ==
  LET RECURSIVE Cat(_)
      Cat(k) == IF k = 0 THEN <<>> ELSE Cat(k - 1) \o chain[t][k].es
  IN Cat(Len(chain[t])) \o wr[t].es
InvStored == \A t \in Topics : Pairs2(StoredSeq(t)) = log[t]

(* C06/C09 (StrictlyAtOnce): what a restart at this point would resume from is the consumed    *)
(* position; AtLeastOnce: not behind the durable lower bound, never ahead of the consumer.      *)
DurablePos(t) ==
  LET rch == Recovered.ch[t] IN IndexConsumed(rch, ix[t])
InvDurable == \A t \in Topics :
  IF Strict(t) THEN DurablePos(t) = cur[t]
  ELSE DurablePos(t) >= lb[t] /\ DurablePos(t) <= cur[t]

(* C12 at the design level: a block whose flag is set under its current key has been walked     *)
(* past by the reader in this process or lies in front of the recovered index position, i.e. it  *)
(* is consumed in memory (StrictlyAtOnce: durably). The converse direction of the bookkeeping:     *)
(* the checkpoint counter never exceeds the number of flagged keys of the file unless the          *)
(* historical defect is switched on.                                                              *)
InvCkptCounter == ~CkptCountedOnEveryReport =>
  \A f \in 1 .. Len(fs) : fs[f].c = Cardinality({k \in bck : k[1] = f})

TypeOKD ==
  /\ \A t \in Topics : rd[t].ci \in 0 .. Len(chain[t]) /\ cnt[t] \in Nat
  /\ al.u \in 0 .. UnitsPerFile
  /\ Len(fs) = al.f
  /\ \A f \in 1 .. Len(fs) : fs[f].l \in 0 .. 64 /\ fs[f].c \in Nat /\ fs[f].n \in Nat /\ fs[f].full \in BOOLEAN
=========================================================================================
