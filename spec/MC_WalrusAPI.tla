--------------------------------- MODULE MC_WalrusAPI ---------------------------------
(***************************************************************************************)
(* Bounded model of the contract itself: every call with every argument and every       *)
(* result the contract allows. TLC checks that the listed properties are theorems of     *)
(* the contract (so that "accepted by the contract" really means the property held on    *)
(* the validated execution), and that every action is exercised (coverage).              *)
(***************************************************************************************)
EXTENDS WalrusAPI, TLC, SequencesExt

CONSTANTS MaxLen, Sizes, Budgets

MCTopics == {"a"}
MCInstOf(t) == 0
MCBudgets == {0, 2, -1}

VARIABLES delivered,  \* [t -> Seq(entry)] returned by consuming reads since the last restart
          base        \* [t -> Nat] cursor at the last restart
mvars == <<avars, delivered, base>>

NewKey(t) == (IF t = "a" THEN 100 ELSE 200) + Len(log[t]) + 1
Room(t, n) == Len(log[t]) + n <= MaxLen

MCInit ==
  /\ Init
  /\ delivered = [t \in Topics |-> <<>>]
  /\ base = [t \in Topics |-> 0]

(* c: the position the read found the consumer at; it fixes `base` if a restart left it open *)
Deliver(t, ck, c, rs) ==
  IF ck /\ rs # <<>>
  THEN /\ delivered' = [delivered EXCEPT ![t] = @ \o rs]
       /\ base' = IF slack[t] > 0 THEN [base EXCEPT ![t] = c] ELSE base
  ELSE UNCHANGED <<delivered, base>>

MCAppend  == \E t \in Topics, s \in Sizes : Room(t, 1) /\ AppendOk(t, <<NewKey(t), s>>) /\ UNCHANGED <<delivered, base>>
MCFail    == \E t \in Topics : AppendFail(t) /\ UNCHANGED <<delivered, base>>
MCBatch   == \E t \in Topics, s1 \in Sizes, s2 \in Sizes :
               /\ Room(t, 2)
               /\ BatchOk(t, <<<<NewKey(t), s1>>, <<NewKey(t) + 1, s2>>>>)
               /\ UNCHANGED <<delivered, base>>
MCRead    == \E t \in Topics, ck \in BOOLEAN : \E c \in Cands(t) :
               LET rs == IF UnreadFrom(t, c) = <<>> THEN <<>> ELSE <<Head(UnreadFrom(t, c))>> IN
               ReadNext(t, ck, c, rs) /\ Deliver(t, ck, c, rs)
MCBRead   == \E t \in Topics, b \in Budgets, ck \in BOOLEAN, k \in 0 .. maxBatch : \E c \in Cands(t) :
               /\ k <= Len(UnreadFrom(t, c))
               /\ LET rs == SubSeq(UnreadFrom(t, c), 1, k) IN BatchRead(t, b, ck, c, rs) /\ Deliver(t, ck, c, rs)
MCORead   == \E t \in Topics, b \in Budgets, ck \in BOOLEAN, from \in 1 .. MaxLen, k \in 0 .. 2 :
               /\ from + k - 1 <= Len(log[t])
               /\ OffsetRead(t, b, ck, 0, SubSeq(log[t], from, from + k - 1))
               /\ UNCHANGED <<delivered, base>>
MCMark    == \E t \in Topics, v \in BOOLEAN : Mark(t, v) /\ UNCHANGED <<delivered, base>>
MCRestart == /\ Restart(0)
             /\ delivered' = [t \in Topics |-> <<>>]
             /\ base' = cur
MCCrash   == \E t \in Topics, kind \in {"none", "append", "batch", "read"}, atomic \in BOOLEAN :
               LET inf == CASE kind = "none"   -> <<>>
                            [] kind = "append" -> <<"append", t, <<<<NewKey(t), 1>>>>>>
                            [] kind = "batch"  -> <<"batch", t, <<<<NewKey(t), 1>>, <<NewKey(t) + 1, 1>>>>>>
                            [] kind = "read"   -> <<"read", t, 1>>
               IN /\ (kind \in {"append", "batch"} => Room(t, 2))
                  /\ \E kept \in KeptChoices(inf, atomic) : Crash(0, inf, atomic, kept)
                  /\ delivered' = [u \in Topics |-> <<>>]
                  /\ base' = cur'
MCReclaim == \E t \in Topics, p \in 1 .. MaxLen :
               /\ p <= Len(log[t])
               /\ Reclaim({<<t, p>>})
               /\ UNCHANGED <<delivered, base>>

MCNext == MCAppend \/ MCFail \/ MCBatch \/ MCRead \/ MCBRead \/ MCORead \/ MCMark
          \/ MCRestart \/ MCCrash \/ MCReclaim
MCSpec == MCInit /\ [][MCNext]_mvars

(* ---- the properties, as theorems of the contract ---- *)
(* C01/C05: within a process lifetime the consuming reads of a topic return exactly the    *)
(* entries base+1 .. cur of its log: each once, in order, nothing skipped.                *)
InvDelivered == \A t \in Topics : IF slack[t] > 0 THEN delivered[t] = <<>>
                                   ELSE delivered[t] = SubSeq(log[t], base[t] + 1, cur[t])
(* C04/C07: acknowledged entries are never removed or reordered. *)
PropAppendOnly == [][\A t \in Topics : IsPrefix(log[t], log'[t])]_mvars
(* C06/C09: a restart never skips (cursor never moves forward past what was delivered),     *)
(* and in StrictlyAtOnce mode it does not move at all unless a read was in flight.        *)
PropNoSkip == [][\A t \in Topics : cur'[t] - slack'[t] > cur[t] => (Len(delivered'[t]) > Len(delivered[t]) \/ delivered'[t] = <<>>)]_mvars
(* C12 *)
InvReclaim == InvReclaimedConsumed
(* C03 is built into LegalBatch; this makes TLC confirm that budget 0 still progresses.   *)
InvLb == \A t \in Topics : lb[t] <= cur[t]
=========================================================================================
