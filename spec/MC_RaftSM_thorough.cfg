SPECIFICATION MCSpec
CONSTANTS
  Nodes <- MCNodes
  SnapshotSource = "app"
  RestoreOfMapBytes = "error"
  MaxCmds = 5
INVARIANTS InvConverged InvInstallSucceeds InvMembership
VIEW View
CHECK_DEADLOCK FALSE
