------------------------------ MODULE Trace_LogStore ------------------------------
(***************************************************************************************)
(* Trace validation for C21: executions of the real WalLogStore / WriteAheadLog / peer   *)
(* address functions recorded by /verif/harness/logstore (ndjson, one event per call      *)
(* with its arguments and results) are checked against the contract LogStore.            *)
(*                                                                                     *)
(* The file holds many independent executions ("groups"), each starting with a `reset`    *)
(* event. A group is accepted iff some behaviour of the contract consumes all its events.  *)
(* `Abandon` lets TLC continue with the next group after a rejection; only states reached   *)
(* without skipping print their position (`Report`), so the runner knows the longest        *)
(* matched prefix per group. Events `panic`, `hang`, `died`, a failed (re)open, an           *)
(* observation that returned an error or a payload the harness never wrote ("foreign")      *)
(* match no action.                                                                     *)
(***************************************************************************************)
EXTENDS LogStore, Json, IOUtils, TLC

Rec == ndJsonDeserialize(IOEnv.TRACE)
N == Len(Rec)

VARIABLES l,   \* next event to consume
          ok   \* no event of the current group was skipped

tvars == <<cvars, l, ok>>

Ev == Rec[l]

Boundary(k) == k = N + 1 \/ Rec[k].ev = "reset"
RECURSIVE NextBoundary(_)
NextBoundary(k) == IF Boundary(k) THEN k ELSE NextBoundary(k + 1)

BlankNext ==
  /\ vote' = None /\ committed' = None /\ purged' = None
  /\ log' = {} /\ peers' = {}

TInit == l = 1 /\ ok = TRUE /\ Init

Pairs(m) == [j \in 1 .. Len(m) |-> <<m[j][1], m[j][2]>>]

TOpen   == Ev.ev = "open" /\ Ev.res = "ok" /\ UNCHANGED cvars
TReopen == Ev.ev = "reopen" /\ Ev.res = "ok" /\ Reopen(Ev.kind)

TAppend   == Ev.ev = "append" /\ IF Ev.res = "ok" THEN AppendEntries(Ev.es) ELSE AppendEntriesFailed(Ev.es)
TTruncate == Ev.ev = "truncate" /\ IF Ev.res = "ok" THEN Truncate(Ev.at) ELSE TruncateFailed(Ev.at)
TPurge    == Ev.ev = "purge" /\ IF Ev.res = "ok" THEN Purge(Ev.at) ELSE PurgeFailed(Ev.at)
TSaveVote == Ev.ev = "save_vote" /\ IF Ev.res = "ok" THEN SaveVote(Ev.v) ELSE SaveVoteFailed(Ev.v)
TSaveCommitted ==
  Ev.ev = "save_committed" /\ IF Ev.res = "ok" THEN SaveCommitted(Ev.c) ELSE SaveCommittedFailed(Ev.c)
TRecordPeer ==
  Ev.ev = "record_peer" /\ IF Ev.res = "ok" THEN RecordPeer(Ev.id, Ev.addr) ELSE RecordPeerFailed(Ev.id, Ev.addr)

TReadVote      == Ev.ev = "read_vote" /\ Ev.st = "ok" /\ ReadVote(Ev.v)
TReadCommitted == Ev.ev = "read_committed" /\ Ev.st = "ok" /\ ReadCommitted(Ev.c)
TGetLogState   == Ev.ev = "get_log_state" /\ Ev.st = "ok" /\ GetLogState(Ev.purged, Ev.last)
TGetEntries    == Ev.ev = "get_entries" /\ Ev.st = "ok" /\ GetEntries(Ev.lo, Ev.hi, Ev.es)
TLoadPeers     == Ev.ev = "load_peers" /\ LoadPeers(Pairs(Ev.m))

(* a call that was running when the process was killed: not acknowledged, either outcome *)
TInflight ==
  /\ Ev.ev = "inflight"
  /\ CASE Ev.call = "append"         -> AppendEntriesFailed(Ev.es)
       [] Ev.call = "truncate"       -> TruncateFailed(Ev.at)
       [] Ev.call = "purge"          -> PurgeFailed(Ev.at)
       [] Ev.call = "save_vote"      -> SaveVoteFailed(Ev.v)
       [] Ev.call = "save_committed" -> SaveCommittedFailed(Ev.c)
       [] Ev.call = "record_peer"    -> RecordPeerFailed(Ev.id, Ev.addr)

(* notes of the harness carry no obligation *)
TNote == Ev.ev = "note" /\ UNCHANGED cvars

Regular ==
  /\ l <= N
  /\ \/ TOpen \/ TReopen \/ TAppend \/ TTruncate \/ TPurge \/ TSaveVote \/ TSaveCommitted \/ TRecordPeer
     \/ TReadVote \/ TReadCommitted \/ TGetLogState \/ TGetEntries \/ TLoadPeers \/ TInflight \/ TNote
  /\ l' = l + 1
  /\ UNCHANGED ok

Reset ==
  /\ l <= N
  /\ Ev.ev = "reset"
  /\ BlankNext
  /\ ok' = TRUE
  /\ l' = l + 1

Abandon ==
  /\ l <= N
  /\ Ev.ev # "reset"
  /\ l' = NextBoundary(l)
  /\ ok' = FALSE
  /\ BlankNext

TNext == Regular \/ Reset \/ Abandon
TSpec == TInit /\ [][TNext]_tvars

(* Always true. Prints the position reached by every state that got there without skipping. *)
Report == ok => PrintT(<<"AT", l>>)

(* Diagnostic variant: also prints the contract state. *)
ReportState == ok => PrintT(<<"ST", l, ToJson([vote |-> vote, committed |-> committed, purged |-> purged,
                                              log |-> log, peers |-> peers])>>)
=============================================================================
