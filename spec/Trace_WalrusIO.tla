-------------------------------- MODULE Trace_WalrusIO --------------------------------
(***************************************************************************************)
(* Conformance of the real I/O sequence to the durability design: the stream of hook     *)
(* events recorded from SyncEach workloads (kind + file class, in program order of the    *)
(* caller thread) must be a behaviour of WalrusIO's step protocol. Operation boundaries   *)
(* (start / acknowledge) are not logged: they are silent steps that TLC infers.           *)
(* A rejected stream means the code no longer issues its durable steps in the order the   *)
(* design (and therefore the model-checked durability argument) assumes: MODEL-DRIFT.     *)
(***************************************************************************************)
EXTENDS WalrusIO, Json, IOUtils, TLC

Rec == ndJsonDeserialize(IOEnv.TRACE)
N == Len(Rec)
VARIABLES l, ok
tvars == <<vars, l, ok>>
Ev == Rec[l]

Boundary(k) == k = N + 1 \/ Rec[k].k = "reset"
RECURSIVE NextBoundary(_)
NextBoundary(k) == IF Boundary(k) THEN k ELSE NextBoundary(k + 1)

Others == <<walDur, walPend, written, acked, idxDur, idxVol, tmp, tmpSynced, curAck, down, recWal, recCur>>

(* further entries of the same batch append *)
AWriteMore == Up /\ pc = "a_flush"
              /\ written' = written + 1
              /\ walDur' = (IF OSync THEN written + 1 ELSE walDur)
              /\ walPend' = (IF OSync THEN walPend ELSE walPend \cup {written + 1})
              /\ UNCHANGED <<pc, acked, idxDur, idxVol, tmp, tmpSynced, curAck, down, recWal, recCur>>
(* an index persist that does not consume (provisional tail position) *)
RStartAny == Up /\ pc = "idle" /\ pc' = "r_tmp" /\ UNCHANGED Others

Silent == (AStart \/ AAck \/ RStartAny \/ RAck) /\ UNCHANGED <<l, ok>>

Consume(A) == l <= N /\ Ev.k # "reset" /\ A /\ l' = l + 1 /\ UNCHANGED ok

Events ==
  \/ Consume(Ev.k = "write" /\ Ev.f = "wal" /\ (AWrite \/ AWriteMore))
  \/ Consume(Ev.k = "fsync" /\ Ev.f = "wal" /\ (AFlush \/ (pc = "idle" /\ UNCHANGED vars)))
  \/ Consume(Ev.k = "write_file" /\ Ev.f = "idx" /\ RTmp)
  \/ Consume(Ev.k = "fsync" /\ Ev.f = "idx" /\ RTmpSync)
  \/ Consume(Ev.k = "rename" /\ Ev.f = "idx" /\ RRename)
  \/ Consume(Ev.k = "dirsync" /\ (RDirSync \/ NewFile))

ResetVars ==
  /\ pc' = "idle" /\ walDur' = 0 /\ walPend' = {} /\ written' = 0 /\ acked' = 0
  /\ idxDur' = 0 /\ idxVol' = 0 /\ tmp' = 0 /\ tmpSynced' = FALSE /\ curAck' = 0
  /\ down' = "up" /\ recWal' = {} /\ recCur' = 0

Reset == l <= N /\ Ev.k = "reset" /\ ResetVars /\ l' = l + 1 /\ ok' = TRUE
Abandon == l <= N /\ Ev.k # "reset" /\ ResetVars /\ l' = NextBoundary(l) /\ ok' = FALSE

TInit == Init /\ l = 1 /\ ok = TRUE
TNext == Silent \/ Events \/ Reset \/ Abandon
TSpec == TInit /\ [][TNext]_tvars
Report == ok => PrintT(<<"AT", l>>)
========================================================================================
