------------------------------ MODULE MarkerStore ------------------------------
(***************************************************************************************)
(* Design spec (implementation-shaped) of the clean/dirty marker persistence protocol of  *)
(* the walrus engine: src/wal/runtime/topic_clean.rs + Walrus::drop / Walrus::with_paths   *)
(* in src/wal/runtime/walrus.rs, transcribed statement by statement.  Property C17.        *)
(*                                                                                     *)
(*   TopicCleanState      two atomics per topic: generation, is_clean                      *)
(*     update(v)          if is_clean = v: nothing.  Else generation.fetch_add(1) THEN      *)
(*                        is_clean.store(v)  (two steps: Call, CallEnd) then                *)
(*                        persist_tx.send(topic)                                         *)
(*     snapshot()         generation.load THEN is_clean.load (two steps: PLoadGen,          *)
(*                        PLoadClean) - a snapshot taken while an update is between its two   *)
(*                        steps, or around a whole update, pairs a generation with the flag   *)
(*                        of another generation ("torn", predicate TornNow)                 *)
(*   CleanMarkerStore     smap (RwLock<HashMap>), closed, and the marker FILE: one map;      *)
(*                        persist_updates_inner runs under the write lock (one step):        *)
(*                        empty && !final -> return; closed -> return; final -> closed:=true; *)
(*                        per record: existing.generation > record.generation -> skip, else   *)
(*                        insert; persist_map writes the WHOLE map (tmp + rename = atomic      *)
(*                        replacement) - also when every record was skipped                   *)
(*   persister thread     one per instance, loop: recv_timeout (PWake: drains the channel;     *)
(*                        PDisc: Disconnected once the tracker - owner of the Sender - is       *)
(*                        gone and the channel is empty); weak.upgrade() (PUpgrade: succeeds     *)
(*                        while the Walrus value or the thread itself holds a strong            *)
(*                        reference); persist_topics = snapshot of the pending topics, gate       *)
(*                        tc_before_persist (pc "gate"), persist_updates (PPersist), gate          *)
(*                        tc_after_persist (pc "after"); drop(strong), pending.clear() (PLoop)     *)
(*   Walrus::drop         tracker.flush(): snapshot of ALL states + persist_final (Drop)          *)
(*   Walrus::with_paths   CleanMarkerStore::new_in reads the file into a fresh store,             *)
(*                        TopicCleanTracker::new spawns the persister, hydrate copies every        *)
(*                        record into a fresh tracker (Open)                                     *)
(*                                                                                     *)
(* Instances are successive in ONE process (reopen = Drop then Open); the persister of an   *)
(* instance may outlive it.  One sequential client (concurrent callers are C05's business).  *)
(*                                                                                     *)
(* Steps that are atomic here although they are several statements in the code, and why      *)
(* that loses no behaviour:                                                              *)
(*   - flush = snapshot of all states + persist_final in one step: the snapshot reads only    *)
(*     tracker atomics, which only the client thread writes and the client is inside drop;      *)
(*     a persister's persist_updates neither reads nor writes them, so it commutes with the      *)
(*     snapshot and may be ordered before the whole step;                                      *)
(*   - is_clean.store + persist_tx.send in one step (CallEnd): the only thing the send enables    *)
(*     is PWake, which touches nothing the store touches;                                      *)
(*   - the is_clean.load guarding update() together with fetch_add (Call): the client is the      *)
(*     only writer of the atomics;                                                            *)
(*   - recv + try_recv drain in one step (PWake): a message sent later stays in the channel;       *)
(*   - persist_map (tmp write, fsync, rename, directory fsync) in one step: within a store it runs      *)
(*     under the write lock, across stores see invariant SingleWriter.                                *)
(*                                                                                     *)
(* Contract.  `want[t]` is the state the last returned call established (WalrusAPI: `clean`,   *)
(* set by AppendOk/Mark, kept by Restart, observed by IsClean; cleanKnown is TRUE throughout     *)
(* because there is no crash here).  C17 == whenever the client is between two calls of a live   *)
(* instance, the instance reports `want` for every topic - in particular right after an Open.     *)
(*                                                                                     *)
(* Deviation switches (each must make TLC find a C17 counterexample, MC_MarkerStore_defect_x.cfg): *)
(*   CloseOnFinalFlush = FALSE   the code before 9b001f2 (no `closed`)                          *)
(*   FlushOnDrop       = FALSE   the code before 547d40c (no flush at all)                       *)
(*   FlushByLastRef    = TRUE    the code of 547d40c (before 1c297e0): the flush is in the          *)
(*                               tracker's own Drop, i.e. run by whichever thread drops the last    *)
(*                               strong reference - possibly the persister, after a successor        *)
(*                               already read the file                                           *)
(*   GenGuard          = FALSE   no generation guard (before 1c297e0)                             *)
(* Scheduler:                                                                             *)
(*   Prompt = FALSE  every interleaving of the client's and the persisters' steps.                 *)
(*   Prompt = TRUE   "prompt snapshot": persister threads run, with priority over the client,       *)
(*                   until they are parked at the gate tc_before_persist, have exited, or wait for    *)
(*                   a notification; only WHEN A PARKED PERSISTER WRITES is scheduled freely.  These    *)
(*                   are the schedules the harness can enforce on the real engine (it controls the       *)
(*                   gate, not the wake-up), a subset of the behaviours of Prompt = FALSE.               *)
(***************************************************************************************)
EXTENDS Naturals, Sequences, FiniteSets, TLC

CONSTANTS
  Topics,             \* set of topic names (strings)
  MaxInst,            \* successive instances in the process
  MaxCalls,           \* client calls (append / mark_topic_clean / mark_topic_dirty) in total
  FlushOnDrop, FlushByLastRef, GenGuard, CloseOnFinalFlush,
  Prompt,
  KeepHist            \* record the behaviour in `hist` (emission runs)

VARIABLES
  cur,      \* index of the newest instance (1 .. MaxInst)
  live,     \* the Walrus value of instance cur exists
  st,       \* [instance -> [topics present in the tracker map -> [g, c]]]   the atomics
  smap,     \* [instance -> map]   CleanMarkerStore.store
  closed,   \* [instance -> BOOLEAN]  CleanMarkerStore.closed
  file,     \* the marker file: one map
  chan,     \* [instance -> set of topics]   messages in the mpsc channel
  ppc,      \* [instance -> "none" | "wait" | "upg" | "snap" | "gate" | "after" | "exit"]  persister thread
  pend,     \* [instance -> set of topics]   the thread's `pending`
  upd,      \* [instance -> map]   `updates` built by persist_topics
  lgen,     \* [instance -> <<>> | <<t, g>>]   generation loaded, is_clean not yet loaded
  ptorn,    \* [instance -> set of topics]  (ghost) topics whose record in upd is torn
  strong,   \* [instance -> BOOLEAN]  the thread holds the upgraded Arc
  cpc,      \* client: <<>> between calls | <<kind, t, v>> inside update() after the fetch_add
  want,     \* [topic -> BOOLEAN]  contract: state established by the last returned call
  ncalls,
  fresh,    \* no call since the last Open (emission point)
  hist      \* the behaviour so far (hidden by VIEW)

svars == <<cur, live, st, smap, closed, file, chan, ppc, pend, upd, lgen, ptorn, strong, cpc, want, ncalls, fresh>>
vars  == <<svars, hist>>

Insts == 1 .. MaxInst
Rec(g, c)  == [g |-> g, c |-> c]
DefaultRec == Rec(0, TRUE)                                   \* CleanMarkerRecord::default()
EmptyMap   == [x \in {} |-> DefaultRec]
Put(m, t, r) == [x \in DOMAIN m \cup {t} |-> IF x = t THEN r ELSE m[x]]
(* what topic_is_clean answers for a tracker map / what a successor would answer for a file    *)
RepOf(m)   == [t \in Topics |-> IF t \in DOMAIN m THEN m[t].c ELSE TRUE]
LiveK(k)   == k = cur /\ live
H(e)       == hist' = IF KeepHist THEN Append(hist, e) ELSE hist

(* persist_updates_inner's loop + the map persist_map then writes *)
Apply(m, ups) ==
  [t \in DOMAIN m \cup DOMAIN ups |->
     IF t \in DOMAIN ups /\ ~(GenGuard /\ t \in DOMAIN m /\ m[t].g > ups[t].g) THEN ups[t] ELSE m[t]]

PersistEffect(k, ups, final) ==
  IF (DOMAIN ups = {} /\ ~final) \/ closed[k]
  THEN UNCHANGED <<smap, closed, file>>
  ELSE /\ closed' = [closed EXCEPT ![k] = final /\ CloseOnFinalFlush]
       /\ IF DOMAIN ups = {}
          THEN UNCHANGED <<smap, file>>
          ELSE /\ smap' = [smap EXCEPT ![k] = Apply(smap[k], ups)]
               /\ file' = Apply(smap[k], ups)

FlushEffect(k) == PersistEffect(k, st[k], TRUE)               \* TopicCleanTracker::flush

-----------------------------------------------------------------------------------------
(* scheduler *)
Busy(k) == \/ ppc[k] \in {"upg", "snap", "after"}
           \/ ppc[k] = "wait" /\ (chan[k] # {} \/ ~LiveK(k))
Quiet    == \A k \in Insts : ~Busy(k)
PMayStep == ~Prompt \/ cpc = <<>>
CMayStep == ~Prompt \/ Quiet
GateMay  == ~Prompt \/ (cpc = <<>> /\ Quiet)

-----------------------------------------------------------------------------------------
Init ==
  /\ cur = 1 /\ live = TRUE
  /\ st = [k \in Insts |-> EmptyMap]
  /\ smap = [k \in Insts |-> EmptyMap]
  /\ closed = [k \in Insts |-> FALSE]
  /\ file = EmptyMap
  /\ chan = [k \in Insts |-> {}]
  /\ ppc = [k \in Insts |-> IF k = 1 THEN "wait" ELSE "none"]
  /\ pend = [k \in Insts |-> {}]
  /\ upd = [k \in Insts |-> EmptyMap]
  /\ lgen = [k \in Insts |-> <<>>]
  /\ ptorn = [k \in Insts |-> {}]
  /\ strong = [k \in Insts |-> FALSE]
  /\ cpc = <<>>
  /\ want = [t \in Topics |-> TRUE]
  /\ ncalls = 0
  /\ fresh = FALSE
  /\ hist = <<>>

(* ---- client: append_for_topic (mark_dirty), mark_topic_clean, mark_topic_dirty ---- *)
(* update_state: get_or_insert_state, then update(): equal -> the call returns; else fetch_add  *)
Call(kind, t, v) ==
  /\ cpc = <<>> /\ live /\ ncalls < MaxCalls /\ CMayStep
  /\ ncalls' = ncalls + 1 /\ fresh' = FALSE
  /\ LET s0 == IF t \in DOMAIN st[cur] THEN st[cur] ELSE Put(st[cur], t, DefaultRec)
     IN IF s0[t].c = v
        THEN /\ st' = [st EXCEPT ![cur] = s0]
             /\ want' = [want EXCEPT ![t] = v]
             /\ cpc' = <<>>
             /\ H(<<kind, t, v, RepOf(s0)>>)
        ELSE /\ st' = [st EXCEPT ![cur] = Put(s0, t, Rec(s0[t].g + 1, s0[t].c))]
             /\ cpc' = <<kind, t, v>>
             /\ UNCHANGED <<want, hist>>
  /\ UNCHANGED <<cur, live, smap, closed, file, chan, ppc, pend, upd, lgen, ptorn, strong>>

CAppend(t)  == Call("append", t, FALSE)
CMark(t, v) == Call("mark", t, v)

(* is_clean.store(v); persist_tx.send(topic); the call returns *)
CallEnd ==
  /\ cpc # <<>>
  /\ LET t == cpc[2]
         v == cpc[3]
         s1 == Put(st[cur], t, Rec(st[cur][t].g, v))
     IN /\ st' = [st EXCEPT ![cur] = s1]
        /\ chan' = [chan EXCEPT ![cur] = @ \cup {t}]
        /\ want' = [want EXCEPT ![t] = v]
        /\ H(<<cpc[1], t, v, RepOf(s1)>>)
  /\ cpc' = <<>>
  /\ UNCHANGED <<cur, live, smap, closed, file, ppc, pend, upd, lgen, ptorn, strong, ncalls, fresh>>

(* topic_is_clean: an observation (the C17 invariant states what it must return) *)
IsClean(t) ==
  /\ cpc = <<>> /\ live /\ CMayStep
  /\ H(<<"is_clean", t, RepOf(st[cur])[t]>>)
  /\ UNCHANGED svars

(* Walrus::drop, then the fields are dropped (the Walrus' strong reference goes away) *)
Drop ==
  /\ cpc = <<>> /\ live /\ CMayStep
  /\ live' = FALSE /\ fresh' = FALSE
  /\ IF FlushOnDrop /\ (~FlushByLastRef \/ ~strong[cur])
     THEN FlushEffect(cur)
     ELSE UNCHANGED <<smap, closed, file>>
  /\ H(<<"drop", file'>>)
  /\ UNCHANGED <<cur, st, chan, ppc, pend, upd, lgen, ptorn, strong, cpc, want, ncalls>>

(* Walrus::with_paths: new_in (read the file), TopicCleanTracker::new (spawn), hydrate *)
Open ==
  /\ ~live /\ cur < MaxInst /\ CMayStep
  /\ cur' = cur + 1 /\ live' = TRUE /\ fresh' = TRUE
  /\ smap' = [smap EXCEPT ![cur + 1] = file]
  /\ st' = [st EXCEPT ![cur + 1] = file]
  /\ ppc' = [ppc EXCEPT ![cur + 1] = "wait"]
  /\ H(<<"open", RepOf(file)>>)
  /\ UNCHANGED <<closed, file, chan, pend, upd, lgen, ptorn, strong, cpc, want, ncalls>>

(* ---- persister thread of instance k ---- *)
PWake(k) ==
  /\ ppc[k] = "wait" /\ chan[k] # {} /\ PMayStep
  /\ pend' = [pend EXCEPT ![k] = chan[k]]
  /\ chan' = [chan EXCEPT ![k] = {}]
  /\ ppc' = [ppc EXCEPT ![k] = "upg"]
  /\ UNCHANGED <<cur, live, st, smap, closed, file, upd, lgen, ptorn, strong, cpc, want, ncalls, fresh, hist>>

(* RecvTimeoutError::Disconnected: the Sender lives in the tracker *)
PDisc(k) ==
  /\ ppc[k] = "wait" /\ chan[k] = {} /\ ~LiveK(k) /\ PMayStep
  /\ ppc' = [ppc EXCEPT ![k] = "exit"]
  /\ H(<<"exit", k>>)
  /\ UNCHANGED <<cur, live, st, smap, closed, file, chan, pend, upd, lgen, ptorn, strong, cpc, want, ncalls, fresh>>

(* weak.upgrade(): fails once the Walrus value is gone (the thread holds no strong reference here) *)
PUpgrade(k) ==
  /\ ppc[k] = "upg" /\ PMayStep
  /\ IF LiveK(k) \/ strong[k]
     THEN /\ strong' = [strong EXCEPT ![k] = TRUE]
          /\ ppc' = [ppc EXCEPT ![k] = "snap"]
          /\ UNCHANGED <<pend, hist>>
     ELSE /\ ppc' = [ppc EXCEPT ![k] = "exit"]
          /\ pend' = [pend EXCEPT ![k] = {}]
          /\ H(<<"exit", k>>)
          /\ UNCHANGED strong
  /\ UNCHANGED <<cur, live, st, smap, closed, file, chan, upd, lgen, ptorn, cpc, want, ncalls, fresh>>

(* persist_topics: for topic in topics (HashSet order) { state.snapshot() }: generation.load ... *)
PLoadGen(k, t) ==
  /\ ppc[k] = "snap" /\ lgen[k] = <<>> /\ PMayStep
  /\ t \in pend[k] /\ t \notin DOMAIN upd[k]
  /\ t \in DOMAIN st[k]                        \* a notified topic always has a state
  /\ lgen' = [lgen EXCEPT ![k] = <<t, st[k][t].g>>]
  /\ UNCHANGED <<cur, live, st, smap, closed, file, chan, ppc, pend, upd, ptorn, strong, cpc, want, ncalls, fresh, hist>>

(* ghost: does the pair <<g loaded earlier, flag loaded now>> belong to no generation?  Every update  *)
(* flips the flag, so generation g carried the current flag iff it is an even number of updates back;   *)
(* between fetch_add and store the flag still belongs to the previous generation.                       *)
TornNow(k, t, g) ==
  LET mid  == LiveK(k) /\ cpc # <<>> /\ cpc[2] = t
      base == IF mid THEN st[k][t].g - 1 ELSE st[k][t].g
  IN  (base + g) % 2 = 1          \* same parity as base - g

(* ... is_clean.load; after the last topic the thread reaches the gate tc_before_persist *)
PLoadClean(k) ==
  /\ ppc[k] = "snap" /\ lgen[k] # <<>> /\ PMayStep
  /\ LET t == lgen[k][1]
         g == lgen[k][2]
         u == Put(upd[k], t, Rec(g, st[k][t].c))
     IN /\ upd' = [upd EXCEPT ![k] = u]
        /\ ptorn' = [ptorn EXCEPT ![k] = IF TornNow(k, t, g) THEN @ \cup {t} ELSE @]
        /\ IF DOMAIN u = pend[k]
           THEN /\ ppc' = [ppc EXCEPT ![k] = "gate"]
                /\ H(<<"arrive", k, u>>)
           ELSE UNCHANGED <<ppc, hist>>
  /\ lgen' = [lgen EXCEPT ![k] = <<>>]
  /\ UNCHANGED <<cur, live, st, smap, closed, file, chan, pend, strong, cpc, want, ncalls, fresh>>

(* store.persist_updates(&updates), then the gate tc_after_persist *)
PPersist(k) ==
  /\ ppc[k] = "gate" /\ GateMay
  /\ PersistEffect(k, upd[k], FALSE)
  /\ ppc' = [ppc EXCEPT ![k] = "after"]
  /\ H(<<"persist", k, file'>>)
  /\ UNCHANGED <<cur, live, st, chan, pend, upd, lgen, ptorn, strong, cpc, want, ncalls, fresh>>

(* end of the `if let Some(strong)` block: the strong reference is dropped (in the 547d40c variant   *)
(* the tracker's Drop - the flush - runs here if it was the last one); pending.clear(); loop            *)
PLoop(k) ==
  /\ ppc[k] = "after" /\ PMayStep
  /\ strong' = [strong EXCEPT ![k] = FALSE]
  /\ pend' = [pend EXCEPT ![k] = {}]
  /\ upd' = [upd EXCEPT ![k] = EmptyMap]
  /\ ptorn' = [ptorn EXCEPT ![k] = {}]
  /\ ppc' = [ppc EXCEPT ![k] = "wait"]
  /\ IF FlushOnDrop /\ FlushByLastRef /\ ~LiveK(k)
     THEN /\ FlushEffect(k)
          /\ H(<<"lateflush", k, file'>>)
     ELSE UNCHANGED <<smap, closed, file, hist>>
  /\ UNCHANGED <<cur, live, st, chan, lgen, cpc, want, ncalls, fresh>>

Next ==
  \/ \E t \in Topics : CAppend(t)
  \/ \E t \in Topics, v \in BOOLEAN : CMark(t, v)
  \/ CallEnd
  \/ \E t \in Topics : IsClean(t)
  \/ Drop
  \/ Open
  \/ \E k \in Insts : PWake(k)
  \/ \E k \in Insts : PDisc(k)
  \/ \E k \in Insts : PUpgrade(k)
  \/ \E k \in Insts, t \in Topics : PLoadGen(k, t)
  \/ \E k \in Insts : PLoadClean(k)
  \/ \E k \in Insts : PPersist(k)
  \/ \E k \in Insts : PLoop(k)

Spec == Init /\ [][Next]_vars

-----------------------------------------------------------------------------------------
(* C17 (the contract): between two calls a live instance reports what the last returned call     *)
(* established; right after Open this is "a clean shutdown and reopen reports the same state".     *)
C17 == (live /\ cpc = <<>>) => RepOf(st[cur]) = want

(* design invariants of the CURRENT protocol (not of the deviations) *)
(* once Walrus::drop has returned the file holds the contract state, and nothing changes that *)
FileAfterDrop == (~live) => RepOf(file) = want
(* the file never runs ahead of the live tracker's generations *)
GenNotAhead == live => \A t \in DOMAIN file : t \in DOMAIN st[cur] /\ file[t].g <= st[cur][t].g
(* a closed store is never written: its map is what its final flush left *)
ClosedMeansGone == \A k \in Insts : closed[k] => ~LiveK(k)
(* at most one store can still write the file (every store but the live instance's is closed): this is   *)
(* what makes persist_map - write <file>.tmp, fsync, rename, the SAME tmp name for every store, each      *)
(* store under its OWN lock - one atomic step here; without `closed` two stores could interleave inside it *)
SingleWriter == \A k \in 1 .. cur : LiveK(k) \/ closed[k]

TypeOK ==
  /\ cur \in Insts /\ live \in BOOLEAN /\ ncalls \in 0 .. MaxCalls
  /\ \A k \in Insts :
       /\ ppc[k] \in {"none", "wait", "upg", "snap", "gate", "after", "exit"}
       /\ (k > cur) = (ppc[k] = "none")
       /\ DOMAIN st[k] \subseteq Topics /\ DOMAIN smap[k] \subseteq Topics
       /\ pend[k] \subseteq Topics /\ chan[k] \subseteq Topics /\ DOMAIN upd[k] \subseteq pend[k]
       /\ strong[k] = (ppc[k] \in {"snap", "gate", "after"})
       /\ (lgen[k] # <<>> => ppc[k] = "snap")
  /\ (cpc # <<>> => live)

(* predicates the vacuity-guard configurations must find violated *)
NoTorn        == \A k \in Insts : ptorn[k] = {}
NoTornInStore == \A k \in Insts : \A t \in ptorn[k] :
                   ~(ppc[k] = "after" /\ t \in DOMAIN smap[k] /\ smap[k][t] = upd[k][t])
NoTornInFile  == \A k \in Insts : \A t \in ptorn[k] :
                   ~(ppc[k] = "after" /\ t \in DOMAIN file /\ file[t] = upd[k][t])

=========================================================================================
