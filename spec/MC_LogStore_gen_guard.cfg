SPECIFICATION MCSpec
CONSTANTS
  PersistCursor = TRUE
  MaxOps = 4
  MaxReopens = 3
  MaxIndex = 3
  MaxTerm = 2
  MaxBatch = 2
INVARIANTS PrintHistGuard
CONSTRAINT ObsEqual
VIEW View
CHECK_DEADLOCK FALSE
