SPECIFICATION Spec
CONSTANTS
  Caps <- Caps1
  MaxBatch = 6
  MaxPre2 = 9
  MaxPre3 = 9
  ProgSets <- Only_app2_rn2
  MaxThreads = 5
  FineLocks = TRUE
  DefRnStaleSnapshot = TRUE
  DefBrStaleSnapshot = FALSE
  DefBwEarlyPublish = FALSE
  MutBrNewestOnly = FALSE
VIEW ViewState
INVARIANTS NoDuplicate NoPhantom NoneLost OnlyAcked ReaderOrder
CHECK_DEADLOCK TRUE
