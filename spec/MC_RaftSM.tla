------------------------------ MODULE MC_RaftSM ------------------------------
(***************************************************************************************)
(* Bounded model of RaftSM: 2 nodes, <= MaxCmds committed entries, apply in batches of any   *)
(* size, build at every point, install on any node that is behind the snapshot (a fresh       *)
(* node included). `hist` (hidden by VIEW) is the operation history; a violated invariant       *)
(* prints it as JSON (CEX), `PrintHist` prints one history per distinct state reached by an      *)
(* install: the scenarios executed on the real adapter.                                     *)
(***************************************************************************************)
EXTENDS RaftSM, TLC, Json

CONSTANTS MaxCmds

VARIABLES hist
mvars == <<svars, hist>>

MCNodes == {"A", "B"}

(* commands: ids 1.. are distinct application commands; the runner maps them to real MetadataCmd *)
EntryChoices == {[k |-> "normal", c |-> Len(cmds) + 1], [k |-> "blank", c |-> 0], [k |-> "membership", c |-> 0]}

MCCommit ==
  /\ Len(cmds) < MaxCmds
  /\ \E e \in EntryChoices : Commit(e) /\ hist' = Append(hist, [op |-> "commit", e |-> e])

MCApply ==
  \E n \in Nodes, k \in 1 .. MaxCmds :
    /\ Apply(n, k)
    /\ hist' = Append(hist, [op |-> "apply", n |-> n, k |-> k])

MCBuild ==
  \E n \in Nodes :
    /\ curSnap[n] # Some(SnapOf(n))
    /\ BuildSnapshot(n)
    /\ hist' = Append(hist, [op |-> "build", n |-> n])

MCInstall ==
  \E m \in Nodes, n \in Nodes :
    /\ m # n /\ curSnap[n] # None
    /\ curSnap[n][1].last >= lastApplied[m]       \* openraft installs only snapshots that are not behind
    /\ curSnap[m] # curSnap[n]
    /\ InstallSnapshot(m, curSnap[n][1])
    /\ hist' = Append(hist, [op |-> "install", m |-> m, from |-> n])

MCInstallCorrupt ==
  \E m \in Nodes, n \in Nodes :
    /\ m # n /\ curSnap[n] # None
    /\ curSnap[n][1].last >= lastApplied[m]
    /\ (IF lastInstall = None THEN TRUE ELSE ~lastInstall[1].corrupt)     \* once in a row is enough
    /\ InstallCorruptSnapshot(m, curSnap[n][1])
    /\ hist' = Append(hist, [op |-> "install", m |-> m, from |-> n, corrupt |-> TRUE])

MCGetSnap ==
  \E n \in Nodes : GetCurrentSnapshot(n, curSnap[n]) /\ UNCHANGED hist

MCInit == Init /\ hist = <<>>
MCNext == MCCommit \/ MCApply \/ MCBuild \/ MCInstall \/ MCInstallCorrupt \/ MCGetSnap
MCSpec == MCInit /\ [][MCNext]_mvars

View == svars

InvConvergedCex == InvConverged \/ (PrintT(<<"CEX", ToJson(hist)>>) /\ FALSE)
InvInstallSucceedsCex == InvInstallSucceeds \/ (PrintT(<<"CEX", ToJson(hist)>>) /\ FALSE)
PrintHist == (hist # <<>> /\ hist[Len(hist)].op = "install") => PrintT(<<"HIST", ToJson(hist)>>)
=============================================================================
