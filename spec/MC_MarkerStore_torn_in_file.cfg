SPECIFICATION Spec
CONSTANTS
  Topics = {"a"}
  MaxInst = 3
  MaxCalls = 4
  FlushOnDrop = TRUE
  FlushByLastRef = FALSE
  GenGuard = TRUE
  CloseOnFinalFlush = TRUE
  Prompt = FALSE
  KeepHist = FALSE
VIEW View
INVARIANTS NoTornInFile
CHECK_DEADLOCK FALSE
