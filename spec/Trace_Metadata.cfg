SPECIFICATION TSpec
INVARIANTS Report InvSegments SnapshotRoundTrip
CHECK_DEADLOCK FALSE
