SPECIFICATION TSpec
CONSTANTS
  MaxU64 = 1000
INVARIANTS Report InvSegments SnapshotRoundTrip
CHECK_DEADLOCK FALSE
