SPECIFICATION Spec
CONSTANTS
  Topics = {"a"}
  MaxInst = 3
  MaxCalls = 4
  FlushOnDrop = TRUE
  FlushByLastRef = TRUE
  GenGuard = FALSE
  CloseOnFinalFlush = FALSE
  Prompt = FALSE
  KeepHist = TRUE
VIEW View
INVARIANTS TypeOK C17Cex
CHECK_DEADLOCK FALSE
