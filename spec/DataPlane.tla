------------------------------- MODULE DataPlane -------------------------------
(***************************************************************************************)
(* The distributed data plane of `distributed-walrus` (properties C22, C23).            *)
(*                                                                                     *)
(* Part A (contract): what a client / an observer of writes may rely on. Pure           *)
(*   operators, used as guards by Trace_DataPlane (trace validation of recorded          *)
(*   executions of the real code) and as invariants by the design below.                 *)
(* Part B (design): implementation-shaped. Raft is ASSUMED: one committed command        *)
(*   sequence, a per-node `applied` index. One `pc` per `.await` of the real code on    *)
(*   the PUT path (metadata read -> [forward] -> update_leases -> ensure_lease ->         *)
(*   lock_for_key -> engine append -> record_append -> tracked_entry_count -> propose    *)
(*   -> commit -> ack), the GET loop with the sealed-count advance, LeaseSync,           *)
(*   MonitorTick, ApplyNext. pc names are the source lines the shim runtime reports      *)
(*   (L63 = bucket.rs:63 ...), see vlib/props_cluster.py:LABELS.                          *)
(*                                                                                     *)
(* The code deviates from a design that satisfies the contract in four places; each      *)
(* deviation is a CONSTANT switch (FALSE = as the code is):                              *)
(*   AtomicCount    the sealing count is the number of entries actually written,          *)
(*                  captured atomically with the owner applying the sealing               *)
(*                  (code: `tracked_entry_count` read after `record_append`, proposed      *)
(*                  asynchronously; the command does not even name the segment it seals)   *)
(*   LeaseUnderLock the lease is (re)checked atomically with the engine append            *)
(*                  (code: `ensure_lease` before `lock_for_key`)                          *)
(*   LeaseOnApply   the lease check consults the node's applied metadata                  *)
(*                  (code: a lease set refreshed only by update_leases, from a metadata    *)
(*                  read taken one or two scheduling points earlier)                       *)
(*   FreshReads     a GET consults metadata only when its node has applied everything      *)
(*                  committed (code: whatever the node has applied so far)                 *)
(***************************************************************************************)
EXTENDS Naturals, Sequences, FiniteSets, TLC

(***************************************************************************************)
(* Part A: contract                                                                     *)
(***************************************************************************************)
\* C22. A topic is a FIFO queue. q: payloads whose PUT took effect and is (to be) answered OK,
\* not yet delivered. ghost: payloads of PUTs answered ERR or never answered: each may be
\* delivered at most once and carries no obligation.
GetValLegal(q, ghost, p) == (q # <<>> /\ Head(q) = p) \/ p \in ghost
GetValQ(q, p)            == IF q # <<>> /\ Head(q) = p THEN Tail(q) ELSE q
GetValGhost(q, ghost, p) == IF q # <<>> /\ Head(q) = p THEN ghost ELSE ghost \ {p}
\* EMPTY only when everything acknowledged has been delivered; always acceptable while a PUT
\* on the topic is pending.
GetEmptyLegal(q, putPending) == q = <<>> \/ putPending

\* Metadata view of one topic on one node: cur = current segment (0: topic unknown),
\* sealed[s] = sealed count of s < cur, owner[s] = node holding s (s <= cur).
NoTopic == [cur |-> 0, ldr |-> 0, sealed |-> <<>>, owner |-> <<>>]
MetaCreate(m, ldr) == IF m.cur # 0 THEN m ELSE [cur |-> 1, ldr |-> ldr, sealed |-> <<>>, owner |-> <<ldr>>]
MetaRoll(m, ldr, cnt) ==
  IF m.cur = 0 THEN m
  ELSE [cur |-> m.cur + 1, ldr |-> ldr, sealed |-> Append(m.sealed, cnt), owner |-> Append(m.owner, ldr)]

\* C23. Node n writes an entry into segment s of a topic whose applied view on n is m.
WriteAfterSeal(m, s)    == m.cur > s
WriteForeign(m, n, s)   == s \in DOMAIN m.owner /\ m.owner[s] # n
WriteLegal(m, n, s)     == ~WriteAfterSeal(m, s) /\ ~WriteForeign(m, n, s)

(***************************************************************************************)
(* Part B: design                                                                       *)
(***************************************************************************************)
CONSTANTS Nodes, RaftLeader, InitLeader, Thr, Clients, Prog, MaxCmds, WithMonitor, WithSync,
          AtomicCount, LeaseUnderLock, LeaseOnApply, FreshReads

VARIABLES committed, applied, meta, leases, offsets, elog, ecur, klock, rcur, rlock,
          pc, ci, loc, spc, sexp, mpc, mloc,
          acked, delivered, pre, gpre, gsaw, pendPuts, viol22, viol23, sched, resp

dvars == <<committed, applied, meta, leases, offsets, elog, ecur, klock, rcur, rlock,
           pc, ci, loc, spc, sexp, mpc, mloc>>
hvars == <<acked, delivered, pre, gpre, gsaw, pendPuts, viol22, viol23>>
vars  == <<dvars, hvars, sched, resp>>
\* the schedule and the predicted responses are observations, not state
View  == <<dvars, hvars>>

N        == Cardinality(Nodes)
Segs     == 1 .. (MaxCmds + 1)
NextLeader(n) == (n % N) + 1                 \* voters sorted, successor of self (controller/mod.rs:472-478)
Owned(m, n)   == IF m.ldr = n THEN {m.cur} ELSE {}
Payloads == UNION {{Prog[c][i].p : i \in 1 .. Len(Prog[c])} : c \in Clients} \ {0}

NoLoc == [x |-> 0, seg |-> 0, exp |-> {}, att |-> 0, cnt |-> 0, idx |-> 0, got |-> 0, tcur |-> 0, rl |-> 0]

Init ==
  /\ committed = <<>>
  /\ applied = [n \in Nodes |-> 0]
  /\ meta = [n \in Nodes |-> MetaCreate(NoTopic, InitLeader)]
  /\ leases = [n \in Nodes |-> IF n = InitLeader THEN {1} ELSE {}]
  /\ offsets = [n \in Nodes |-> [s \in Segs |-> 0]]
  /\ elog = [n \in Nodes |-> [s \in Segs |-> <<>>]]
  /\ ecur = [n \in Nodes |-> [s \in Segs |-> 0]]
  /\ klock = [n \in Nodes |-> [s \in Segs |-> 0]]
  /\ rcur = [n \in Nodes |-> [seg |-> 1, del |-> 0]]
  /\ rlock = [n \in Nodes |-> 0]
  /\ pc = [c \in Clients |-> "idle"]
  /\ ci = [c \in Clients |-> 1]
  /\ loc = [c \in Clients |-> NoLoc]
  /\ spc = [n \in Nodes |-> "idle"]
  /\ sexp = [n \in Nodes |-> {}]
  /\ mpc = [n \in Nodes |-> "idle"]
  /\ mloc = [n \in Nodes |-> [seg |-> 0, cnt |-> 0, idx |-> 0]]
  /\ acked = {} /\ delivered = {} /\ pre = [p \in Payloads |-> {}]
  /\ gpre = [c \in Clients |-> {}] /\ gsaw = [c \in Clients |-> FALSE]
  /\ pendPuts = 0 /\ viol22 = "none" /\ viol23 = "none"
  /\ sched = <<>> /\ resp = <<>>

HasOp(c)  == ci[c] <= Len(Prog[c])
Op(c)     == Prog[c][ci[c]]
InGet(c)  == pc[c] \in {"L272", "rpcR", "L56", "gpost"}
Step(a, l) == sched' = Append(sched, <<a, l>>)
CName(c)  == <<"c", c>>
Unch(S)   == UNCHANGED S

(* ---------------------------------- PUT -------------------------------------------- *)
\* append_for_topic: metadata snapshot of the node the client talks to; local: forward_append ->
\* update_leases computes `expected` from metadata and parks at bucket.rs:63
PutCall(c) ==
  /\ pc[c] = "idle" /\ HasOp(c) /\ Op(c).op = "put"
  /\ LET v == Op(c).via  x == meta[v].ldr  s == meta[v].cur  p == Op(c).p IN
     /\ loc' = [loc EXCEPT ![c] = [NoLoc EXCEPT !.x = x, !.seg = s, !.att = 1,
                                          !.exp = IF x = v THEN Owned(meta[x], x) ELSE {}]]
     /\ pc' = [pc EXCEPT ![c] = IF x = v THEN "L63" ELSE "rpcA"]
     /\ pre' = [pre EXCEPT ![p] = acked]
     /\ pendPuts' = pendPuts + 1
     /\ gsaw' = [d \in Clients |-> IF InGet(d) THEN TRUE ELSE gsaw[d]]
     /\ Step(CName(c), IF x = v THEN "L63" ELSE "rpcreq")
  /\ UNCHANGED <<committed, applied, meta, leases, offsets, elog, ecur, klock, rcur, rlock, ci, spc, sexp, mpc, mloc,
                 acked, delivered, gpre, viol22, viol23, resp>>

PutFinish(c, res) ==
  /\ pc' = [pc EXCEPT ![c] = "idle"]
  /\ ci' = [ci EXCEPT ![c] = @ + 1]
  /\ acked' = IF res = "ok" THEN acked \cup {Op(c).p} ELSE acked
  /\ pendPuts' = pendPuts - 1
  /\ resp' = Append(resp, <<c, ci[c], res, 0>>)
  /\ Step(CName(c), "done")

PutRpcA(c) ==
  /\ pc[c] = "rpcA"
  /\ loc' = [loc EXCEPT ![c].exp = Owned(meta[loc[c].x], loc[c].x)]
  /\ pc' = [pc EXCEPT ![c] = "L63"]
  /\ Step(CName(c), "L63")
  /\ UNCHANGED <<committed, applied, meta, leases, offsets, elog, ecur, klock, rcur, rlock, ci, spc, sexp, mpc, mloc, hvars, resp>>

PutL63(c) ==
  /\ pc[c] = "L63"
  /\ LET nx == IF leases[loc[c].x] = loc[c].exp THEN "L112" ELSE "L69" IN
     /\ pc' = [pc EXCEPT ![c] = nx] /\ Step(CName(c), nx)
  /\ UNCHANGED <<committed, applied, meta, leases, offsets, elog, ecur, klock, rcur, rlock, ci, loc, spc, sexp, mpc, mloc, hvars, resp>>

PutL69(c) ==
  /\ pc[c] = "L69"
  /\ leases' = [leases EXCEPT ![loc[c].x] = loc[c].exp]
  /\ pc' = [pc EXCEPT ![c] = "L112"] /\ Step(CName(c), "L112")
  /\ UNCHANGED <<committed, applied, meta, offsets, elog, ecur, klock, rcur, rlock, ci, loc, spc, sexp, mpc, mloc, hvars, resp>>

LeaseOk(x, s) == IF LeaseOnApply THEN s \in Owned(meta[x], x) ELSE s \in leases[x]

\* append_with_retry: second attempt after a fresh update_leases; second failure answers ERR
LeaseFail(c) ==
  IF loc[c].att = 1
  THEN /\ loc' = [loc EXCEPT ![c].att = 2, ![c].exp = Owned(meta[loc[c].x], loc[c].x)]
       /\ pc' = [pc EXCEPT ![c] = "L63"] /\ Step(CName(c), "L63")
       /\ UNCHANGED <<ci, acked, pendPuts, resp>>
  ELSE /\ PutFinish(c, "err") /\ UNCHANGED loc

PutL112(c) ==
  /\ pc[c] = "L112"
  /\ IF LeaseOk(loc[c].x, loc[c].seg)
     THEN /\ pc' = [pc EXCEPT ![c] = "L102"] /\ Step(CName(c), "L102")
          /\ UNCHANGED <<ci, loc, acked, pendPuts, resp>>
     ELSE LeaseFail(c)
  /\ UNCHANGED <<committed, applied, meta, leases, offsets, elog, ecur, klock, rcur, rlock, spc, sexp, mpc, mloc,
                 delivered, pre, gpre, gsaw, viol22, viol23>>

PutL102(c) ==
  /\ pc[c] = "L102"
  /\ klock[loc[c].x][loc[c].seg] = 0
  /\ klock' = [klock EXCEPT ![loc[c].x][loc[c].seg] = c]
  /\ pc' = [pc EXCEPT ![c] = "L48"] /\ Step(CName(c), "L48")
  /\ UNCHANGED <<committed, applied, meta, leases, offsets, elog, ecur, rcur, rlock, ci, loc, spc, sexp, mpc, mloc, hvars, resp>>

\* the engine append (a data-plane WRITE), still holding the per-key mutex
PutL48(c) ==
  /\ pc[c] = "L48"
  /\ LET x == loc[c].x  s == loc[c].seg IN
     /\ klock' = [klock EXCEPT ![x][s] = 0]
     /\ IF LeaseUnderLock /\ ~LeaseOk(x, s)
        THEN /\ LeaseFail(c) /\ UNCHANGED <<elog, viol23>>
        ELSE /\ elog' = [elog EXCEPT ![x][s] = Append(@, Op(c).p)]
             /\ viol23' = IF viol23 # "none" THEN viol23
                          ELSE IF WriteAfterSeal(meta[x], s) THEN "write_after_seal"
                          ELSE IF WriteForeign(meta[x], x, s) THEN "write_foreign_segment" ELSE "none"
             /\ pc' = [pc EXCEPT ![c] = "L298"] /\ Step(CName(c), "L298")
             /\ UNCHANGED <<ci, loc, acked, pendPuts, resp>>
  /\ UNCHANGED <<committed, applied, meta, leases, offsets, ecur, rcur, rlock, spc, sexp, mpc, mloc,
                 delivered, pre, gpre, gsaw, viol22>>

PutL298(c) ==
  /\ pc[c] = "L298"
  /\ offsets' = [offsets EXCEPT ![loc[c].x][loc[c].seg] = @ + 1]
  /\ pc' = [pc EXCEPT ![c] = "L293"] /\ Step(CName(c), "L293")
  /\ UNCHANGED <<committed, applied, meta, leases, elog, ecur, klock, rcur, rlock, ci, loc, spc, sexp, mpc, mloc, hvars, resp>>

\* the rollover as a correct design would do it: only by the caught-up owner of the still
\* current segment, count = entries actually written, applied on the owner in the same step
AtomicRoll(x, s) ==
  IF meta[x].cur = s /\ meta[x].ldr = x /\ applied[x] = Len(committed) /\ Len(committed) < MaxCmds
  THEN LET cmd == [ldr |-> NextLeader(x), cnt |-> Len(elog[x][s])] IN
       /\ committed' = Append(committed, cmd)
       /\ applied' = [applied EXCEPT ![x] = Len(committed) + 1]
       /\ meta' = [meta EXCEPT ![x] = MetaRoll(@, cmd.ldr, cmd.cnt)]
  ELSE UNCHANGED <<committed, applied, meta>>

\* maybe_rollover: tracked_entry_count, then (code) the asynchronous proposal with that count
PutL293(c) ==
  /\ pc[c] = "L293"
  /\ LET x == loc[c].x  s == loc[c].seg  cnt == offsets[x][s] IN
     IF cnt < Thr
     THEN /\ PutFinish(c, "ok") /\ UNCHANGED <<committed, applied, meta, loc>>
     ELSE IF AtomicCount
     THEN /\ AtomicRoll(x, s) /\ PutFinish(c, "ok") /\ UNCHANGED loc
     ELSE /\ loc' = [loc EXCEPT ![c].cnt = cnt]
          /\ LET nx == IF x = RaftLeader THEN "prop" ELSE "rpcM" IN
             pc' = [pc EXCEPT ![c] = nx] /\ Step(CName(c), IF x = RaftLeader THEN "propose" ELSE "rpcreq")
          /\ UNCHANGED <<committed, applied, meta, ci, acked, pendPuts, resp>>
  /\ UNCHANGED <<leases, offsets, elog, ecur, klock, rcur, rlock, spc, sexp, mpc, mloc,
                 delivered, pre, gpre, gsaw, viol22, viol23>>

PutRpcM(c) ==
  /\ pc[c] = "rpcM"
  /\ pc' = [pc EXCEPT ![c] = "prop"] /\ Step(CName(c), "propose")
  /\ UNCHANGED <<committed, applied, meta, leases, offsets, elog, ecur, klock, rcur, rlock, ci, loc, spc, sexp, mpc, mloc, hvars, resp>>

\* Raft assumed: the command is committed; the proposer waits for the Raft leader's apply
PutProp(c) ==
  /\ pc[c] = "prop"
  /\ Len(committed) < MaxCmds
  /\ committed' = Append(committed, [ldr |-> NextLeader(loc[c].x), cnt |-> loc[c].cnt])
  /\ loc' = [loc EXCEPT ![c].idx = Len(committed) + 1]
  /\ pc' = [pc EXCEPT ![c] = "pwait"] /\ Step(CName(c), "propwait")
  /\ UNCHANGED <<applied, meta, leases, offsets, elog, ecur, klock, rcur, rlock, ci, spc, sexp, mpc, mloc, hvars, resp>>

PutPwait(c) ==
  /\ pc[c] = "pwait"
  /\ applied[RaftLeader] >= loc[c].idx
  /\ PutFinish(c, "ok")
  /\ UNCHANGED <<committed, applied, meta, leases, offsets, elog, ecur, klock, rcur, rlock, loc, spc, sexp, mpc, mloc,
                 delivered, pre, gpre, gsaw, viol22, viol23>>

(* ---------------------------------- GET -------------------------------------------- *)
RECURSIVE Advance(_, _)
Advance(m, cr) == IF cr.seg < m.cur /\ cr.del >= m.sealed[cr.seg]
                  THEN Advance(m, [seg |-> cr.seg + 1, del |-> 0]) ELSE cr

\* top of the loop in read_one_for_topic: metadata snapshot, skip exhausted sealed segments,
\* pick the node to read from; parks at the engine read (local) or the forward
GetLoop(c, v, cr0) ==
  LET m == meta[v]  cr == Advance(m, cr0)
      rl == IF cr.seg = m.cur THEN m.ldr ELSE m.owner[cr.seg] IN
  /\ rcur' = [rcur EXCEPT ![v] = cr]
  /\ loc' = [loc EXCEPT ![c] = [NoLoc EXCEPT !.tcur = m.cur, !.rl = rl, !.seg = cr.seg]]
  /\ pc' = [pc EXCEPT ![c] = IF rl = v THEN "L56" ELSE "rpcR"]
  /\ Step(CName(c), IF rl = v THEN "L56" ELSE "rpcreq")

Fresh(v) == FreshReads => applied[v] = Len(committed)

GetCall(c) ==
  /\ pc[c] = "idle" /\ HasOp(c) /\ Op(c).op = "get"
  /\ pc' = [pc EXCEPT ![c] = "L272"]
  /\ gpre' = [gpre EXCEPT ![c] = acked]
  /\ gsaw' = [gsaw EXCEPT ![c] = pendPuts > 0]
  /\ Step(CName(c), "L272")
  /\ UNCHANGED <<committed, applied, meta, leases, offsets, elog, ecur, klock, rcur, rlock, ci, loc, spc, sexp, mpc, mloc,
                 acked, delivered, pre, pendPuts, viol22, viol23, resp>>

GetL272(c) ==
  /\ pc[c] = "L272"
  /\ LET v == Op(c).via IN
     /\ rlock[v] = 0 /\ Fresh(v)
     /\ rlock' = [rlock EXCEPT ![v] = c]
     /\ GetLoop(c, v, rcur[v])
  /\ UNCHANGED <<committed, applied, meta, leases, offsets, elog, ecur, klock, ci, spc, sexp, mpc, mloc, hvars, resp>>

GetRpcR(c) ==
  /\ pc[c] = "rpcR"
  /\ pc' = [pc EXCEPT ![c] = "L56"] /\ Step(CName(c), "L56")
  /\ UNCHANGED <<committed, applied, meta, leases, offsets, elog, ecur, klock, rcur, rlock, ci, loc, spc, sexp, mpc, mloc, hvars, resp>>

\* bucket.read_one on the node holding the segment: consuming engine read
GetL56(c) ==
  /\ pc[c] = "L56"
  /\ LET r == loc[c].rl  s == loc[c].seg IN
     IF ecur[r][s] < Len(elog[r][s])
     THEN /\ loc' = [loc EXCEPT ![c].got = elog[r][s][ecur[r][s] + 1]]
          /\ ecur' = [ecur EXCEPT ![r][s] = @ + 1]
     ELSE /\ loc' = [loc EXCEPT ![c].got = 0] /\ UNCHANGED ecur
  /\ pc' = [pc EXCEPT ![c] = "gpost"] /\ Step(CName(c), "L293")
  /\ UNCHANGED <<committed, applied, meta, leases, offsets, elog, klock, rcur, rlock, ci, spc, sexp, mpc, mloc, hvars, resp>>

OtherGetInFlight(c) == \E d \in Clients \ {c} : InGet(d)

GetFinish(c, res, p) ==
  /\ ci' = [ci EXCEPT ![c] = @ + 1]
  /\ resp' = Append(resp, <<c, ci[c], res, p>>)
  /\ rlock' = [rlock EXCEPT ![Op(c).via] = 0]

GetPost(c) ==
  /\ pc[c] = "gpost"
  /\ LET v == Op(c).via  g == loc[c].got  cr == rcur[v] IN
     IF g # 0
     THEN \* delivered: contract conditions (consequences of FIFO linearizability)
          /\ rcur' = [rcur EXCEPT ![v].del = @ + 1]
          /\ delivered' = delivered \cup {g}
          /\ viol22' = IF viol22 # "none" THEN viol22
                       ELSE IF g \in delivered THEN "duplicate"
                       ELSE IF g \in acked /\ (pre[g] \ delivered) # {} /\ ~OtherGetInFlight(c) THEN "order_or_skip"
                       ELSE "none"
          /\ GetFinish(c, "val", g)
          /\ pc' = [pc EXCEPT ![c] = "idle"] /\ loc' = [loc EXCEPT ![c] = NoLoc] /\ Step(CName(c), "done")
     ELSE IF cr.seg < loc[c].tcur
     THEN \* sealed and drained: advance and go round the loop again (fresh metadata)
          /\ Fresh(v)
          /\ GetLoop(c, v, [seg |-> cr.seg + 1, del |-> 0])
          /\ UNCHANGED <<ci, rlock, resp, delivered, viol22>>
     ELSE /\ viol22' = IF viol22 # "none" THEN viol22
                       ELSE IF ~gsaw[c] /\ pendPuts = 0 /\ (gpre[c] \ delivered) # {} THEN "spurious_empty"
                       ELSE "none"
          /\ GetFinish(c, "empty", 0)
          /\ pc' = [pc EXCEPT ![c] = "idle"] /\ loc' = [loc EXCEPT ![c] = NoLoc] /\ Step(CName(c), "done")
          /\ UNCHANGED <<rcur, delivered>>
  /\ UNCHANGED <<committed, applied, meta, leases, offsets, elog, ecur, klock, spc, sexp, mpc, mloc,
                 acked, pre, gpre, gsaw, pendPuts, viol23>>

(* ------------------------- lease sync, monitor, apply ------------------------------ *)
SName(n) == <<"sync", n>>
LeaseSync(n) ==
  /\ WithSync /\ ~LeaseOnApply /\ spc[n] = "idle"
  /\ sexp' = [sexp EXCEPT ![n] = Owned(meta[n], n)]
  /\ spc' = [spc EXCEPT ![n] = "L63"] /\ Step(SName(n), "L63")
  /\ UNCHANGED <<committed, applied, meta, leases, offsets, elog, ecur, klock, rcur, rlock, pc, ci, loc, mpc, mloc, hvars, resp>>

SyncL63(n) ==
  /\ spc[n] = "L63"
  /\ LET nx == IF leases[n] = sexp[n] THEN "idle" ELSE "L69" IN
     spc' = [spc EXCEPT ![n] = nx] /\ Step(SName(n), IF nx = "idle" THEN "tick" ELSE "L69")
  /\ UNCHANGED <<committed, applied, meta, leases, offsets, elog, ecur, klock, rcur, rlock, pc, ci, loc, sexp, mpc, mloc, hvars, resp>>

SyncL69(n) ==
  /\ spc[n] = "L69"
  /\ leases' = [leases EXCEPT ![n] = sexp[n]]
  /\ spc' = [spc EXCEPT ![n] = "idle"] /\ Step(SName(n), "tick")
  /\ UNCHANGED <<committed, applied, meta, offsets, elog, ecur, klock, rcur, rlock, pc, ci, loc, sexp, mpc, mloc, hvars, resp>>

MName(n) == <<"mon", n>>
MonitorTick(n) ==
  /\ WithMonitor /\ mpc[n] = "idle" /\ meta[n].ldr = n
  /\ mloc' = [mloc EXCEPT ![n] = [seg |-> meta[n].cur, cnt |-> 0, idx |-> 0]]
  /\ mpc' = [mpc EXCEPT ![n] = "L293"] /\ Step(MName(n), "L293")
  /\ UNCHANGED <<committed, applied, meta, leases, offsets, elog, ecur, klock, rcur, rlock, pc, ci, loc, spc, sexp, hvars, resp>>

MonL293(n) ==
  /\ mpc[n] = "L293"
  /\ LET s == mloc[n].seg  cnt == offsets[n][s] IN
     IF cnt < Thr
     THEN /\ mpc' = [mpc EXCEPT ![n] = "idle"] /\ Step(MName(n), "tick") /\ UNCHANGED <<committed, applied, meta, mloc>>
     ELSE IF AtomicCount
     THEN /\ AtomicRoll(n, s) /\ mpc' = [mpc EXCEPT ![n] = "idle"] /\ Step(MName(n), "tick") /\ UNCHANGED mloc
     ELSE /\ mloc' = [mloc EXCEPT ![n].cnt = cnt]
          /\ mpc' = [mpc EXCEPT ![n] = IF n = RaftLeader THEN "prop" ELSE "rpcM"]
          /\ Step(MName(n), IF n = RaftLeader THEN "propose" ELSE "rpcreq")
          /\ UNCHANGED <<committed, applied, meta>>
  /\ UNCHANGED <<leases, offsets, elog, ecur, klock, rcur, rlock, pc, ci, loc, spc, sexp, hvars, resp>>

MonRpcM(n) ==
  /\ mpc[n] = "rpcM"
  /\ mpc' = [mpc EXCEPT ![n] = "prop"] /\ Step(MName(n), "propose")
  /\ UNCHANGED <<committed, applied, meta, leases, offsets, elog, ecur, klock, rcur, rlock, pc, ci, loc, spc, sexp, mloc, hvars, resp>>

MonProp(n) ==
  /\ mpc[n] = "prop" /\ Len(committed) < MaxCmds
  /\ committed' = Append(committed, [ldr |-> NextLeader(n), cnt |-> mloc[n].cnt])
  /\ mloc' = [mloc EXCEPT ![n].idx = Len(committed) + 1]
  /\ mpc' = [mpc EXCEPT ![n] = "pwait"] /\ Step(MName(n), "propwait")
  /\ UNCHANGED <<applied, meta, leases, offsets, elog, ecur, klock, rcur, rlock, pc, ci, loc, spc, sexp, hvars, resp>>

MonPwait(n) ==
  /\ mpc[n] = "pwait" /\ applied[RaftLeader] >= mloc[n].idx
  /\ mpc' = [mpc EXCEPT ![n] = "idle"] /\ Step(MName(n), "tick")
  /\ UNCHANGED <<committed, applied, meta, leases, offsets, elog, ecur, klock, rcur, rlock, pc, ci, loc, spc, sexp, mloc, hvars, resp>>

\* the node's apply task feeds the next committed command to its state machine
ApplyNext(n) ==
  /\ applied[n] < Len(committed)
  /\ LET cmd == committed[applied[n] + 1] IN meta' = [meta EXCEPT ![n] = MetaRoll(@, cmd.ldr, cmd.cnt)]
  /\ applied' = [applied EXCEPT ![n] = @ + 1]
  /\ Step(<<"apply", n>>, "apply")
  /\ UNCHANGED <<committed, leases, offsets, elog, ecur, klock, rcur, rlock, pc, ci, loc, spc, sexp, mpc, mloc, hvars, resp>>

Next ==
  \/ \E c \in Clients : \/ PutCall(c) \/ PutRpcA(c) \/ PutL63(c) \/ PutL69(c) \/ PutL112(c) \/ PutL102(c) \/ PutL48(c)
                        \/ PutL298(c) \/ PutL293(c) \/ PutRpcM(c) \/ PutProp(c) \/ PutPwait(c)
                        \/ GetCall(c) \/ GetL272(c) \/ GetRpcR(c) \/ GetL56(c) \/ GetPost(c)
  \/ \E n \in Nodes : \/ LeaseSync(n) \/ SyncL63(n) \/ SyncL69(n)
                      \/ MonitorTick(n) \/ MonL293(n) \/ MonRpcM(n) \/ MonProp(n) \/ MonPwait(n)
                      \/ ApplyNext(n)

Spec == Init /\ [][Next]_vars

InvC22 == viol22 = "none"
InvC23 == viol23 = "none"
AllDone == \A c \in Clients : ~HasOp(c) /\ pc[c] = "idle"
=================================================================================
