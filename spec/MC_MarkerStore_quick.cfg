SPECIFICATION Spec
CONSTANTS
  Topics = {"a", "b"}
  MaxInst = 3
  MaxCalls = 3
  FlushOnDrop = TRUE
  FlushByLastRef = FALSE
  GenGuard = TRUE
  CloseOnFinalFlush = TRUE
  Prompt = FALSE
  KeepHist = FALSE
VIEW View
INVARIANTS TypeOK C17Cex FileAfterDrop GenNotAhead ClosedMeansGone SingleWriter
CHECK_DEADLOCK FALSE
