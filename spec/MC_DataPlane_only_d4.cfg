SPECIFICATION Spec
CONSTANTS
  Nodes = {1, 2, 3}
  RaftLeader = 1
  InitLeader = 1
  Thr = 1
  Clients <- ClientsDef
  Prog <- ProgDef
  ProgSel = "stale3"
  MaxCmds = 3
  WithMonitor = FALSE
  WithSync = TRUE
  AtomicCount = TRUE
  LeaseUnderLock = TRUE
  LeaseOnApply = TRUE
  FreshReads = FALSE
VIEW View
CONSTRAINT Bound
CHECK_DEADLOCK FALSE
INVARIANTS InvC22 InvC23
