--------------------------------- MODULE Metadata ---------------------------------
(***************************************************************************************)
(* C18 / C20 (state-machine half): the cluster-metadata state machine of                *)
(* distributed-walrus/src/metadata.rs, transcribed statement by statement.              *)
(*                                                                                     *)
(* ClusterState  = topics : name -> TopicState, nodes : node id -> address              *)
(* TopicState    = cur    (current_segment)                                             *)
(*                 leader (leader_node)                                                 *)
(*                 last   (last_sealed_entry_offset)                                    *)
(*                 sealed (sealed_segments   : segment -> entry count)                  *)
(*                 segl   (segment_leaders   : segment -> node)                         *)
(* Maps are TLA+ functions with finite domains; `Put` is HashMap::insert (overwrites).   *)
(*                                                                                     *)
(* Commands are records [k, t, n, c, a]:                                                *)
(*   k = "C" CreateTopic{name: t, initial_leader: n}                                    *)
(*   k = "R" RolloverTopic{name: t, new_leader: n, sealed_segment_entry_count: c}       *)
(*   k = "U" UpsertNode{node_id: n, addr: a}                                            *)
(*   k = "X" bytes that do not decode to a MetadataCmd                                   *)
(* A rollover whose count would carry the cumulative sealed offset past u64::MAX (MaxU64)  *)
(* is rejected with the topic unchanged (metadata.rs, checked_add).                        *)
(* `Apply(s, cmd)` is total: it yields the returned value and the next state, as the     *)
(* `apply` of the StateMachineTrait does. The state machine is its own contract (A = B): *)
(* the property C18 is the list of invariants below, C20's state-machine half is         *)
(* `SnapshotRoundTrip`.                                                                 *)
(***************************************************************************************)
EXTENDS Naturals, Sequences, FiniteSets

CONSTANT MaxU64   \* u64::MAX; a small number in the bounded models so that the rejecting branch is explored

EmptyMap == [x \in {} |-> 0]
Put(f, k, v) == [x \in (DOMAIN f) \cup {k} |-> IF x = k THEN v ELSE f[x]]

EmptyState == [topics |-> EmptyMap, nodes |-> EmptyMap]

NewTopic(n) == [cur |-> 1, leader |-> n, last |-> 0, sealed |-> EmptyMap, segl |-> Put(EmptyMap, 1, n)]

(* let new_offset = last_sealed_entry_offset.checked_add(count) -- None: the command is rejected *)
Overflows(ts, c) == ts.last + c > MaxU64

(* the rollover branch of apply, in statement order *)
Rolled(ts, n, c) ==
  LET sealedSeg == ts.cur
      sealed1   == Put(ts.sealed, sealedSeg, c)           \* sealed_segments.insert(sealed_seg, count)
      segl1     == Put(ts.segl, sealedSeg, ts.leader)     \* segment_leaders.insert(sealed_seg, leader_node)
      last1     == ts.last + c                            \* last_sealed_entry_offset = new_offset
      cur1      == ts.cur + 1                             \* current_segment += 1
      segl2     == Put(segl1, cur1, n)                    \* segment_leaders.insert(current_segment, new_leader)
  IN [cur |-> cur1, leader |-> n, last |-> last1, sealed |-> sealed1, segl |-> segl2]

Apply(s, cmd) ==
  CASE cmd.k = "X" -> [res |-> "ERR_DECODE", st |-> s]
    [] cmd.k = "C" -> IF cmd.t \in DOMAIN s.topics
                      THEN [res |-> "EXISTS", st |-> s]
                      ELSE [res |-> "CREATED", st |-> [s EXCEPT !.topics = Put(@, cmd.t, NewTopic(cmd.n))]]
    [] cmd.k = "R" -> IF cmd.t \notin DOMAIN s.topics THEN [res |-> "ERR_NOTOPIC", st |-> s]
                      ELSE IF Overflows(s.topics[cmd.t], cmd.c) THEN [res |-> "ERR_OVERFLOW", st |-> s]   \* nothing changed yet
                      ELSE [res |-> "ROLLED", st |-> [s EXCEPT !.topics = Put(@, cmd.t, Rolled(s.topics[cmd.t], cmd.n, cmd.c))]]
    [] cmd.k = "U" -> [res |-> "NODE", st |-> [s EXCEPT !.nodes = Put(@, cmd.n, cmd.a)]]

Results == {"ERR_DECODE", "EXISTS", "CREATED", "ROLLED", "ERR_NOTOPIC", "ERR_OVERFLOW", "NODE"}

(* ---- snapshot / restore: the snapshot is the association lists bincode writes ---- *)
Pairs(f) == {<<x, f[x]>> : x \in DOMAIN f}
FromPairs(ps) == [x \in {p[1] : p \in ps} |-> (CHOOSE p \in ps : p[1] = x)[2]]

SnapTopic(ts) == [cur |-> ts.cur, leader |-> ts.leader, last |-> ts.last, sealed |-> Pairs(ts.sealed), segl |-> Pairs(ts.segl)]
RestTopic(sn) == [cur |-> sn.cur, leader |-> sn.leader, last |-> sn.last, sealed |-> FromPairs(sn.sealed), segl |-> FromPairs(sn.segl)]
Snapshot(s) == [topics |-> {<<t, SnapTopic(s.topics[t])>> : t \in DOMAIN s.topics}, nodes |-> Pairs(s.nodes)]
Restore(sn) == [topics |-> [t \in {p[1] : p \in sn.topics} |-> RestTopic((CHOOSE p \in sn.topics : p[1] = t)[2])],
                nodes  |-> FromPairs(sn.nodes)]

(* ---- the state and its one action ---- *)
VARIABLE st

(* one `apply` call with command `cmd` returning `res` *)
Step(cmd, res) ==
  /\ res = Apply(st, cmd).res
  /\ st' = Apply(st, cmd).st

(* ---- C18 ---- *)
RECURSIVE SumOver(_, _)
SumOver(f, D) == IF D = {} THEN 0 ELSE LET x == CHOOSE y \in D : TRUE IN f[x] + SumOver(f, D \ {x})

TopicOK(ts) ==
  /\ ts.cur >= 1
  /\ DOMAIN ts.segl = 1 .. ts.cur                    \* segments numbered 1..current, one leader each
  /\ ts.segl[ts.cur] = ts.leader                     \* leader of the open segment is the topic leader
  /\ DOMAIN ts.sealed = 1 .. (ts.cur - 1)            \* exactly the segments below the open one are sealed
  /\ ts.last = SumOver(ts.sealed, DOMAIN ts.sealed)  \* cumulative sealed offset = sum of sealed counts
  /\ ts.last <= MaxU64                               \* ... as a number, not modulo 2^64

InvSegments == \A t \in DOMAIN st.topics : TopicOK(st.topics[t])

(* a sealed segment's entry count and leader never change afterwards (action property) *)
SealedStable(old, new) ==
  \A t \in DOMAIN old.topics :
    /\ t \in DOMAIN new.topics
    /\ \A g \in DOMAIN old.topics[t].sealed :
         /\ g \in DOMAIN new.topics[t].sealed
         /\ new.topics[t].sealed[g] = old.topics[t].sealed[g]
         /\ g \in DOMAIN new.topics[t].segl
         /\ new.topics[t].segl[g] = old.topics[t].segl[g]

PropSealedStable == [][SealedStable(st, st')]_st

(* ---- C20, state-machine half ---- *)
SnapshotRoundTrip == Restore(Snapshot(st)) = st
===================================================================================
