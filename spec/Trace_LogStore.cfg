SPECIFICATION TSpec
INVARIANTS Report TypeOK
CHECK_DEADLOCK FALSE
