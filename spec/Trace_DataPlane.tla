--------------------------- MODULE Trace_DataPlane ---------------------------
(***************************************************************************************)
(* Trace validation for C22/C23: histories recorded from the REAL NodeController code    *)
(* running on the deterministic cluster simulation are checked against the CONTRACT      *)
(* part of DataPlane (only the contract: nothing of the design is consulted).            *)
(*                                                                                     *)
(* One file holds many independent histories (groups), each starting with `reset`.       *)
(*  - client events are call/ret pairs with a per-client sequence number; between call   *)
(*    and ret an internal action Lin(c), chosen by TLC and taken at most once per call,   *)
(*    applies the operation to the abstract queue: TLC decides linearizability of the     *)
(*    bounded history. `will` on a call event is the runner's look-ahead to the response  *)
(*    of that call; it is re-checked against the ret event, so a wrong annotation can      *)
(*    only reject.                                                                       *)
(*  - commit/apply events rebuild, per node, the applied metadata view (the contract's    *)
(*    own transition function); a write event must be legal in the writing node's view.   *)
(* Acceptance per group by the longest matched prefix (<<"AT", l>> lines), as in          *)
(* Trace_WalrusAPI; Abandon moves on to the next group after a rejection.                 *)
(***************************************************************************************)
EXTENDS Naturals, Sequences, FiniteSets, Json, IOUtils, TLC

DP == INSTANCE DataPlane WITH
        Nodes <- {1}, RaftLeader <- 1, InitLeader <- 1, Thr <- 1, Clients <- {}, Prog <- <<>>, MaxCmds <- 0,
        WithMonitor <- FALSE, WithSync <- FALSE, AtomicCount <- FALSE, LeaseUnderLock <- FALSE,
        LeaseOnApply <- FALSE, FreshReads <- FALSE,
        committed <- 0, applied <- 0, meta <- 0, leases <- 0, offsets <- 0, elog <- 0, ecur <- 0, klock <- 0,
        rcur <- 0, rlock <- 0, pc <- 0, ci <- 0, loc <- 0, spc <- 0, sexp <- 0, mpc <- 0, mloc <- 0,
        acked <- 0, delivered <- 0, pre <- 0, gpre <- 0, gsaw <- 0, pendPuts <- 0, viol22 <- 0, viol23 <- 0,
        sched <- 0, resp <- 0

TTopics  == {"a", "b", "logs"}
TNodes   == 1 .. 5
TClients == {0, 1, 2, 3, 4, 5, 6, 99}

Rec == ndJsonDeserialize(IOEnv.TRACE)
NRec == Len(Rec)

VARIABLES l, ok,
          q, ghost, pendPut, pend,       \* C22
          ccmds, capplied, cmeta         \* C23

tvars == <<l, ok, q, ghost, pendPut, pend, ccmds, capplied, cmeta>>

Ev == Rec[l]
Boundary(k) == k = NRec + 1 \/ Rec[k].ev = "reset"
RECURSIVE NextBoundary(_)
NextBoundary(k) == IF Boundary(k) THEN k ELSE NextBoundary(k + 1)

NoPend == [op |-> "none", t |-> "a", p |-> 0, res |-> "none", rp |-> 0, lin |-> TRUE]

BlankNext ==
  /\ q' = [t \in TTopics |-> <<>>]
  /\ ghost' = [t \in TTopics |-> {}]
  /\ pendPut' = [t \in TTopics |-> 0]
  /\ pend' = [c \in TClients |-> NoPend]
  /\ ccmds' = <<>>
  /\ capplied' = [n \in TNodes |-> 0]
  /\ cmeta' = [n \in TNodes |-> [t \in TTopics |-> DP!NoTopic]]

TInit ==
  /\ l = 1 /\ ok = TRUE
  /\ q = [t \in TTopics |-> <<>>]
  /\ ghost = [t \in TTopics |-> {}]
  /\ pendPut = [t \in TTopics |-> 0]
  /\ pend = [c \in TClients |-> NoPend]
  /\ ccmds = <<>>
  /\ capplied = [n \in TNodes |-> 0]
  /\ cmeta = [n \in TNodes |-> [t \in TTopics |-> DP!NoTopic]]

C22Unch == UNCHANGED <<q, ghost, pendPut, pend>>
C23Unch == UNCHANGED <<ccmds, capplied, cmeta>>

(* ------------------------------ C22: client history ------------------------------- *)
\* operations without an effect on the queue need no linearization step
NeedsLin(op, res) == (op = "put" /\ res = "ok") \/ (op = "get" /\ res \in {"val", "empty", "foreign"})

TCall ==
  /\ Ev.ev = "call"
  /\ pend[Ev.c].op = "none"
  /\ LET w == Ev.will  isGhost == Ev.op = "put" /\ w.res # "ok" IN
     /\ pend' = [pend EXCEPT ![Ev.c] = [op |-> Ev.op, t |-> Ev.t, p |-> Ev.p, res |-> w.res, rp |-> w.p,
                                        lin |-> ~NeedsLin(Ev.op, w.res)]]
     /\ ghost' = IF isGhost THEN [ghost EXCEPT ![Ev.t] = @ \cup {Ev.p}] ELSE ghost
     /\ pendPut' = IF Ev.op = "put" THEN [pendPut EXCEPT ![Ev.t] = @ + 1] ELSE pendPut
  /\ UNCHANGED q /\ C23Unch

TRet ==
  /\ Ev.ev = "ret"
  /\ LET pd == pend[Ev.c] IN
     /\ pd.op = Ev.op /\ pd.lin
     /\ pd.res = Ev.res
     /\ (Ev.res = "val" => pd.rp = Ev.p)
     /\ pendPut' = IF pd.op = "put" THEN [pendPut EXCEPT ![pd.t] = @ - 1] ELSE pendPut
  /\ pend' = [pend EXCEPT ![Ev.c] = NoPend]
  /\ UNCHANGED <<q, ghost>> /\ C23Unch

\* the linearization point of a pending call
Lin(c) ==
  /\ pend[c].op # "none" /\ ~pend[c].lin
  /\ LET pd == pend[c]  t == pd.t IN
     /\ CASE pd.op = "put" ->
               /\ q' = [q EXCEPT ![t] = Append(@, pd.p)] /\ UNCHANGED ghost
          [] pd.op = "get" /\ pd.res = "val" ->
               /\ DP!GetValLegal(q[t], ghost[t], pd.rp)
               /\ q' = [q EXCEPT ![t] = DP!GetValQ(@, pd.rp)]
               /\ ghost' = [ghost EXCEPT ![t] = DP!GetValGhost(q[t], @, pd.rp)]
          [] pd.op = "get" /\ pd.res = "empty" ->
               /\ DP!GetEmptyLegal(q[t], pendPut[t] > 0)
               /\ UNCHANGED <<q, ghost>>
          [] OTHER -> FALSE          \* a payload that was never PUT ("foreign") is never legal
     /\ pend' = [pend EXCEPT ![c].lin = TRUE]
  /\ UNCHANGED <<pendPut, l, ok>> /\ C23Unch

(* ------------------------------ C23: writes vs applied metadata -------------------- *)
TCommit ==
  /\ Ev.ev = "commit"
  /\ Ev.idx = Len(ccmds) + 1
  /\ ccmds' = Append(ccmds, Ev.cmd)
  /\ UNCHANGED <<capplied, cmeta>> /\ C22Unch

MetaApply(mt, cmd) ==
  IF cmd.t \notin TTopics THEN mt
  ELSE IF cmd.k = "create" THEN [mt EXCEPT ![cmd.t] = DP!MetaCreate(@, cmd.ldr)]
  ELSE IF cmd.k = "roll" THEN [mt EXCEPT ![cmd.t] = DP!MetaRoll(@, cmd.ldr, cmd.cnt)]
  ELSE mt

TApply ==
  /\ Ev.ev = "apply"
  /\ Ev.idx = capplied[Ev.node] + 1 /\ Ev.idx <= Len(ccmds)
  /\ capplied' = [capplied EXCEPT ![Ev.node] = Ev.idx]
  /\ cmeta' = [cmeta EXCEPT ![Ev.node] = MetaApply(@, ccmds[Ev.idx])]
  /\ UNCHANGED ccmds /\ C22Unch

TWrite ==
  /\ Ev.ev = "write"
  /\ Ev.t \in TTopics
  /\ DP!WriteLegal(cmeta[Ev.node][Ev.t], Ev.node, Ev.seg)
  /\ C22Unch /\ C23Unch

TNote ==
  /\ Ev.ev \in {"note", "end", "begin"}
  /\ C22Unch /\ C23Unch

Regular ==
  /\ l <= NRec
  /\ \/ TCall \/ TRet \/ TCommit \/ TApply \/ TWrite \/ TNote
  /\ l' = l + 1
  /\ UNCHANGED ok

Reset ==
  /\ l <= NRec
  /\ Ev.ev = "reset"
  /\ BlankNext
  /\ ok' = TRUE
  /\ l' = l + 1

Abandon ==
  /\ l <= NRec
  /\ Ev.ev # "reset"
  /\ l' = NextBoundary(l)
  /\ ok' = FALSE
  /\ BlankNext

TNext == Regular \/ Reset \/ Abandon \/ (l <= NRec /\ \E c \in TClients : Lin(c))
TSpec == TInit /\ [][TNext]_tvars

Report == ok => PrintT(<<"AT", l>>)
ReportState == ok => PrintT(<<"ST", l, ToJson([q |-> q, ghost |-> ghost, pendPut |-> pendPut, cmeta |-> cmeta,
                                               capplied |-> capplied])>>)
=============================================================================
