SPECIFICATION MCSpec
CONSTANTS
  MaxFrame = 3
  ConsumeOversized = TRUE
  MaxLen = 6
INVARIANTS TypeOK InvConforms InvPrefix
CHECK_DEADLOCK FALSE
