------------------------------- MODULE MC_WalKey -------------------------------
(***************************************************************************************)
(* Exhaustive check of WalKey over all topics up to length MaxLen over the alphabet      *)
(* {t,_,s,x,0,1} and the segment numbers Segs (decimal renderings made of 0/1 digits).   *)
(* One behaviour per pair: Pick -> Encode -> Decode. `Emit` is always true and prints     *)
(* the (topic, seg, key, parsed) tuple of every decoded pair as a JSON line; the runner   *)
(* feeds exactly these tuples to the real wal_key / parse_wal_key.                        *)
(***************************************************************************************)
EXTENDS WalKey, TLC, Json

CONSTANTS MaxLen, Segs

Alpha == {"t", "_", "s", "x", "0", "1"}
TopicsUpTo(n) == UNION {[1 .. k -> Alpha] : k \in 0 .. n}
Pairs == TopicsUpTo(MaxLen) \X Segs

VARIABLES pc, topic, seg, key, parsed
vars == <<pc, topic, seg, key, parsed>>

Init ==
  /\ pc = "picked"
  /\ \E p \in Pairs : topic = p[1] /\ seg = p[2]
  /\ key = <<>>
  /\ parsed = None

Encode ==
  /\ pc = "picked"
  /\ key' = Key(topic, seg)
  /\ pc' = "encoded"
  /\ UNCHANGED <<topic, seg, parsed>>

Decode ==
  /\ pc = "encoded"
  /\ parsed' = Parse(key)
  /\ pc' = "decoded"
  /\ UNCHANGED <<topic, seg, key>>

Next == Encode \/ Decode
Spec == Init /\ [][Next]_vars

(* C25, first half: decoding the key yields exactly the same topic and segment number *)
InvRoundTrip == pc = "decoded" => parsed = <<topic, seg>>

(* C25, second half: pairwise distinct keys over the whole bounded domain (constant-level, *)
(* evaluated once as an assumption).                                                      *)
AllKeys == {Key(p[1], p[2]) : p \in Pairs}
ASSUME Injective == Cardinality(AllKeys) = Cardinality(Pairs)

(* the key always has the printed shape *)
InvShape == pc # "picked" => /\ SubSeq(key, 1, 2) = Pre
                             /\ Len(key) = 2 + Len(topic) + 3 + Len(Digits(seg))

Emit == pc = "decoded" =>
          PrintT(<<"CASE", ToJson([topic |-> topic, seg |-> seg, key |-> key,
                                   parsed |-> IF parsed = None THEN <<>> ELSE <<parsed[1]>>,
                                   pseg |-> IF parsed = None THEN 0 ELSE parsed[2]])>>)
=================================================================================
