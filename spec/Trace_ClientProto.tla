---------------------------- MODULE Trace_ClientProto ----------------------------
(***************************************************************************************)
(* The same check and emission as MC_ClientProto, for streams read from a file: seeded    *)
(* random long streams (ndjson, one {"s":[symbols]} per line, path in IOEnv.TRACE).        *)
(* TLC runs the design-level server on each, checks it against the contract and prints    *)
(* the expected responses; the runner instantiates the streams with random concrete bytes  *)
(* for the real listener.                                                                *)
(***************************************************************************************)
EXTENDS MC_ClientProto, IOUtils

Rec == ndJsonDeserialize(IOEnv.TRACE)
FileStreams == {Rec[i].s : i \in 1 .. Len(Rec)}
===================================================================================
