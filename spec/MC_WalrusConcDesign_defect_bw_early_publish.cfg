SPECIFICATION Spec
CONSTANTS
  Caps <- Caps2
  MaxBatch = 6
  MaxPre2 = 9
  MaxPre3 = 9
  ProgSets <- Only_bat3_rn
  MaxThreads = 5
  FineLocks = TRUE
  DefRnStaleSnapshot = FALSE
  DefBrStaleSnapshot = FALSE
  DefBwEarlyPublish = TRUE
  MutBrNewestOnly = FALSE
VIEW ViewState
INVARIANTS NoDuplicate NoPhantom NoneLost OnlyAcked ReaderOrder
CHECK_DEADLOCK TRUE
