SPECIFICATION MCSpec
CONSTANTS
  Topics <- MCTopics
  InstOf <- MCInstOf
  MaxLen = 2
  Sizes = {0, 2}
  Budgets <- MCBudgets
INVARIANTS TypeOK InvDelivered InvReclaim InvLb
PROPERTIES PropAppendOnly PropNoSkip
CHECK_DEADLOCK FALSE
