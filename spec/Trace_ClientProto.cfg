SPECIFICATION MCSpec
CONSTANTS
  MaxFrame = 3
  DiscardOversized = TRUE
  MaxLen = 0
  Streams <- FileStreams
INVARIANTS TypeOK InvConforms InvPrefix Emit
CHECK_DEADLOCK FALSE
