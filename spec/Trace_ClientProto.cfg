SPECIFICATION MCSpec
CONSTANTS
  MaxFrame = 3
  ConsumeOversized = FALSE
  MaxLen = 0
  Streams <- FileStreams
INVARIANTS TypeOK InvConforms InvPrefix Emit
CHECK_DEADLOCK FALSE
