------------------------------ MODULE MC_LogStore ------------------------------
(***************************************************************************************)
(* Design layer of the octopii log store + bounded model.                               *)
(*                                                                                     *)
(* What the code does (octopii/src/openraft/storage.rs WalLogStore, octopii/src/wal/     *)
(* mod.rs WriteAheadLog, octopii/src/openraft/node.rs peer address records):              *)
(*   - every mutating call updates an in-memory mirror (MemLogStoreInner) and appends     *)
(*     one record per entry / vote / committed / purge / truncate to ONE engine topic      *)
(*     ("wal_data") of a Walrus instance;                                              *)
(*   - a peer address is one record appended to the topic of a second Walrus instance;    *)
(*   - opening = WriteAheadLog::read_all(): consuming batch reads until two empty batches, *)
(*     i.e. it returns the records after the engine's read cursor and moves that cursor to   *)
(*     the end; the mirror is rebuilt by replaying exactly the returned records into an       *)
(*     empty mirror; load_peer_addr_records does the same for the peer map;                 *)
(*   - there is no Drop logic: a clean drop and a kill leave the same files.              *)
(*                                                                                     *)
(* PersistCursor = TRUE  : the design as the code: the engine is opened in StrictlyAtOnce mode,  *)
(*    which persists the read cursor, so an open replays only the records appended since the      *)
(*    previous open (known finding OCT-C21-CONSUMED-REPLAY; /repo 0fba9ce tried AtLeastOnce and     *)
(*    was reverted by f75c000 because the vendored engine then never advances the cursor).         *)
(* PersistCursor = FALSE : what the contract needs: every open replays from record 1.            *)
(*                                                                                     *)
(* Every step is a contract action (LogStore) conjoined with the design action, so the     *)
(* contract state is the acknowledged state; `ObsEqual` says that what the design would     *)
(* report (its mirror, its loaded peer map) is the acknowledged state.                     *)
(*                                                                                     *)
(* Configurations: MC_LogStore_quick / _thorough (PersistCursor = FALSE: ObsEqual holds,       *)
(* coverage), MC_LogStore_defect (PersistCursor = TRUE: ObsEqualCex must be violated; one worker  *)
(* => a shortest history; also the vacuity guard that the contract can reject a design),          *)
(* MC_LogStore_gen (history generation, the code's design), MC_LogStore_gen_guard (CONSTRAINT      *)
(* ObsEqual = avoidance guard of the known finding), MC_LogStore_gen_deep (-simulate).            *)
(*                                                                                     *)
(* `hist` is the operation history (hidden by VIEW); `PrintHist` (always true) prints it    *)
(* once per distinct (design state, contract state) reached by a reopen: the histories       *)
(* executed on the real code.                                                          *)
(***************************************************************************************)
EXTENDS LogStore, TLC, Json

CONSTANTS PersistCursor,  \* see above
          MaxOps,         \* store operations per history (reopens not counted)
          MaxReopens,
          MaxIndex,       \* highest log index
          MaxTerm,
          MaxBatch        \* entries per append

VARIABLES wal, walCur,    \* log topic: sequence of records; read cursor (records consumed by the last open)
          mirror,         \* [vote, committed, purged, log]
          pwal, pwalCur,  \* peer topic and its cursor
          loaded,         \* peer map returned by the load at the last open
          peersAtOpen,    \* (ghost) acknowledged peers at the last open
          nops, nreopens, nextD,
          hist

dvars == <<wal, walCur, mirror, pwal, pwalCur, loaded, peersAtOpen>>
bvars == <<nops, nreopens, nextD>>
mvars == <<cvars, dvars, bvars, hist>>

EmptyMirror == [vote |-> None, committed |-> None, purged |-> None, log |-> {}]

(* one WAL record applied to a mirror: recover_from_wal's match arms *)
ApplyRec(m, r) ==
  CASE r.r = "entry"     -> [m EXCEPT !.log = AppendTo(@, <<r.e>>)]
    [] r.r = "vote"      -> [m EXCEPT !.vote = Some(r.v)]
    [] r.r = "committed" -> [m EXCEPT !.committed = r.c]
    [] r.r = "purged"    -> [m EXCEPT !.log = PurgeAt(@, r.at), !.purged = Some(r.at)]
    [] r.r = "trunc"     -> [m EXCEPT !.log = TruncateAt(@, r.at)]

RECURSIVE Replay(_, _)
Replay(m, recs) == IF recs = <<>> THEN m ELSE Replay(ApplyRec(m, Head(recs)), Tail(recs))

RECURSIVE ReplayPeers(_, _)
ReplayPeers(P, recs) == IF recs = <<>> THEN P ELSE ReplayPeers(PutPeer(P, Head(recs)[1], Head(recs)[2]), Tail(recs))

Unread(w, c) == SubSeq(w, (IF PersistCursor THEN c ELSE 0) + 1, Len(w))

(* ---- design actions ---- *)
DWrite(recs) ==
  /\ wal' = wal \o recs
  /\ mirror' = Replay(mirror, recs)     \* the code updates the mirror first, then appends
  /\ UNCHANGED <<walCur, pwal, pwalCur, loaded, peersAtOpen>>

DRecordPeer(id, a) ==
  /\ pwal' = Append(pwal, <<id, a>>)
  /\ UNCHANGED <<wal, walCur, mirror, pwalCur, loaded, peersAtOpen>>

DReopen ==
  /\ mirror' = Replay(EmptyMirror, Unread(wal, walCur))
  /\ walCur' = Len(wal)
  /\ loaded' = ReplayPeers({}, Unread(pwal, pwalCur))
  /\ pwalCur' = Len(pwal)
  /\ peersAtOpen' = peers
  /\ UNCHANGED <<wal, pwal>>

(* ---- bounded choices (well-formed use of the API, as openraft drives it) ---- *)
MaxOf(S) == CHOOSE x \in S : \A y \in S : y <= x
LastIdx == IF log # {} THEN MaxOf(Indexes(log)) ELSE IF purged # None THEN purged[1].i ELSE 0
CurTerm == IF log # {} THEN MaxOf({e.t : e \in log}) ELSE IF purged # None THEN purged[1].t ELSE 1

Kinds == {"normal", "blank", "membership"}
MkEntry(t, i, k, d) == [t |-> t, n |-> 1, i |-> i, k |-> k,
                        d |-> IF k = "blank" THEN 0 ELSE IF k = "membership" THEN 1 + (d % 2) ELSE d]
AppendChoices ==
  {<<MkEntry(t, LastIdx + 1, k, nextD)>> : t \in {CurTerm, CurTerm + 1} \cap (1 .. MaxTerm), k \in Kinds}
  \cup (IF MaxBatch >= 2
        THEN {<<MkEntry(t, LastIdx + 1, k, nextD), MkEntry(t, LastIdx + 2, "normal", nextD + 1)>> :
                t \in {CurTerm} , k \in {"normal", "blank"}}
        ELSE {})

Votes == {[t |-> 1, n |-> 1, c |-> FALSE], [t |-> 2, n |-> 2, c |-> TRUE]}
PeerIds == {2, 3}
Addrs == {"127.0.0.1:7002", "[::1]:7003"}

Step(o) ==
  /\ nops < MaxOps
  /\ nops' = nops + 1
  /\ hist' = Append(hist, o)
  /\ UNCHANGED nreopens

MCAppend ==
  \E es \in AppendChoices :
    /\ LastIdx + Len(es) <= MaxIndex
    /\ AppendEntries(es)
    /\ DWrite([j \in 1 .. Len(es) |-> [r |-> "entry", e |-> es[j]]])
    /\ nextD' = nextD + Len(es)
    /\ Step([op |-> "append", es |-> es])

MCTruncate ==
  \E e \in log :
    /\ Truncate(LogIdOf(e))
    /\ DWrite(<<[r |-> "trunc", at |-> LogIdOf(e)]>>)
    /\ Step([op |-> "truncate", at |-> LogIdOf(e)])
    /\ UNCHANGED nextD

MCPurge ==
  \E e \in log :
    /\ Purge(LogIdOf(e))
    /\ DWrite(<<[r |-> "purged", at |-> LogIdOf(e)]>>)
    /\ Step([op |-> "purge", at |-> LogIdOf(e)])
    /\ UNCHANGED nextD

MCSaveVote ==
  \E v \in Votes :
    /\ vote # Some(v)
    /\ SaveVote(v)
    /\ DWrite(<<[r |-> "vote", v |-> v]>>)
    /\ Step([op |-> "save_vote", v |-> v])
    /\ UNCHANGED nextD

MCSaveCommitted ==
  \E c \in {None} \cup {Some(LogIdOf(e)) : e \in log} :
    /\ c # committed
    /\ SaveCommitted(c)
    /\ DWrite(<<[r |-> "committed", c |-> c]>>)
    /\ Step([op |-> "save_committed", c |-> c])
    /\ UNCHANGED nextD

MCRecordPeer ==
  \E id \in PeerIds, a \in Addrs :
    /\ <<id, a>> \notin peers
    /\ RecordPeer(id, a)
    /\ DRecordPeer(id, a)
    /\ Step([op |-> "record_peer", id |-> id, addr |-> a])
    /\ UNCHANGED nextD

MCReopen ==
  /\ nreopens < MaxReopens
  /\ nops > 0
  /\ \E kind \in ReopenKinds :
       /\ Reopen(kind)
       /\ DReopen
       /\ hist' = Append(hist, [op |-> "reopen", kind |-> kind])
  /\ nreopens' = nreopens + 1
  /\ UNCHANGED <<nops, nextD>>

(* Observations change nothing; as actions they only confirm, for coverage, that the       *)
(* contract's observation is enabled with what the design reports whenever ObsEqual holds. *)
MCObserve ==
  /\ ReadVote(mirror.vote)
  /\ ReadCommitted(mirror.committed)
  /\ GetLogState(mirror.purged,
                 IF mirror.log = {} THEN mirror.purged
                 ELSE Some(LogIdOf(CHOOSE e \in mirror.log : \A f \in mirror.log : f.i <= e.i)))
  /\ UNCHANGED <<dvars, bvars, hist>>

MCInit ==
  /\ Init
  /\ wal = <<>> /\ walCur = 0 /\ mirror = EmptyMirror
  /\ pwal = <<>> /\ pwalCur = 0 /\ loaded = {} /\ peersAtOpen = {}
  /\ nops = 0 /\ nreopens = 0 /\ nextD = 1
  /\ hist = <<>>

MCNext == MCAppend \/ MCTruncate \/ MCPurge \/ MCSaveVote \/ MCSaveCommitted \/ MCRecordPeer
          \/ MCReopen \/ MCObserve
MCSpec == MCInit /\ [][MCNext]_mvars

(* ---- C21 on the design ---- *)
ObsEqual ==
  /\ mirror.vote = vote
  /\ mirror.committed = committed
  /\ mirror.purged = purged
  /\ mirror.log = log
  /\ loaded = peersAtOpen

(* the mirror the code keeps between restarts is the replay of everything written so far:   *)
(* holds for both settings, it is what makes "one restart" work *)
InvMirrorIsFullReplayBeforeFirstReopen ==
  nreopens = 0 => mirror = Replay(EmptyMirror, wal)

(* the same, but a violation prints the history as JSON (the counterexample the runner replays   *)
(* on the real code); with one worker TLC's breadth-first search makes it a shortest one *)
ObsEqualCex == ObsEqual \/ (PrintT(<<"CEX", ToJson(hist)>>) /\ FALSE)

View == <<cvars, dvars, bvars>>
(* always true; prints the history of every distinct state reached by a reopen *)
PrintHist == (nreopens > 0 /\ hist[Len(hist)].op = "reopen") => PrintT(<<"HIST", ToJson(hist)>>)
(* avoidance guard for the known finding (used with CONSTRAINT ObsEqual): only histories along    *)
(* which the design reports the acknowledged state, so that any other violation stays detectable *)
PrintHistGuard == (nreopens > 0 /\ hist[Len(hist)].op = "reopen" /\ ObsEqual) => PrintT(<<"HIST", ToJson(hist)>>)
=============================================================================
