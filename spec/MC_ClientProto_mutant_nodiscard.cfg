\* Vacuity guard (thorough self-test): the server that does NOT consume the body of an oversized
\* frame. TLC is expected to report a violation of InvConforms / InvPrefix.
SPECIFICATION MCSpec
CONSTANTS
  MaxFrame = 3
  DiscardOversized = FALSE
  MaxLen = 5
INVARIANTS TypeOK InvConforms InvPrefix
CHECK_DEADLOCK FALSE
