---------------------------------- MODULE Namespace ----------------------------------
(***************************************************************************************)
(* C14: a namespace key always maps to a private directory strictly inside the data     *)
(* directory. Keys are sequences over character classes; the model is a transcription   *)
(* of sanitize_namespace (config.rs) and of how WalPathManager pushes the result onto    *)
(* the data directory (paths.rs), including the path semantics of "." and "..".          *)
(*                                                                                     *)
(* Classes: "a" ASCII alphanumeric, "-" and "_" and "." themselves, "/" separator,       *)
(* "s" white space, "0" NUL, "u" non-ASCII.                                             *)
(***************************************************************************************)
EXTENDS Naturals, Sequences, FiniteSets

CONSTANTS Classes,     \* the character classes used to build keys
          MaxLen,      \* keys up to this length
          DotFix       \* TRUE: "." and ".." are replaced by a hashed name (the code after the fix)

Keep == {"a", "-", "_", "."}

SanChar(c) == IF c \in Keep THEN c ELSE "_"
SanSeq(k)  == [i \in 1 .. Len(k) |-> SanChar(k[i])]

AllUnderscore(s) == \A i \in 1 .. Len(s) : s[i] = "_"
DotOnly(s) == s = <<".">> \/ s = <<".", ".">>

(* The directory name the key is mapped to: the sanitised key, or the token HASH standing   *)
(* for "ns_<hex checksum>" (always a plain name).                                         *)
DirName(k) ==
  LET s == SanSeq(k) IN
  IF AllUnderscore(s) \/ (DotFix /\ DotOnly(s)) THEN <<"HASH">> ELSE s

(* Where a path component lands relative to the data directory (PathBuf::push + fs          *)
(* resolution): "." = the data dir itself, ".." = its parent, anything else a child.       *)
Lands(name) ==
  IF name = <<".">> THEN "datadir"
  ELSE IF name = <<".", ".">> THEN "parent"
  ELSE "child"

Keys == UNION {[1 .. n -> Classes] : n \in 0 .. MaxLen}

VARIABLE key
Init == key \in Keys
Next == UNCHANGED key
Spec == Init /\ [][Next]_key

(* C14 *)
StrictlyInside == Lands(DirName(key)) = "child"
(* a sanitised name never contains a separator, NUL, white space or non-ASCII *)
NameIsPlain == \A i \in 1 .. Len(DirName(key)) : DirName(key)[i] \in Keep \cup {"HASH"}
(* distinctness is NOT promised by C14 (different keys may sanitise equally) *)
========================================================================================
