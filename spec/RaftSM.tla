------------------------------ MODULE RaftSM ------------------------------
(***************************************************************************************)
(* The octopii Raft state-machine adapter (MemStateMachine in                             *)
(* octopii/src/openraft/storage.rs) per node, for property C20 (adapter half):            *)
(*   a node that installs a snapshot built by another node ends up with exactly the        *)
(*   sender's application state as of the snapshot, and stays equal to it after applying    *)
(*   the same subsequent commands.                                                       *)
(*                                                                                     *)
(* Per node: `lastApplied` (log index), `lastMembership` (index of the last membership     *)
(* entry applied), the adapter's own key-value map `data` (StateMachineData.data — no code  *)
(* path ever writes it, so it is always empty), the application state `app` (abstract: the  *)
(* sequence of commands the application has applied — the most discriminating abstraction   *)
(* of any deterministic application, Metadata included), and the current snapshot.         *)
(* `cmds` is the committed log every node applies in order (Raft itself is assumed, C19).   *)
(*                                                                                     *)
(* SnapshotSource = "app": the design as the code since /repo c0348bc: the snapshot carries the   *)
(*    application's own snapshot(); install_snapshot first hands it to restore() and only then    *)
(*    replaces lastApplied / lastMembership and stores the snapshot; a snapshot whose bytes do not   *)
(*    decode (InstallCorruptSnapshot) fails and changes nothing.                              *)
(* SnapshotSource = "adapter_data": MUTANT (the code before c0348bc): build_snapshot serialises     *)
(*    `data`; install_snapshot deserialises that map into `data`, replaces lastApplied /           *)
(*    lastMembership, re-serialises the map and hands those bytes to the application's restore().    *)
(*    RestoreOfMapBytes says what restore() does with the bytes of an empty string map: "empty"      *)
(*    (decodes to an empty state: KvStateMachine) or "error" (does not decode: Metadata). Kept as    *)
(*    vacuity guards (MC_RaftSM_defect*.cfg, expected to be violated, thorough-tier self-test).      *)
(***************************************************************************************)
EXTENDS Naturals, Sequences, FiniteSets

CONSTANTS Nodes, SnapshotSource, RestoreOfMapBytes

VARIABLES cmds,            \* sequence of entries [k |-> "normal" | "blank" | "membership", c |-> command id]
          lastApplied,     \* [Nodes -> Nat]
          lastMembership,  \* [Nodes -> Nat]
          data,            \* [Nodes -> set of <<key, value>>]
          app,             \* [Nodes -> Seq(command id)]
          curSnap,         \* [Nodes -> <<>> or <<snapshot>>]
          lastInstall      \* <<>> or <<[node, res |-> "ok" | "err", snap]>>

svars == <<cmds, lastApplied, lastMembership, data, app, curSnap, lastInstall>>

None == <<>>
Some(x) == <<x>>

(* the application state a node must have after applying the first k committed entries *)
RECURSIVE AppOf(_)
AppOf(es) ==
  IF es = <<>> THEN <<>>
  ELSE LET r == AppOf(SubSeq(es, 1, Len(es) - 1)) e == es[Len(es)] IN
       IF e.k = "normal" THEN Append(r, e.c) ELSE r

RECURSIVE MemOf(_)
MemOf(es) ==
  IF es = <<>> THEN 0
  ELSE IF es[Len(es)].k = "membership" THEN Len(es) ELSE MemOf(SubSeq(es, 1, Len(es) - 1))

Init ==
  /\ cmds = <<>>
  /\ lastApplied = [n \in Nodes |-> 0]
  /\ lastMembership = [n \in Nodes |-> 0]
  /\ data = [n \in Nodes |-> {}]
  /\ app = [n \in Nodes |-> <<>>]
  /\ curSnap = [n \in Nodes |-> None]
  /\ lastInstall = None

Commit(e) ==
  /\ cmds' = Append(cmds, e)
  /\ UNCHANGED <<lastApplied, lastMembership, data, app, curSnap, lastInstall>>

(* apply(): entries lastApplied+1 .. lastApplied+k, in order, each exactly once *)
Apply(n, k) ==
  /\ k >= 1 /\ lastApplied[n] + k <= Len(cmds)
  /\ LET upto == lastApplied[n] + k
         batch == SubSeq(cmds, lastApplied[n] + 1, upto)
         mem == MemOf(batch)
     IN /\ lastApplied' = [lastApplied EXCEPT ![n] = upto]
        /\ app' = [app EXCEPT ![n] = @ \o AppOf(batch)]
        /\ lastMembership' = [lastMembership EXCEPT ![n] = IF mem = 0 THEN @ ELSE lastApplied[n] + mem]
  /\ UNCHANGED <<cmds, data, curSnap, lastInstall>>

SnapOf(n) ==
  [last |-> lastApplied[n], mem |-> lastMembership[n],
   bytes |-> IF SnapshotSource = "adapter_data" THEN [src |-> "map", v |-> data[n]]
                                               ELSE [src |-> "app", v |-> app[n]]]

BuildSnapshot(n) ==
  /\ curSnap' = [curSnap EXCEPT ![n] = Some(SnapOf(n))]
  /\ UNCHANGED <<cmds, lastApplied, lastMembership, data, app, lastInstall>>

InstallSnapshot(m, s) ==
  /\ lastApplied' = [lastApplied EXCEPT ![m] = s.last]
  /\ lastMembership' = [lastMembership EXCEPT ![m] = s.mem]
  /\ IF s.bytes.src = "app"
     THEN /\ app' = [app EXCEPT ![m] = s.bytes.v]
          /\ data' = data
          /\ curSnap' = [curSnap EXCEPT ![m] = Some(s)]
          /\ lastInstall' = Some([node |-> m, res |-> "ok", snap |-> s, corrupt |-> FALSE])
     ELSE /\ data' = [data EXCEPT ![m] = s.bytes.v]
          /\ IF s.bytes.v = {} /\ RestoreOfMapBytes = "error"
             THEN /\ app' = app
                  /\ curSnap' = curSnap
                  /\ lastInstall' = Some([node |-> m, res |-> "err", snap |-> s, corrupt |-> FALSE])
             ELSE /\ app' = [app EXCEPT ![m] = <<>>]     \* restore(bytes of the map) = empty state
                  /\ curSnap' = [curSnap EXCEPT ![m] = Some(s)]
                  /\ lastInstall' = Some([node |-> m, res |-> "ok", snap |-> s, corrupt |-> FALSE])
  /\ UNCHANGED cmds

(* a snapshot damaged in transit: its bytes decode neither as the application's snapshot nor as    *)
(* the adapter's map. Both variants decode first and fail before touching anything. *)
InstallCorruptSnapshot(m, s) ==
  /\ lastInstall' = Some([node |-> m, res |-> "err", snap |-> s, corrupt |-> TRUE])
  /\ UNCHANGED <<cmds, lastApplied, lastMembership, data, app, curSnap>>

GetCurrentSnapshot(n, s) == s = curSnap[n] /\ UNCHANGED svars

(* ---- C20, adapter half ---- *)
(* every node's application state is the one determined by the entries it has applied: in     *)
(* particular right after an install (= the sender's state as of the snapshot) and after any     *)
(* further applies (= stays equal under the same commands) *)
InvConverged == \A n \in Nodes : app[n] = AppOf(SubSeq(cmds, 1, lastApplied[n]))
(* installing a snapshot that a node of the same cluster built succeeds *)
InvInstallSucceeds ==
  IF lastInstall = None THEN TRUE ELSE (lastInstall[1].res = "ok" \/ lastInstall[1].corrupt)
(* the adapter's bookkeeping that openraft reads back *)
InvMembership == \A n \in Nodes : lastMembership[n] = MemOf(SubSeq(cmds, 1, lastApplied[n]))
=============================================================================
