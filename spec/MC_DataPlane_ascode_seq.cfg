SPECIFICATION Spec
CONSTANTS
  Nodes = {1, 2}
  RaftLeader = 1
  InitLeader = 2
  Thr = 1
  Clients <- ClientsDef
  Prog <- ProgDef
  ProgSel = "seq2"
  MaxCmds = 3
  WithMonitor = FALSE
  WithSync = TRUE
  AtomicCount = FALSE
  LeaseUnderLock = FALSE
  LeaseOnApply = FALSE
  FreshReads = FALSE
VIEW View
CONSTRAINT Bound
CHECK_DEADLOCK FALSE
INVARIANT InvC22
