---------------------------- MODULE MC_DataPlane ----------------------------
(* Bounded configurations of the DataPlane design. Client programs are chosen per cfg through *)
(* the ProgSel constant.                                                                         *)
EXTENDS DataPlane, Json

CONSTANT ProgSel

put(p, v) == [op |-> "put", p |-> p, via |-> v]
get(v)    == [op |-> "get", p |-> 0, via |-> v]

\* two producers and one consumer, everything through node 1 / node 2
ProgDef ==
  CASE ProgSel = "p2g3"  -> (1 :> <<put(1, 1), put(3, 1)>>) @@ (2 :> <<put(2, 1)>>) @@ (3 :> <<get(1), get(1), get(1), get(1)>>)
    [] ProgSel = "p3g4x" -> (1 :> <<put(1, 1), put(3, 2)>>) @@ (2 :> <<put(2, 2)>>) @@ (3 :> <<get(1), get(2), get(1), get(1)>>)
    [] ProgSel = "p2g2"  -> (1 :> <<put(1, 1)>>) @@ (2 :> <<put(2, 1)>>) @@ (3 :> <<get(1), get(1), get(1)>>)
    [] ProgSel = "seq"   -> (1 :> <<put(1, 1), put(2, 2), put(3, 1), get(2), get(1), get(1), get(2)>>)
    [] ProgSel = "stale" -> (1 :> <<put(1, 1), put(2, 1), get(1), get(2), get(2)>>)
    [] ProgSel = "seq2"  -> (1 :> <<put(1, 2), put(2, 2), get(1), get(1)>>)
    [] ProgSel = "stale3" -> (1 :> <<put(1, 1), put(2, 2), get(3), get(3)>>)

ClientsDef == DOMAIN ProgDef

\* behaviours end when every client is done or a violation was flagged
Bound == viol22 = "none" /\ viol23 = "none"

\* always true: prints the schedule and the predicted responses of every complete behaviour
PrintDone == AllDone => PrintT(<<"BEH", ToJson([sched |-> sched, resp |-> resp])>>)

\* behaviour generation: a walk ends once every client is done
NotDoneYet == ~AllDone

\* reachability witnesses (expected to be violated; they show the interesting states exist)
NeverRolled == Len(committed) = 0
=============================================================================
