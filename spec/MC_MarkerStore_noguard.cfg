SPECIFICATION Spec
CONSTANTS
  Topics = {"a"}
  MaxInst = 3
  MaxCalls = 4
  FlushOnDrop = TRUE
  FlushByLastRef = FALSE
  GenGuard = FALSE
  CloseOnFinalFlush = TRUE
  Prompt = FALSE
  KeepHist = FALSE
VIEW View
INVARIANTS TypeOK C17Cex FileAfterDrop GenNotAhead ClosedMeansGone SingleWriter
CHECK_DEADLOCK FALSE
