------------------------------- MODULE ClientProto -------------------------------
(***************************************************************************************)
(* C24: the client-facing TCP protocol of distributed-walrus/src/client.rs.             *)
(*                                                                                     *)
(* The byte stream a client sends is a sequence of symbols 0..4. At a frame boundary a   *)
(* symbol is a LENGTH PREFIX (it stands for the 4-byte little-endian length): its value   *)
(* is the number of body symbols announced; 0 is the zero length, a value above MaxFrame  *)
(* stands for a length above MAX_FRAME_LEN (64 KiB). Inside a body a symbol is a BYTE     *)
(* CLASS:                                                                               *)
(*   SP  = 0  white space                                                               *)
(*   P   = 1  leading a body: the words "PUT <topic>"; elsewhere an ordinary character    *)
(*   G   = 2  leading a body: the words "GET <topic>"; elsewhere an ordinary character    *)
(*   XX  = 3  an ordinary character (leading a body: an unknown command word)             *)
(*   BAD = 4  bytes that are not valid UTF-8                                             *)
(* The topic is registered beforehand; the data plane behind the listener is a FIFO.      *)
(*                                                                                     *)
(* Layer A (contract): the frames as the client meant them, and the one response each     *)
(* complete frame must get, in order. Layer B (design): the server loop of client.rs      *)
(* (ReadLen, RejectLen, DiscardBody, ReadBody, RejectUtf8, Dispatch, Respond), step by    *)
(* step. client.rs reads and discards the announced body of an oversized frame before it   *)
(* answers (DiscardOversized = TRUE); the server that answers without consuming the body   *)
(* (DiscardOversized = FALSE, the code before commit 6b5fd09) is kept as a mutant that the  *)
(* contract must reject.                                                                 *)
(* Payloads are identified by their position range <<lo, hi>> in the stream, so the       *)
(* binding can instantiate every position with arbitrary bytes of its class.              *)
(***************************************************************************************)
EXTENDS Naturals, Sequences

CONSTANTS MaxFrame,          \* largest accepted body length, in symbols
          DiscardOversized   \* TRUE: client.rs (oversized body read and discarded); FALSE: mutant, body left in the socket

SP == 0
P == 1
G == 2
XX == 3
BAD == 4
Sym == 0 .. 4

Err   == [k |-> "ERR",   lo |-> 0, hi |-> 0]
Ok    == [k |-> "OK",    lo |-> 0, hi |-> 0]
Empty == [k |-> "EMPTY", lo |-> 0, hi |-> 0]
Val(lo, hi) == [k |-> "VAL", lo |-> lo, hi |-> hi]

(* ---------------- what a body means (handle_command on text.trim_end()) ---------------- *)
HasBad(s, lo, hi) == \E i \in lo .. hi : s[i] = BAD

(* last position of the body that is not trailing white space (lo - 1 if all white space) *)
RECURSIVE TrimEnd(_, _, _)
TrimEnd(s, lo, hi) == IF hi < lo THEN hi ELSE IF s[hi] = SP THEN TrimEnd(s, lo, hi - 1) ELSE hi

(* class of the command in body s[lo..hi], and the payload range of a PUT *)
Command(s, lo, hi) ==
  IF HasBad(s, lo, hi) THEN [c |-> "utf8", lo |-> 0, hi |-> 0]
  ELSE LET e == TrimEnd(s, lo, hi) IN
       IF e < lo THEN [c |-> "unknown", lo |-> 0, hi |-> 0]                  \* empty line: op = ""
       ELSE IF s[lo] = P THEN (IF e = lo THEN [c |-> "incomplete", lo |-> 0, hi |-> 0]   \* "PUT requires a payload"
                               ELSE [c |-> "put", lo |-> lo + 1, hi |-> e])
       ELSE IF s[lo] = G THEN [c |-> "get", lo |-> 0, hi |-> 0]               \* third part ignored
       ELSE [c |-> "unknown", lo |-> 0, hi |-> 0]

(* response of the data plane to a command, and the FIFO afterwards *)
Answer(cmd, fifo) ==
  CASE cmd.c = "put" -> [r |-> Ok, q |-> Append(fifo, <<cmd.lo, cmd.hi>>)]
    [] cmd.c = "get" -> IF fifo = <<>> THEN [r |-> Empty, q |-> fifo]
                        ELSE [r |-> Val(Head(fifo)[1], Head(fifo)[2]), q |-> Tail(fifo)]
    [] OTHER         -> [r |-> Err, q |-> fifo]

(* ---------------- layer A: the client's framing and the expected responses ---------------- *)
(* frames from position pos on: kind zero | over | ok | partial, body range lo..hi, and for   *)
(* complete frames the command class                                                         *)
RECURSIVE Frames(_, _)
Frames(s, pos) ==
  IF pos > Len(s) THEN <<>>
  ELSE LET n == s[pos] IN
       IF n = 0 THEN <<[kind |-> "zero", n |-> 0, lo |-> pos + 1, hi |-> pos, c |-> "zero"]>> \o Frames(s, pos + 1)
       ELSE IF pos + n > Len(s)
            THEN <<[kind |-> "partial", n |-> n, lo |-> pos + 1, hi |-> Len(s), c |-> IF n > MaxFrame THEN "over" ELSE "ok"]>>
            ELSE <<[kind |-> IF n > MaxFrame THEN "over" ELSE "ok", n |-> n, lo |-> pos + 1, hi |-> pos + n,
                    c |-> IF n > MaxFrame THEN "over" ELSE Command(s, pos + 1, pos + n).c]>> \o Frames(s, pos + n + 1)

RECURSIVE Responses(_, _, _, _)
Responses(s, fr, i, fifo) ==
  IF i > Len(fr) \/ fr[i].kind = "partial" THEN <<>>
  ELSE IF fr[i].kind \in {"zero", "over"} THEN <<Err>> \o Responses(s, fr, i + 1, fifo)
  ELSE LET a == Answer(Command(s, fr[i].lo, fr[i].hi), fifo) IN <<a.r>> \o Responses(s, fr, i + 1, a.q)

Expected(s) == Responses(s, Frames(s, 1), 1, <<>>)

(* an incomplete trailing frame whose length is already known to be invalid may be answered *)
TailSlack(s) == LET fr == Frames(s, 1) IN Len(fr) > 0 /\ fr[Len(fr)].kind = "partial" /\ fr[Len(fr)].n > MaxFrame

(* The contract: one response per complete frame, in order, each of the right kind, PUT payloads *)
(* coming back from GET as the identical byte range (trailing white space of the line excluded). *)
Conforms(s, resp) == resp = Expected(s) \/ (TailSlack(s) /\ resp = Expected(s) \o <<Err>>)

(* ---------------- layer B: the server loop of client.rs ---------------- *)
VARIABLES stream,   \* what the client sends, then EOF
          pos,      \* next unread position of the socket
          pc,       \* ReadLen | RejectLen | DiscardBody | ReadBody | RejectUtf8 | Dispatch | Respond | Done
          flen,     \* frame_len
          blo, bhi, \* buf = stream[blo..bhi]
          fifo,     \* the data plane
          pending,  \* response computed by handle_command
          resp      \* responses written to the socket so far
vars == <<stream, pos, pc, flen, blo, bhi, fifo, pending, resp>>

Init(streams) ==
  /\ stream \in streams
  /\ pos = 1 /\ pc = "ReadLen" /\ flen = 0 /\ blo = 1 /\ bhi = 0
  /\ fifo = <<>> /\ pending = Err /\ resp = <<>>

(* socket.read_exact(&mut len_buf): EOF here ends the connection gracefully *)
ReadLen ==
  /\ pc = "ReadLen"
  /\ IF pos > Len(stream)
     THEN /\ pc' = "Done"
          /\ UNCHANGED <<pos, flen>>
     ELSE /\ flen' = stream[pos]
          /\ pos' = pos + 1
          /\ pc' = IF stream[pos] = 0 \/ stream[pos] > MaxFrame THEN "RejectLen" ELSE "ReadBody"
  /\ UNCHANGED <<stream, blo, bhi, fifo, pending, resp>>

(* if frame_len == 0 || frame_len > MAX_FRAME_LEN {                                        *)
(*     let mut remaining = frame_len; while remaining > 0 { read_exact(sink[..n])?; .. }    *)
(*     send_response("ERR invalid frame length"); continue }                               *)
(* A zero length has nothing to discard; an oversized one goes through DiscardBody first.   *)
RejectLen ==
  /\ pc = "RejectLen"
  /\ IF flen > 0 /\ DiscardOversized
     THEN /\ pc' = "DiscardBody"
          /\ UNCHANGED resp
     ELSE /\ resp' = Append(resp, Err)
          /\ pc' = "ReadLen"
  /\ UNCHANGED <<stream, pos, flen, blo, bhi, fifo, pending>>

(* the discard loop: EOF inside the announced body closes the connection without a response *)
DiscardBody ==
  /\ pc = "DiscardBody"
  /\ IF pos + flen - 1 > Len(stream)
     THEN /\ pos' = Len(stream) + 1
          /\ pc' = "Done"
          /\ UNCHANGED resp
     ELSE /\ pos' = pos + flen
          /\ resp' = Append(resp, Err)
          /\ pc' = "ReadLen"
  /\ UNCHANGED <<stream, flen, blo, bhi, fifo, pending>>

(* socket.read_exact(&mut buf)?  -- EOF inside the body closes the connection, no response *)
ReadBody ==
  /\ pc = "ReadBody"
  /\ IF pos + flen - 1 > Len(stream)
     THEN /\ pos' = Len(stream) + 1
          /\ pc' = "Done"
          /\ UNCHANGED <<blo, bhi>>
     ELSE /\ blo' = pos
          /\ bhi' = pos + flen - 1
          /\ pos' = pos + flen
          /\ pc' = IF HasBad(stream, pos, pos + flen - 1) THEN "RejectUtf8" ELSE "Dispatch"
  /\ UNCHANGED <<stream, flen, fifo, pending, resp>>

(* String::from_utf8(buf) failed: send "ERR invalid utf-8"; continue *)
RejectUtf8 ==
  /\ pc = "RejectUtf8"
  /\ resp' = Append(resp, Err)
  /\ pc' = "ReadLen"
  /\ UNCHANGED <<stream, pos, flen, blo, bhi, fifo, pending>>

(* handle_command(text.trim_end(), controller) *)
Dispatch ==
  /\ pc = "Dispatch"
  /\ LET a == Answer(Command(stream, blo, bhi), fifo) IN
       /\ pending' = a.r
       /\ fifo' = a.q
  /\ pc' = "Respond"
  /\ UNCHANGED <<stream, pos, flen, blo, bhi, resp>>

(* send_response(&mut socket, &response) *)
Respond ==
  /\ pc = "Respond"
  /\ resp' = Append(resp, pending)
  /\ pc' = "ReadLen"
  /\ UNCHANGED <<stream, pos, flen, blo, bhi, fifo, pending>>

Next == ReadLen \/ RejectLen \/ DiscardBody \/ ReadBody \/ RejectUtf8 \/ Dispatch \/ Respond
===================================================================================
