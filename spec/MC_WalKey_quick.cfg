SPECIFICATION Spec
CONSTANTS
  MaxLen = 4
  Segs = {0, 1, 10, 11, 100, 101}
INVARIANTS InvRoundTrip InvShape Emit
CHECK_DEADLOCK FALSE
