------------------------------ MODULE MC_WalrusBlocks ------------------------------
(***************************************************************************************)
(* Bounded instances of the design WalrusBlocks in the tiny geometry of the             *)
(* cfg(walrus_verif_tiny) build (2 KiB blocks, 4 units per file, 256-byte header,        *)
(* MAX_ALLOC 8192, batch cap 6).                                                        *)
(*   MC_WalrusBlocks_quick (1 topic, <= 5 operations), _thorough (<= 6 operations, 2         *)
(*   restarts), _wide (<= 4 operations over all sizes/budgets/shapes/modes, peeks, rejected    *)
(*   calls), _two (2 topics, <= 5 operations): refinement (RefinesCex) + the design/contract   *)
(*   invariants, -coverage 1; quick, wide and two also emit the behaviours (PrintHist).        *)
(*   MC_WalrusBlocks_sim : long random behaviours (-simulate), 2 topics, <= 16 operations.     *)
(*   MC_WalrusBlocks_defect_* : one historical defect switched back on; TLC must report    *)
(*       a violation of RefinesCex and print the behaviour (vacuity guard + regression).  *)
(* `hist` is hidden by VIEW, so TLC's breadth-first search visits every distinct          *)
(* (code path of the last operation, design state, contract state) once and PrintHist      *)
(* prints one shortest behaviour for each.                                               *)
(***************************************************************************************)
EXTENDS WalrusBlocks, TLC, Json

MCTopics1 == {"a"}
MCTopics2 == {"a", "b"}
MCInstOf(t) == 0

BudgetsQ == {0, 600, -1}
BudgetsT == {0, 100, 600, 5000, -1}
ModesAll == {<<"strict", 1>>, <<"alo", 1>>, <<"alo", 2>>}
ModesStrict == {<<"strict", 1>>}
ModesQ == {<<"strict", 1>>, <<"alo", 2>>}

ShapesQ == {<<100, 100>>, <<100, 1500>>}
ShapesT == {<<100, 100>>, <<300, 1500>>, <<1500, 1500>>, <<0, 100, 300, 1500, 1792, 100>>}
ShapesBad == {<<100, 100, 100, 100, 100, 100, 100>>}
FailQ == {<<100, 100>>, <<100, 1500>>}
FailT == {<<100, 100>>, <<100, 1500>>, <<300, 1500>>, <<1500, 1500>>, <<1500, 1500, 1500>>}
ShapesW == ShapesT \cup ShapesBad
ShapesTwo == {<<100, 1500>>}
BudgetsTwo == {0, -1}
NoShapes == {}

View == <<avars, dvars>>

(* avoidance guards for recorded findings (CONSTRAINT) would go here; none is needed at present *)
NoGuard == TRUE

Summary == [mode |-> mode[0], pe |-> pe[0], last |-> lastOp, v |-> viol, h |-> hist,
            fin |-> [t \in Topics |-> Proj(t)]]

(* always true; one line per distinct state *)
PrintHist == nops > 0 => PrintT(<<"HIST", ToJson(Summary)>>)
(* only the deepest level and the states a restart produced (enough for long configurations) *)
PrintHistDeep == (nops = MaxOps \/ (nops >= MaxOps - 1 /\ lastOp = "reopen")) => PrintT(<<"HIST", ToJson(Summary)>>)

RefinesCex == Refines \/ (PrintT(<<"CEX", ToJson(Summary)>>) /\ FALSE)
=========================================================================================
