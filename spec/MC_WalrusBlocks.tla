------------------------------ MODULE MC_WalrusBlocks ------------------------------
(***************************************************************************************)
(* Bounded instances of the design WalrusBlocks in the tiny geometry of the             *)
(* cfg(walrus_verif_tiny) build (2 KiB blocks, 4 units per file, 256-byte header,        *)
(* MAX_ALLOC 8192, batch cap 6).                                                        *)
(*   MC_WalrusBlocks_quick (1 topic, <= 5 operations), _thorough (<= 6 operations, 2         *)
(*   restarts), _wide (<= 4 operations over all sizes/budgets/shapes/modes, peeks, rejected    *)
(*   calls), _two (2 topics, <= 5 operations): refinement (RefinesCex) + the design/contract   *)
(*   invariants, -coverage 1; quick, wide and two also emit the behaviours (PrintHist).        *)
(*   MC_WalrusBlocks_sim : long random behaviours (-simulate), 2 topics, <= 16 operations.     *)
(*   MC_WalrusBlocks_defect_* : one historical defect switched back on; TLC must report    *)
(*       a violation of RefinesCex and print the behaviour (vacuity guard + regression).  *)
(*   Reclamation (C12; sizes that fill a block, so that a file of 4 blocks becomes fully     *)
(*   allocated, is consumed and handed to the deleter within the bound; OpReclaim must      *)
(*   fire, -coverage 1):                                                                   *)
(*   MC_WalrusBlocks_reclaim (1 topic, <= 7 operations, peeks, both kinds of reopen, all     *)
(*       modes under CONSTRAINT GuardAloReclaimNotDurable), _reclaim_deep (<= 9 operations),  *)
(*       _reclaim2 (2 topics sharing a file, <= 10 operations, StrictlyAtOnce).               *)
(*   MC_WalrusBlocks_finding_alo_reclaim : AtLeastOnce without the guard; TLC must find the    *)
(*       recorded finding KF-ENG-ALO-RECLAIM-NOT-DURABLE (a "C12: ..." violation in which the  *)
(*       persisted index lags: CONSTRAINT FindingIsIndexLag).                                 *)
(*   MC_WalrusBlocks_defect_ckptevery : "checkpoint counted on every report" (before          *)
(*       93a0380) switched back on; TLC must find a "C12: ..." violation.                      *)
(* `hist` is hidden by VIEW, so TLC's breadth-first search visits every distinct          *)
(* (code path of the last operation, design state, contract state) once and PrintHist      *)
(* prints one shortest behaviour for each.                                               *)
(***************************************************************************************)
EXTENDS WalrusBlocks, TLC, Json

MCTopics1 == {"a"}
MCTopics2 == {"a", "b"}
MCInstOf(t) == 0

BudgetsQ == {0, 600, -1}
BudgetsT == {0, 100, 600, 5000, -1}
ModesAll == {<<"strict", 1>>, <<"alo", 1>>, <<"alo", 2>>}
ModesStrict == {<<"strict", 1>>}
ModesQ == {<<"strict", 1>>, <<"alo", 2>>}

ShapesQ == {<<100, 100>>, <<100, 1500>>}
ShapesT == {<<100, 100>>, <<300, 1500>>, <<1500, 1500>>, <<0, 100, 300, 1500, 1792, 100>>}
ShapesBad == {<<100, 100, 100, 100, 100, 100, 100>>,          \* over the entry cap
              <<1500, 1500, 7937>>}                            \* one entry over MAX_ALLOC behind entries that make the planner rotate
FailQ == {<<100, 100>>, <<100, 1500>>}
FailT == {<<100, 100>>, <<100, 1500>>, <<300, 1500>>, <<1500, 1500>>, <<1500, 1500, 1500>>}
ShapesW == ShapesT \cup ShapesBad
ShapesTwo == {<<100, 1500>>}
BudgetsTwo == {0, -1}
NoShapes == {}

View == <<avars, dvars>>

ShapesFill == {<<1792, 1792, 1792, 1792>>}
ShapesFill5 == {<<1792, 1792, 1792, 1792, 1792>>}
BudgetsR == {0, -1}
ModesAlo == {<<"alo", 1>>, <<"alo", 2>>}
ModesAlo2 == {<<"alo", 2>>}

(* Avoidance guards for recorded findings (CONSTRAINT).                                            *)
(* KF-ENG-ALO-RECLAIM-NOT-DURABLE (open, C12): in AtLeastOnce mode blocks are marked consumed from   *)
(* the in-memory position while the persisted index lags (read_next persists every persist_every     *)
(* reads, batch reads never), so a file can be handed to the deleter while its entries are consumed   *)
(* in the running process but not durably. Behaviours are not followed beyond such a request - and    *)
(* beyond such a request only: a request for a file holding an entry that is not even consumed in      *)
(* memory, or any premature request in StrictlyAtOnce mode, is not covered by this guard.             *)
(* MC_WalrusBlocks_finding_alo_reclaim.cfg runs without the guard: TLC must find the finding.          *)
(* Every configuration that must be clean and whose ModeSet contains AtLeastOnce carries the guard      *)
(* (in the short one-topic configurations no request is reachable and it never cuts anything).          *)
AloReclaimKnown == Alo /\ \E i \in 1 .. Len(rq) :
                     ConsumedInMemory(StoredIn(rq[i])) /\ ~ReclaimAllowed(StoredIn(rq[i]))
GuardAloReclaimNotDurable == ~AloReclaimKnown
NoGuard == TRUE

(* Only for MC_WalrusBlocks_finding_alo_reclaim.cfg: the contract's durable lower bound of an     *)
(* AtLeastOnce consumer is conservative (position - persist_every), so it also refuses requests     *)
(* that the engine's index does cover. This constraint leaves only requests that are either allowed   *)
(* or hold an entry behind what the persisted index covers after recovery (DurablePos): the            *)
(* counterexample TLC must find there is the recorded finding itself - the index lags.               *)
FindingIsIndexLag == \A i \in 1 .. Len(rq) :
  ReclaimAllowed(StoredIn(rq[i])) \/ \E p \in StoredIn(rq[i]) : p[2] > DurablePos(p[1])

(* bounds on the data written, for the two-topic reclamation configurations *)
ShapesPair == {<<1792, 1792>>}
BudgetsZero == {0}
BoundLog6 == TotalLogged <= 6
BoundLog7 == TotalLogged <= 7

(* rq: the requests the last operation raised, each with the entries stored in the file *)
Summary == [mode |-> mode[0], pe |-> pe[0], last |-> lastOp, v |-> viol, h |-> hist,
            fin |-> [t \in Topics |-> Proj(t)], fs |-> FsProj,
            rq |-> [i \in 1 .. Len(lrq) |-> [f |-> lrq[i], st |-> StoredIn(lrq[i])]]]

(* always true; one line per distinct state (the states between an operation and the discharge of  *)
(* its reclamation requests carry the same history and are not printed)                             *)
PrintHist == (nops > 0 /\ rq = <<>>) => PrintT(<<"HIST", ToJson(Summary)>>)
(* only the deepest level and the states a restart produced (enough for long configurations) *)
PrintHistDeep == (rq = <<>> /\ (nops = MaxOps \/ (nops >= MaxOps - 1 /\ lastOp \in {"reopen", "reopen_new"})))
                 => PrintT(<<"HIST", ToJson(Summary)>>)
(* TLC evaluates invariants also on the successor states a CONSTRAINT discards (once per generation,   *)
(* not once per distinct state): under BoundLog6 print the states inside the bound only (the bound    *)
(* is repeated here: with -coverage 1 TLC does not resolve an operator that is also a CONSTRAINT)      *)
PrintHistB6 == (nops > 0 /\ rq = <<>> /\ TotalLogged <= 6) => PrintT(<<"HIST", ToJson(Summary)>>)
(* histories in which a reclamation request was raised, and their prefixes are not needed: the     *)
(* states right after a request, and the deepest level                                            *)
PrintHistReclaim == (rq = <<>> /\ (nops = MaxOps \/ lrq # <<>>)) => PrintT(<<"HIST", ToJson(Summary)>>)

RefinesCex == Refines \/ (PrintT(<<"CEX", ToJson(Summary)>>) /\ FALSE)
=========================================================================================
