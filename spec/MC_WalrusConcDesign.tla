---------------------------- MODULE MC_WalrusConcDesign ----------------------------
(***************************************************************************************)
(* Bounded instances of WalrusConcDesign.  A configuration = a set of program sets (below) *)
(* x block capacities (1 or 2 entries), a scheduler (FineLocks) and the deviation switches. *)
(*   MC_WalrusConcDesign_quick.cfg / _thorough.cfg : verification (lock-granular scheduler,  *)
(*       all invariants, deadlock check, -coverage 1) of the small / of all program sets.    *)
(*       vlib/props_concdesign.py runs them, the same with the gate-atomic scheduler, and     *)
(*       the schedule-emitting configurations (generated; the committed files are checked to   *)
(*       be what it generates).                                                               *)
(*   MC_WalrusConcDesign_defect_*.cfg : one switch on; TLC must report a violated           *)
(*       invariant (vacuity guards).                                                      *)
(* Emission.  With VIEW ViewSched the schedule `hist` is part of the state, so TLC visits    *)
(* every distinct gate-level schedule (FineLocks = FALSE) with at most MaxPre2 / MaxPre3       *)
(* preemptions (CONSTRAINT PreBound); EmitSched prints each complete one with the results the   *)
(* model predicts for every call.  With VIEW ViewState (hist hidden) TLC visits every distinct  *)
(* state once; the printed terminal states give the set of possible outcomes.                 *)
(***************************************************************************************)
EXTENDS WalrusConcDesign, TLC, Json

CONSTANTS MaxPre2, MaxPre3     \* preemption bounds for program sets with two / with more client threads

A(e)   == [op |-> "append", e |-> e]
B(es)  == [op |-> "batch", es |-> es]
R      == [op |-> "read"]
BR     == [op |-> "bread"]
DrainP == <<BR, BR, R>>          \* the harness' quiescent drain: batch reads until empty, then one read_next
Pre1   == <<A(1)>>

PS(n, p) == [n |-> n, p |-> p]
(* one appender x one consumer *)
P_app2_rn    == PS("P_app2_rn",   <<Pre1, <<A(2), A(3)>>, <<R, R, R>>, DrainP>>)
P_app2_br    == PS("P_app2_br",   <<Pre1, <<A(2), A(3)>>, <<BR, BR>>, DrainP>>)
P_app3_rnbr  == PS("P_app3_rnbr", <<Pre1, <<A(2), A(3), A(4)>>, <<R, BR>>, DrainP>>)
P_nopre_rn   == PS("P_nopre_rn",  <<<<>>, <<A(1), A(2)>>, <<R, R>>, DrainP>>)
P_nopre_br   == PS("P_nopre_br",  <<<<>>, <<A(1), A(2)>>, <<BR, R>>, DrainP>>)
(* one batch spanning rotations x one consumer *)
P_bat3_rn    == PS("P_bat3_rn",   <<Pre1, <<B(<<2, 3, 4>>)>>, <<R, R>>, DrainP>>)
P_bat3_br    == PS("P_bat3_br",   <<Pre1, <<B(<<2, 3, 4>>)>>, <<BR, BR>>, DrainP>>)
P_bat2_rnbr  == PS("P_bat2_rnbr", <<Pre1, <<B(<<2, 3>>)>>, <<R, BR>>, DrainP>>)
(* two consumers *)
P_app2_rn2   == PS("P_app2_rn2",  <<Pre1, <<A(2), A(3)>>, <<R, R>>, <<R>>, DrainP>>)
P_app2_rnbr  == PS("P_app2_rnbr", <<Pre1, <<A(2), A(3)>>, <<R, R>>, <<BR>>, DrainP>>)
P_bat3_rnbr  == PS("P_bat3_rnbr", <<Pre1, <<B(<<2, 3, 4>>)>>, <<R, R>>, <<BR>>, DrainP>>)
P_app2_br2   == PS("P_app2_br2",  <<Pre1, <<A(2), A(3)>>, <<BR>>, <<BR>>, DrainP>>)
(* appender and batch appender (WouldBlock paths) x consumer *)
P_mix        == PS("P_mix",       <<Pre1, <<A(2)>>, <<B(<<3, 4>>)>>, <<R, BR>>, DrainP>>)
P_bat2x2     == PS("P_bat2x2",    <<Pre1, <<B(<<2, 3>>)>>, <<B(<<4, 5>>)>>, <<BR>>, DrainP>>)
(* larger (thorough) *)
P_big_a      == PS("P_big_a",     <<Pre1, <<A(2), A(3), A(4)>>, <<R, R>>, <<BR, R>>, DrainP>>)
P_big_b      == PS("P_big_b",     <<Pre1, <<B(<<2, 3>>), A(4)>>, <<R, BR>>, <<R, R>>, DrainP>>)
P_big_c      == PS("P_big_c",     <<<<A(1), A(2)>>, <<A(3), B(<<4, 5>>)>>, <<R, R>>, <<BR, BR>>, DrainP>>)

Small2 == {P_app2_rn, P_app2_br, P_app3_rnbr, P_nopre_rn, P_nopre_br, P_bat3_rn, P_bat3_br, P_bat2_rnbr}
Small3 == {P_app2_rn2, P_app2_rnbr, P_bat3_rnbr, P_app2_br2, P_mix, P_bat2x2}
Big    == {P_big_a, P_big_b, P_big_c}
Small  == Small2 \cup Small3
All    == Small \cup Big
(* single program sets for the vacuity guards *)
Only_app2_rn2 == {P_app2_rn2}
Only_app2_br  == {P_app2_br}
Only_bat3_rn  == {P_bat3_rn}
Caps12 == {1, 2}
Caps1  == {1}
Caps2  == {2}

ViewState == svars
ViewSched == <<svars, hist, last, npre>>
PreBound  == npre <= (IF N <= 4 THEN MaxPre2 ELSE MaxPre3)

Summary == [n |-> prog.n, c |-> cap, h |-> hist, p |-> npre,
            r |-> [i \in 1 .. (N - 2) |-> res[i + 1]],
            d |-> Flat(res[DrainT])]
(* always true; prints the complete behaviours *)
EmitSched == AllDone => PrintT(<<"SCHED", ToJson(Summary)>>)
=========================================================================================
