SPECIFICATION MCSpec
CONSTANTS
  Nodes <- MCNodes
  SnapshotSource = "app"
  RestoreOfMapBytes = "error"
  MaxCmds = 4
INVARIANTS PrintHist
VIEW View
CHECK_DEADLOCK FALSE
