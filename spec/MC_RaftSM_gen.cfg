SPECIFICATION MCSpec
CONSTANTS
  Nodes <- MCNodes
  SnapshotSource = "adapter_data"
  RestoreOfMapBytes = "error"
  MaxCmds = 4
INVARIANTS PrintHist
VIEW View
CHECK_DEADLOCK FALSE
