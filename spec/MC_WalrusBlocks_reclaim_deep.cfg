SPECIFICATION DSpec
CONSTANTS
  Topics <- MCTopics1
  InstOf <- MCInstOf
  Prefix = 256
  BlockSize = 2048
  UnitsPerFile = 4
  MaxAlloc = 8192
  CapEntries = 6
  MaxBatchBytes = 16384
  Sizes = {1792}
  BatchShapes <- ShapesFill
  FailShapes <- NoShapes
  Budgets <- BudgetsR
  Cks = {TRUE, FALSE}
  ModeSet <- ModesAll
  MaxOps = 9
  MaxReopens = 1
  ParserContinuesAfterShortRange = FALSE
  Budget0PlansNothing = FALSE
  TailInitPersistsZero = FALSE
  CkptCountedOnEveryReport = FALSE
  NewProcReopen = TRUE
CONSTRAINT GuardAloReclaimNotDurable
INVARIANTS RefinesCex InvCount InvCursor InvCursorExact InvStored InvDurable InvCkptCounter InvReclaimedConsumed TypeOKD PrintHist
VIEW View
CHECK_DEADLOCK FALSE
