--------------------------- MODULE Sync_ApaMetadata ---------------------------
(***************************************************************************************)
(* Keeps ApaMetadata.tla (typed restatement, checked inductively by Apalache) in step     *)
(* with Metadata.tla (the spec bound to the code): TLC evaluates both on every reachable  *)
(* state of the bounded model and every command, and on a grid of arbitrary (mostly       *)
(* ill-formed) topic states for the invariant itself.                                    *)
(***************************************************************************************)
EXTENDS MC_Metadata

A == INSTANCE ApaMetadata

InvSyncApply == \A cmd \in Cmds : /\ A!ApplySt(st, cmd) = Apply(st, cmd).st
                                  /\ A!ApplyRes(st, cmd) = Apply(st, cmd).res

Maps(D, R) == UNION {[d -> R] : d \in SUBSET D}
GridTopics == [cur : 0 .. 3, leader : Nodes, last : 0 .. (MaxU64 + 1), sealed : Maps(1 .. 3, Counts), segl : Maps(1 .. 3, Nodes)]

InvSyncTopicOK == depth = 0 => \A ts \in GridTopics : A!TopicOK(ts) <=> TopicOK(ts)
===============================================================================
