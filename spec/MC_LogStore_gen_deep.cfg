SPECIFICATION MCSpec
CONSTANTS
  PersistCursor = TRUE
  MaxOps = 6
  MaxReopens = 3
  MaxIndex = 5
  MaxTerm = 3
  MaxBatch = 2
INVARIANTS PrintHist
CHECK_DEADLOCK FALSE
