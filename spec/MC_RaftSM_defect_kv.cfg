SPECIFICATION MCSpec
CONSTANTS
  Nodes <- MCNodes
  SnapshotSource = "adapter_data"
  RestoreOfMapBytes = "empty"
  MaxCmds = 4
INVARIANTS InvConvergedCex
VIEW View
CHECK_DEADLOCK FALSE
