------------------------------ MODULE Trace_Metadata ------------------------------
(***************************************************************************************)
(* Trace validation for C18: (command, returned value, state after) triples recorded     *)
(* from the real Metadata::apply on long random command sequences are checked against    *)
(* the spec Metadata: each step must be exactly `Apply`. ndjson events:                  *)
(*   {"ev":"reset"}                                  start of an independent sequence    *)
(*   {"ev":"apply","c":[k,t,n,c,a],"r":value,"s":ENC}                                    *)
(* ENC = {"T":[[name,cur,leader,last,[[seg,count]..],[[seg,leader]..]]..],"N":[[id,addr]..]} *)
(* Counts and offsets are in units of floor(u64::MAX / MaxU64) (the runner multiplies     *)
(* before the real call and divides the recorded values), so the real checked_add fails    *)
(* exactly when Overflows holds and the rejecting branch is validated too.                 *)
(* Same group/Abandon/Report pattern as Trace_WalrusAPI.                                 *)
(***************************************************************************************)
EXTENDS Metadata, Json, IOUtils, TLC

Rec == ndJsonDeserialize(IOEnv.TRACE)
N == Len(Rec)

VARIABLES l, ok
tvars == <<st, l, ok>>

Ev == Rec[l]
ToSet(s) == {s[i] : i \in 1 .. Len(s)}
PairSet(s) == {<<p[1], p[2]>> : p \in ToSet(s)}
DecTopic(x) == [cur |-> x[2], leader |-> x[3], last |-> x[4], sealed |-> FromPairs(PairSet(x[5])), segl |-> FromPairs(PairSet(x[6]))]
Dec(js) == [topics |-> [t \in {x[1] : x \in ToSet(js.T)} |-> DecTopic(CHOOSE x \in ToSet(js.T) : x[1] = t)],
            nodes  |-> FromPairs(PairSet(js.N))]
CmdOf(a) == [k |-> a[1], t |-> a[2], n |-> a[3], c |-> a[4], a |-> a[5]]

Boundary(k) == k = N + 1 \/ Rec[k].ev = "reset"
RECURSIVE NextBoundary(_)
NextBoundary(k) == IF Boundary(k) THEN k ELSE NextBoundary(k + 1)

TInit == l = 1 /\ ok = TRUE /\ st = EmptyState

TApply ==
  /\ l <= N
  /\ Ev.ev = "apply"
  /\ Step(CmdOf(Ev.c), Ev.r)
  /\ st' = Dec(Ev.s)
  /\ l' = l + 1
  /\ UNCHANGED ok

TReset ==
  /\ l <= N
  /\ Ev.ev = "reset"
  /\ st' = EmptyState
  /\ ok' = TRUE
  /\ l' = l + 1

Abandon ==
  /\ l <= N
  /\ Ev.ev # "reset"
  /\ l' = NextBoundary(l)
  /\ ok' = FALSE
  /\ st' = EmptyState

TNext == TApply \/ TReset \/ Abandon
TSpec == TInit /\ [][TNext]_tvars

Report == ok => PrintT(<<"AT", l>>)
===================================================================================
