SPECIFICATION CSpec
CONSTANTS
  Topics <- TopicsDef
  InstOf <- InstOfDef
INVARIANTS Report TypeOK
CHECK_DEADLOCK FALSE
