SPECIFICATION Spec
CONSTANTS
  Nodes = {1, 2}
  RaftLeader = 1
  InitLeader = 1
  Thr = 1
  Clients <- ClientsDef
  Prog <- ProgDef
  ProgSel = "p2g2"
  MaxCmds = 3
  WithMonitor = FALSE
  WithSync = TRUE
  AtomicCount = TRUE
  LeaseUnderLock = FALSE
  LeaseOnApply = TRUE
  FreshReads = TRUE
VIEW View
CONSTRAINT Bound
CHECK_DEADLOCK FALSE
INVARIANTS InvC22 InvC23
