SPECIFICATION MCSpec
CONSTANTS
  Nodes <- MCNodes
  SnapshotSource = "adapter_data"
  RestoreOfMapBytes = "error"
  MaxCmds = 4
INVARIANTS InvInstallSucceedsCex InvConvergedCex
VIEW View
CHECK_DEADLOCK FALSE
