SPECIFICATION DSpec
CONSTANTS
  Topics <- MCTopics1
  InstOf <- MCInstOf
  Prefix = 256
  BlockSize = 2048
  UnitsPerFile = 4
  MaxAlloc = 8192
  CapEntries = 6
  MaxBatchBytes = 16384
  Sizes = {100, 1500, 1792, 3000}
  BatchShapes <- ShapesQ
  FailShapes <- FailQ
  Budgets <- BudgetsQ
  Cks = {TRUE}
  ModeSet <- ModesQ
  MaxOps = 6
  MaxReopens = 2
  ParserContinuesAfterShortRange = FALSE
  Budget0PlansNothing = FALSE
  TailInitPersistsZero = FALSE
  CkptCountedOnEveryReport = FALSE
  NewProcReopen = FALSE
CONSTRAINT GuardAloReclaimNotDurable
INVARIANTS RefinesCex InvCount InvCursor InvCursorExact InvStored InvDurable TypeOKD
VIEW View
CHECK_DEADLOCK FALSE
