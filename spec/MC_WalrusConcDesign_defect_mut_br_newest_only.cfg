SPECIFICATION Spec
CONSTANTS
  Caps <- Caps1
  MaxBatch = 6
  MaxPre2 = 9
  MaxPre3 = 9
  ProgSets <- Only_app2_br
  MaxThreads = 5
  FineLocks = TRUE
  DefRnStaleSnapshot = FALSE
  DefBrStaleSnapshot = FALSE
  DefBwEarlyPublish = FALSE
  MutBrNewestOnly = TRUE
VIEW ViewState
INVARIANTS NoDuplicate NoPhantom NoneLost OnlyAcked ReaderOrder
CHECK_DEADLOCK TRUE
