------------------------------ MODULE ApaMetadata ------------------------------
(***************************************************************************************)
(* Typed restatement of spec/Metadata.tla for Apalache: the same `Apply`, statement by   *)
(* statement, with the invariant `InvSegments` (C18) shown INDUCTIVE:                     *)
(*   Init => IndInv                      (apalache-mc check --init=Init --inv=IndInv --length=0)      *)
(*   IndInv /\ Next => IndInv'           (apalache-mc check --init=IndInit --inv=IndInv --length=1)   *)
(* for an arbitrary MaxU64 and arbitrary counts/leaders (integers are unbounded here),    *)
(* for every state with at most GenSize topics, nodes and segments per topic (Gen bound). *)
(* TLC explores Metadata.tla exhaustively but only with tiny counts and depth; this check *)
(* removes the bound on the numbers. The two modules are kept in step by                  *)
(* Sync_ApaMetadata.tla: TLC evaluates both `Apply`s on every reachable state and command  *)
(* of the bounded model and both `TopicOK`s on a grid of arbitrary topic states.          *)
(***************************************************************************************)
EXTENDS Integers, FiniteSets, Apalache

(*
  @typeAlias: topic = { cur: Int, leader: Int, last: Int, sealed: Int -> Int, segl: Int -> Int };
  @typeAlias: state = { topics: Str -> $topic, nodes: Int -> Str };
  @typeAlias: cmd = { k: Str, t: Str, n: Int, c: Int, a: Str };
*)
ApaMetadata_aliases == TRUE

CONSTANT
  \* @type: Int;
  MaxU64

VARIABLE
  \* @type: $state;
  st

\* @type: (Int -> Int, Int, Int) => (Int -> Int);
PutII(f, k, v) == [x \in (DOMAIN f) \union {k} |-> IF x = k THEN v ELSE f[x]]
\* @type: (Str -> $topic, Str, $topic) => (Str -> $topic);
PutT(f, k, v) == [x \in (DOMAIN f) \union {k} |-> IF x = k THEN v ELSE f[x]]
\* @type: (Int -> Str, Int, Str) => (Int -> Str);
PutN(f, k, v) == [x \in (DOMAIN f) \union {k} |-> IF x = k THEN v ELSE f[x]]

\* @type: Int -> Int;
EmptyII == SetAsFun({})
\* @type: Str -> $topic;
EmptyT == SetAsFun({})
\* @type: Int -> Str;
EmptyN == SetAsFun({})

\* @type: $state;
EmptyState == [topics |-> EmptyT, nodes |-> EmptyN]

\* @type: Int => $topic;
NewTopic(n) == [cur |-> 1, leader |-> n, last |-> 0, sealed |-> EmptyII, segl |-> PutII(EmptyII, 1, n)]

\* @type: ($topic, Int) => Bool;
Overflows(ts, c) == ts.last + c > MaxU64

\* @type: ($topic, Int, Int) => $topic;
Rolled(ts, n, c) ==
  LET sealedSeg == ts.cur
      sealed1   == PutII(ts.sealed, sealedSeg, c)
      segl1     == PutII(ts.segl, sealedSeg, ts.leader)
      last1     == ts.last + c
      cur1      == ts.cur + 1
      segl2     == PutII(segl1, cur1, n)
  IN [cur |-> cur1, leader |-> n, last |-> last1, sealed |-> sealed1, segl |-> segl2]

\* @type: ($state, $cmd) => $state;
ApplySt(s, cmd) ==
  IF cmd.k = "C" THEN
       IF cmd.t \in DOMAIN s.topics THEN s
       ELSE [s EXCEPT !.topics = PutT(s.topics, cmd.t, NewTopic(cmd.n))]
  ELSE IF cmd.k = "R" THEN
       IF cmd.t \notin DOMAIN s.topics THEN s
       ELSE IF Overflows(s.topics[cmd.t], cmd.c) THEN s
       ELSE [s EXCEPT !.topics = PutT(s.topics, cmd.t, Rolled(s.topics[cmd.t], cmd.n, cmd.c))]
  ELSE IF cmd.k = "U" THEN [s EXCEPT !.nodes = PutN(s.nodes, cmd.n, cmd.a)]
  ELSE s

\* @type: ($state, $cmd) => Str;
ApplyRes(s, cmd) ==
  IF cmd.k = "C" THEN (IF cmd.t \in DOMAIN s.topics THEN "EXISTS" ELSE "CREATED")
  ELSE IF cmd.k = "R" THEN
       IF cmd.t \notin DOMAIN s.topics THEN "ERR_NOTOPIC"
       ELSE IF Overflows(s.topics[cmd.t], cmd.c) THEN "ERR_OVERFLOW" ELSE "ROLLED"
  ELSE IF cmd.k = "U" THEN "NODE"
  ELSE "ERR_DECODE"

\* @type: (Int -> Int) => Int;
SumOver(f) == ApaFoldSet(LAMBDA acc, x: acc + f[x], 0, DOMAIN f)

(* D = 1 .. hi for a finite D, without a non-constant range (Apalache restriction): D lies in [1, hi], contains hi
   when hi >= 1 and is closed under predecessor down to 1. *)
\* @type: (Set(Int), Int) => Bool;
IsRange(D, hi) ==
  /\ \A g \in D : g >= 1 /\ g <= hi /\ (g > 1 => (g - 1) \in D)
  /\ hi >= 1 => hi \in D

\* @type: $topic => Bool;
TopicOK(ts) ==
  /\ ts.cur >= 1
  /\ IsRange(DOMAIN ts.segl, ts.cur)                  \* = 1 .. cur
  /\ ts.segl[ts.cur] = ts.leader
  /\ IsRange(DOMAIN ts.sealed, ts.cur - 1)            \* = 1 .. cur-1
  /\ ts.last = SumOver(ts.sealed)
  /\ ts.last <= MaxU64
  /\ \A g \in DOMAIN ts.sealed : ts.sealed[g] >= 0      \* counts are u64

InvSegments == \A t \in DOMAIN st.topics : TopicOK(st.topics[t])
IndInv == InvSegments

ConstInit == MaxU64 \in Nat

Init == st = EmptyState

\* commands: arbitrary topic name out of a generated finite set, arbitrary integers
Next ==
  \E k \in {"C", "R", "U", "X"}, t \in {"t1", "t2", "t3"}, n \in Int, c \in Nat, a \in {"a1", "a2"} :
     st' = ApplySt(st, [k |-> k, t |-> t, n |-> n, c |-> c, a |-> a])

\* an arbitrary state satisfying the invariant (sets and functions of at most 4 elements)
IndInit ==
  /\ st = Gen(4)
  /\ DOMAIN st.topics \subseteq {"t1", "t2", "t3"}
  /\ IndInv
================================================================================
