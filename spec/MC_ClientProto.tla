----------------------------- MODULE MC_ClientProto -----------------------------
(***************************************************************************************)
(* All streams of at most MaxLen symbols. TLC runs the design-level server loop on each   *)
(* and checks it against the contract:                                                   *)
(*   InvConforms   at Done the responses conform to the contract;                         *)
(*   InvPrefix     the responses written so far never run ahead of / differ from the      *)
(*                 expected list.                                                        *)
(* With DiscardOversized = FALSE (mutant config) TLC must report a violation: the          *)
(* contract is able to reject a server that leaves an oversized body in the socket.        *)
(* `Emit` (always true) prints for every stream, at Done: the stream, its frames, the     *)
(* expected responses, the tail slack and whether the design-level server conformed. The   *)
(* runner instantiates every printed stream with concrete bytes for the real listener.    *)
(***************************************************************************************)
EXTENDS ClientProto, TLC, Json

CONSTANTS MaxLen

Streams == UNION {[1 .. n -> Sym] : n \in 0 .. MaxLen}

MCInit == Init(Streams)
MCSpec == MCInit /\ [][Next]_vars

IsPrefix(a, b) == Len(a) <= Len(b) /\ SubSeq(b, 1, Len(a)) = a

InvConforms == pc = "Done" => Conforms(stream, resp)
InvPrefix   == IsPrefix(resp, Expected(stream)) \/ Conforms(stream, resp)

TypeOK ==
  /\ pc \in {"ReadLen", "RejectLen", "DiscardBody", "ReadBody", "RejectUtf8", "Dispatch", "Respond", "Done"}
  /\ pos \in 1 .. Len(stream) + 1
  /\ \A i \in 1 .. Len(resp) : resp[i].k \in {"ERR", "OK", "EMPTY", "VAL"}

Emit == pc = "Done" =>
          PrintT(<<"CASE", ToJson([s |-> stream,
                                   f |-> [i \in 1 .. Len(Frames(stream, 1)) |->
                                            LET x == Frames(stream, 1)[i] IN <<x.kind, x.c, x.n, x.lo, x.hi>>],
                                   e |-> [i \in 1 .. Len(Expected(stream)) |->
                                            LET x == Expected(stream)[i] IN <<x.k, x.lo, x.hi>>],
                                   t |-> TailSlack(stream),
                                   ok |-> Conforms(stream, resp),
                                   nr |-> Len(resp)])>>)
===================================================================================
