--------------------------------- MODULE WalrusDamage ---------------------------------
(***************************************************************************************)
(* C11 (semantic half, exploration level): the space of damage applied to a valid data   *)
(* directory, organised as damage class x locus. TLC enumerates the cases; the harness    *)
(* instantiates each one on copies of directories produced by the real engine, opens it   *)
(* in a fresh process on both backends and drains every topic. The oracle is the process  *)
(* outcome (no panic / abort / signal / hang) and the contract clause TDamagedRead of      *)
(* Trace_WalrusAPI (every returned payload was appended to that topic).                   *)
(*                                                                                     *)
(* On-disk layout being damaged (block.rs, walrus.rs, index.rs, topic_clean.rs):          *)
(*   WAL file = units of one block size; a block starts at a unit boundary; an entry =     *)
(*   256-byte header (2-byte little-endian meta length, rkyv Metadata {read_size,          *)
(*   owned_by, next_block_start, checksum}) + payload; recovery probes the first 8 bytes  *)
(*   of each unit; the index and marker files are rkyv-serialised maps.                   *)
(***************************************************************************************)
EXTENDS Naturals, Sequences, FiniteSets

CONSTANTS NEntries,     \* entries addressed in each workload (1 .. NEntries, in file order)
          BodyBytes,    \* header byte offsets (2 ..) that get single-byte damage
          SmallFile     \* byte positions damaged in the index / marker files

MetaLenValues == {0, 1, 253, 254, 255, 65535}

WalByteCases ==
  {[file |-> "wal", kind |-> k, region |-> "probe", entry |-> 0, pos |-> p, val |-> 0] :
      k \in {"zero", "flip"}, p \in {0, 7}}
  \cup {[file |-> "wal", kind |-> "set_metalen", region |-> "metalen", entry |-> e, pos |-> 0, val |-> v] :
      e \in 1 .. NEntries, v \in MetaLenValues}
  \cup {[file |-> "wal", kind |-> k, region |-> "body", entry |-> e, pos |-> p, val |-> 0] :
      k \in {"flip", "zero", "ff"}, e \in {1, NEntries}, p \in BodyBytes}
  \cup {[file |-> "wal", kind |-> k, region |-> "body8", entry |-> e, pos |-> p, val |-> 0] :       \* a whole 8-byte field
      k \in {"zero", "ff"}, e \in {1, NEntries}, p \in BodyBytes}
  \cup {[file |-> "wal", kind |-> k, region |-> "payload", entry |-> e, pos |-> p, val |-> 0] :
      k \in {"flip", "zero"}, e \in 1 .. NEntries, p \in {0, 1}}
  \cup {[file |-> "wal", kind |-> "zero_header", region |-> "header", entry |-> e, pos |-> 0, val |-> 0] :
      e \in 1 .. NEntries}
  \cup {[file |-> "wal", kind |-> "garbage_unit", region |-> "unit", entry |-> 0, pos |-> u, val |-> 0] :
      u \in 0 .. 3}

WalTruncCases ==
  {[file |-> "wal", kind |-> "truncate", region |-> r, entry |-> e, pos |-> 0, val |-> 0] :
      r \in {"entry_start", "mid_header", "mid_payload", "entry_end"}, e \in 1 .. NEntries}
  \cup {[file |-> "wal", kind |-> "truncate", region |-> "unit", entry |-> 0, pos |-> u, val |-> 0] : u \in 0 .. 3}
  \cup {[file |-> "wal", kind |-> "truncate", region |-> "odd", entry |-> 0, pos |-> p, val |-> 0] : p \in {1, 7, 255, 257, 2047, 2049}}

SmallFileCases(f) ==
  {[file |-> f, kind |-> k, region |-> "whole", entry |-> 0, pos |-> 0, val |-> 0] :
      k \in {"empty", "truncate_half", "truncate_1", "garbage", "zero", "delete"}}
  \cup {[file |-> f, kind |-> k, region |-> "byte", entry |-> 0, pos |-> p, val |-> 0] :
      k \in {"flip", "ff"}, p \in SmallFile}

StrayCases ==
  {[file |-> "stray", kind |-> k, region |-> "dir", entry |-> 0, pos |-> 0, val |-> 0] :
      k \in {"tmp_index", "tmp_marker", "random_name", "digit_short", "digit_empty", "digit_dir", "subdir",
             "digit_garbage_full"}}

Cases == WalByteCases \cup WalTruncCases \cup SmallFileCases("index") \cup SmallFileCases("marker") \cup StrayCases

(* pairs of damages are explored for a sample: one WAL damage combined with one small-file damage *)
VARIABLE case
Init == case \in Cases
Next == UNCHANGED case
Spec == Init /\ [][Next]_case
========================================================================================
