--------------------------------- MODULE MC_Namespace ---------------------------------
EXTENDS Namespace, TLC, Json
MCClasses == {"a", "-", "_", ".", "/", "s", "0", "u"}
(* One line per key: the key's classes and the directory name the model predicts. The        *)
(* harness builds concrete keys from the classes and compares with the real constructors.   *)
Emit == PrintT(<<"NS", ToJson([k |-> key, d |-> DirName(key), lands |-> Lands(DirName(key))])>>)
========================================================================================
