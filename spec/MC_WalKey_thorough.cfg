SPECIFICATION Spec
CONSTANTS
  MaxLen = 5
  Segs = {0, 1, 10, 11, 100, 101, 110, 1111}
INVARIANTS InvRoundTrip InvShape Emit
CHECK_DEADLOCK FALSE
