SPECIFICATION TSpec
CONSTANTS
  MaxAppends = 100000
  OSync = TRUE
  DirSync = TRUE
INVARIANT Report
CHECK_DEADLOCK FALSE
