SPECIFICATION MCSpec
CONSTANTS
  PersistCursor = FALSE
  MaxOps = 4
  MaxReopens = 2
  MaxIndex = 3
  MaxTerm = 2
  MaxBatch = 2
INVARIANTS TypeOK ObsEqual InvMirrorIsFullReplayBeforeFirstReopen
VIEW View
CHECK_DEADLOCK FALSE
