SPECIFICATION DSpec
CONSTANTS
  Topics <- MCTopics2
  InstOf <- MCInstOf
  Prefix = 256
  BlockSize = 2048
  UnitsPerFile = 4
  MaxAlloc = 8192
  CapEntries = 6
  MaxBatchBytes = 16384
  Sizes = {1792}
  BatchShapes <- ShapesPair
  FailShapes <- NoShapes
  Budgets <- BudgetsZero
  Cks = {TRUE}
  ModeSet <- ModesAlo2
  MaxOps = 10
  MaxReopens = 1
  ParserContinuesAfterShortRange = FALSE
  Budget0PlansNothing = FALSE
  TailInitPersistsZero = FALSE
  CkptCountedOnEveryReport = FALSE
  NewProcReopen = FALSE
CONSTRAINTS BoundLog6 GuardAloReclaimNotDurable
INVARIANTS RefinesCex InvCount InvCursor InvCursorExact InvStored InvDurable InvCkptCounter InvReclaimedConsumed TypeOKD PrintHistB6
VIEW View
CHECK_DEADLOCK FALSE
