------------------------------- MODULE MC_Metadata -------------------------------
(***************************************************************************************)
(* Exhaustive exploration of Metadata: every command sequence up to MaxDepth over        *)
(* Topics x Nodes x Counts x Addrs, including duplicates (CreateTopic on an existing     *)
(* topic, repeated rollovers, re-upserts), rollovers of unknown topics, rollovers whose   *)
(* count would overflow the cumulative offset (MaxU64 is small here so that this branch   *)
(* is reached; the runner scales counts by floor(u64::MAX / MaxU64) for the real code,    *)
(* which makes the real checked_add fail exactly when Overflows holds) and undecodable    *)
(* commands.                                                                            *)
(*                                                                                     *)
(* `hist` (the commands that led here, with the value each returned) is hidden by VIEW;  *)
(* `depth` is part of the view so that the bound is exact. `Emit` is always true and      *)
(* prints, once per distinct (state, depth < EmitDepth): the path, the state, and for every *)
(* command the value and the state `Apply` yields from here (so every transition of the   *)
(* space bounded by EmitDepth is emitted; deeper states are model-checked only). The runner replays the path on the   *)
(* real `Metadata::apply`, compares the state after the path, then applies every command  *)
(* to a replica of that state and compares value and successor state.                    *)
(***************************************************************************************)
EXTENDS Metadata, TLC, Json

CONSTANTS Topics, Nodes, Counts, Addrs, MaxDepth, EmitDepth

VARIABLES depth, hist
mvars == <<st, depth, hist>>
View == <<st, depth>>

Cmd(k, t, n, c, a) == [k |-> k, t |-> t, n |-> n, c |-> c, a |-> a]
CreateCmds   == {Cmd("C", t, n, 0, "") : t \in Topics, n \in Nodes}
RolloverCmds == {Cmd("R", t, n, c, "") : t \in Topics, n \in Nodes, c \in Counts}
UpsertCmds   == {Cmd("U", "", n, 0, a) : n \in Nodes, a \in Addrs}
BadCmds      == {Cmd("X", "", 0, 0, "")}
Cmds == CreateCmds \cup RolloverCmds \cup UpsertCmds \cup BadCmds

MCInit == st = EmptyState /\ depth = 0 /\ hist = <<>>

Do(cmd) ==
  /\ depth < MaxDepth
  /\ Step(cmd, Apply(st, cmd).res)
  /\ depth' = depth + 1
  /\ hist' = Append(hist, [c |-> cmd, r |-> Apply(st, cmd).res])

(* one action per branch of `apply`, so that coverage shows every branch was exercised *)
CreateNew     == \E cmd \in CreateCmds   : cmd.t \notin DOMAIN st.topics /\ Do(cmd)
CreateExists  == \E cmd \in CreateCmds   : cmd.t \in DOMAIN st.topics    /\ Do(cmd)
RollKnown     == \E cmd \in RolloverCmds : cmd.t \in DOMAIN st.topics /\ ~Overflows(st.topics[cmd.t], cmd.c) /\ Do(cmd)
RollOverflow  == \E cmd \in RolloverCmds : cmd.t \in DOMAIN st.topics /\ Overflows(st.topics[cmd.t], cmd.c)  /\ Do(cmd)
RollUnknown   == \E cmd \in RolloverCmds : cmd.t \notin DOMAIN st.topics /\ Do(cmd)
UpsertNew     == \E cmd \in UpsertCmds   : cmd.n \notin DOMAIN st.nodes  /\ Do(cmd)
UpsertAgain   == \E cmd \in UpsertCmds   : cmd.n \in DOMAIN st.nodes     /\ Do(cmd)
Undecodable   == \E cmd \in BadCmds      : cmd.k = "X"                   /\ Do(cmd)

MCNext == CreateNew \/ CreateExists \/ RollKnown \/ RollOverflow \/ RollUnknown \/ UpsertNew \/ UpsertAgain \/ Undecodable
MCSpec == MCInit /\ [][MCNext]_mvars

(* apply never fails to produce a value and a state *)
InvTotal == \A cmd \in Cmds : Apply(st, cmd).res \in Results

(* the returned values are the ones the branch promises *)
InvHist == \A i \in 1 .. Len(hist) : hist[i].r \in Results

PropStable == [][SealedStable(st, st')]_mvars

(* ---- emission ---- *)
EncTopic(t, ts) == <<t, ts.cur, ts.leader, ts.last, Pairs(ts.sealed), Pairs(ts.segl)>>
Enc(s) == [T |-> {EncTopic(t, s.topics[t]) : t \in DOMAIN s.topics}, N |-> Pairs(s.nodes)]

(* The successor of a command is emitted as the one component the command may change:    *)
(* the topic it names (C, R), the node it names (U), nothing (X). `InvFrame` makes TLC    *)
(* confirm that nothing else changes, so state + patch is the whole successor state.      *)
Patch(cmd, s2) ==
  CASE cmd.k \in {"C", "R"} -> IF cmd.t \in DOMAIN s2.topics THEN <<EncTopic(cmd.t, s2.topics[cmd.t])>> ELSE <<>>
    [] cmd.k = "U"          -> IF cmd.n \in DOMAIN s2.nodes THEN <<s2.nodes[cmd.n]>> ELSE <<>>
    [] OTHER                -> <<>>

Framed(cmd, s1, s2) ==
  CASE cmd.k \in {"C", "R"} -> /\ s2.nodes = s1.nodes
                               /\ DOMAIN s2.topics \subseteq (DOMAIN s1.topics) \cup {cmd.t}
                               /\ \A t \in DOMAIN s1.topics : t \in DOMAIN s2.topics /\ (t # cmd.t => s2.topics[t] = s1.topics[t])
    [] cmd.k = "U"          -> /\ s2.topics = s1.topics
                               /\ DOMAIN s2.nodes \subseteq (DOMAIN s1.nodes) \cup {cmd.n}
                               /\ \A n \in DOMAIN s1.nodes : n \in DOMAIN s2.nodes /\ (n # cmd.n => s2.nodes[n] = s1.nodes[n])
    [] OTHER                -> s2 = s1

InvFrame == \A cmd \in Cmds : Framed(cmd, st, Apply(st, cmd).st)

CmdT(cmd, r) == <<cmd.k, cmd.t, cmd.n, cmd.c, cmd.a, r>>

Emit == depth < EmitDepth =>
          PrintT(<<"CASE", ToJson([d |-> depth,
                                   h |-> [i \in 1 .. Len(hist) |-> CmdT(hist[i].c, hist[i].r)],
                                   s |-> Enc(st),
                                   x |-> {CmdT(cmd, Apply(st, cmd).res) \o <<Patch(cmd, Apply(st, cmd).st)>> : cmd \in Cmds}])>>)
===================================================================================
