SPECIFICATION Spec
CONSTANTS
  NEntries = 4
  BodyBytes <- MCBody
  SmallFile <- MCSmall
INVARIANT Emit
CHECK_DEADLOCK FALSE
