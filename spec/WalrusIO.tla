----------------------------------- MODULE WalrusIO -----------------------------------
(***************************************************************************************)
(* Durability design of the engine under FsyncSchedule::SyncEach (layer B for C07, C09,  *)
(* C10): every durable mutation is its own step, in the order the code issues them.      *)
(*                                                                                     *)
(*   append      : write entry (pwrite on an O_SYNC descriptor, or store into the mmap)   *)
(*                 -> flush (fsync / msync) -> acknowledge                               *)
(*   consume one : write index tmp -> fsync tmp -> rename tmp over index                 *)
(*                 -> [fsync directory] -> acknowledge (read returns)                    *)
(*   new file    : create -> set_len -> fsync file -> fsync directory                    *)
(*                                                                                     *)
(* Disk model (the property statement's): explicit syncs make file data and directory    *)
(* entries durable; each unsynced write / rename independently may or may not survive a   *)
(* power loss. A process crash keeps every completed step.                              *)
(*                                                                                     *)
(* Switches: OSync (FD backend: entry writes are durable on return) / mmap otherwise;     *)
(* DirSync = the directory is synced after the index rename (the code since fix 1c74aec; *)
(* FALSE reproduces the defect: a returned StrictlyAtOnce read is forgotten).             *)
(***************************************************************************************)
EXTENDS Naturals, Sequences, FiniteSets

CONSTANTS MaxAppends, OSync, DirSync

VARIABLES
  pc,          \* protocol position of the operation in progress ("idle" between operations)
  walDur,      \* number of entries whose bytes are durable in the WAL file
  walPend,     \* set of entry numbers written but not yet synced (mmap backend)
  written,     \* number of entries written so far (entries are numbered 1..written)
  acked,       \* number of acknowledged appends
  idxDur,      \* consumer position in the durable view of the index file
  idxVol,      \* consumer position in the volatile (running process) view
  tmp,         \* content of the index tmp file (0 = none)
  tmpSynced,
  curAck,      \* consumer position whose read has returned
  down,        \* "up" | "crashed" | "powerlost"
  recWal,      \* recovered set of entry numbers (after crash / power loss)
  recCur       \* recovered consumer position

vars == <<pc, walDur, walPend, written, acked, idxDur, idxVol, tmp, tmpSynced, curAck, down, recWal, recCur>>

Init ==
  /\ pc = "idle" /\ walDur = 0 /\ walPend = {} /\ written = 0 /\ acked = 0
  /\ idxDur = 0 /\ idxVol = 0 /\ tmp = 0 /\ tmpSynced = FALSE /\ curAck = 0
  /\ down = "up" /\ recWal = {} /\ recCur = 0

Up == down = "up"

(* ---- append ---- *)
AStart == Up /\ pc = "idle" /\ written < MaxAppends /\ pc' = "a_write"
          /\ UNCHANGED <<walDur, walPend, written, acked, idxDur, idxVol, tmp, tmpSynced, curAck, down, recWal, recCur>>
AWrite == Up /\ pc = "a_write"
          /\ written' = written + 1
          /\ walDur' = (IF OSync THEN written + 1 ELSE walDur)
          /\ walPend' = (IF OSync THEN walPend ELSE walPend \cup {written + 1})
          /\ pc' = "a_flush"
          /\ UNCHANGED <<acked, idxDur, idxVol, tmp, tmpSynced, curAck, down, recWal, recCur>>
AFlush == Up /\ pc = "a_flush"
          /\ walDur' = written /\ walPend' = {}
          /\ pc' = "a_ack"
          /\ UNCHANGED <<written, acked, idxDur, idxVol, tmp, tmpSynced, curAck, down, recWal, recCur>>
AAck   == Up /\ pc = "a_ack" /\ acked' = written /\ pc' = "idle"
          /\ UNCHANGED <<walDur, walPend, written, idxDur, idxVol, tmp, tmpSynced, curAck, down, recWal, recCur>>

(* ---- consume one entry (StrictlyAtOnce: the index is persisted before the read returns) ---- *)
RStart   == Up /\ pc = "idle" /\ idxVol < acked /\ pc' = "r_tmp"
            /\ UNCHANGED <<walDur, walPend, written, acked, idxDur, idxVol, tmp, tmpSynced, curAck, down, recWal, recCur>>
RTmp     == Up /\ pc = "r_tmp" /\ tmp' = idxVol + 1 /\ tmpSynced' = FALSE /\ pc' = "r_tmpsync"
            /\ UNCHANGED <<walDur, walPend, written, acked, idxDur, idxVol, curAck, down, recWal, recCur>>
RTmpSync == Up /\ pc = "r_tmpsync" /\ tmpSynced' = TRUE /\ pc' = "r_rename"
            /\ UNCHANGED <<walDur, walPend, written, acked, idxDur, idxVol, tmp, curAck, down, recWal, recCur>>
RRename  == Up /\ pc = "r_rename" /\ idxVol' = tmp /\ tmp' = 0
            /\ pc' = (IF DirSync THEN "r_dirsync" ELSE "r_ack")
            /\ UNCHANGED <<walDur, walPend, written, acked, idxDur, tmpSynced, curAck, down, recWal, recCur>>
RDirSync == Up /\ pc = "r_dirsync" /\ idxDur' = idxVol /\ pc' = "r_ack"
            /\ UNCHANGED <<walDur, walPend, written, acked, idxVol, tmp, tmpSynced, curAck, down, recWal, recCur>>
RAck     == Up /\ pc = "r_ack" /\ curAck' = idxVol /\ pc' = "idle"
            /\ UNCHANGED <<walDur, walPend, written, acked, idxDur, idxVol, tmp, tmpSynced, down, recWal, recCur>>

(* ---- a new WAL file is created (its directory sync also makes earlier renames durable) ---- *)
NewFile == Up /\ pc = "idle" /\ idxDur' = idxVol
           /\ UNCHANGED <<pc, walDur, walPend, written, acked, idxVol, tmp, tmpSynced, curAck, down, recWal, recCur>>

(* ---- failures ---- *)
Crash == /\ Up /\ down' = "crashed"
         /\ recWal' = 1 .. written          \* every completed write is there
         /\ recCur' = idxVol
         /\ UNCHANGED <<pc, walDur, walPend, written, acked, idxDur, idxVol, tmp, tmpSynced, curAck>>

PowerLoss ==
  /\ Up /\ down' = "powerlost"
  /\ \E keep \in SUBSET walPend : recWal' = (1 .. walDur) \cup keep
  /\ recCur' \in (IF idxVol # idxDur THEN {idxDur, idxVol} ELSE {idxDur})   \* an unsynced rename may or may not survive
  /\ UNCHANGED <<pc, walDur, walPend, written, acked, idxDur, idxVol, tmp, tmpSynced, curAck>>

Next == AStart \/ AWrite \/ AFlush \/ AAck \/ RStart \/ RTmp \/ RTmpSync \/ RRename \/ RDirSync \/ RAck
        \/ NewFile \/ Crash \/ PowerLoss
Spec == Init /\ [][Next]_vars

(* ---- properties ---- *)
TypeOK == acked <= written /\ walDur <= written /\ curAck <= idxVol /\ idxDur <= idxVol
(* C07 / C10: every acknowledged append is recovered *)
InvAckedAppendsSurvive == down # "up" => (1 .. acked) \subseteq recWal
(* C09 / C10 (StrictlyAtOnce): a consuming read that returned is not forgotten, and nothing is skipped *)
InvConsumedNotForgotten == down # "up" => recCur >= curAck
InvNothingSkipped == down # "up" => recCur <= idxVol
========================================================================================
