SPECIFICATION Spec
CONSTANTS
  Classes <- MCClasses
  MaxLen = 4
  DotFix = TRUE
INVARIANTS StrictlyInside NameIsPlain Emit
CHECK_DEADLOCK FALSE
