SPECIFICATION Spec
CONSTANTS
  Nodes = {1, 2}
  RaftLeader = 1
  InitLeader = 2
  Thr = 2
  Clients <- ClientsDef
  Prog <- ProgDef
  ProgSel = "p2g2"
  MaxCmds = 2
  WithMonitor = TRUE
  WithSync = TRUE
  AtomicCount = TRUE
  LeaseUnderLock = TRUE
  LeaseOnApply = TRUE
  FreshReads = TRUE
VIEW View
CONSTRAINT Bound
CHECK_DEADLOCK FALSE
INVARIANTS InvC22 InvC23
