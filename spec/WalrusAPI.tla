--------------------------------- MODULE WalrusAPI ---------------------------------
(***************************************************************************************)
(* Contract (layer A) of the walrus storage engine: what a user of the public API may   *)
(* rely on, in the vocabulary of properties C01-C10, C12, C13, C15-C17.                 *)
(*                                                                                     *)
(* One action per public call *return* (the linearization point of a sequential         *)
(* caller), with the call's arguments and its result as action parameters, so that the  *)
(* same definitions serve                                                              *)
(*   - MC_WalrusAPI : TLC checks the property theorems on the contract itself,          *)
(*   - the design specs (WalrusBlocks, ...) : refinement targets,                       *)
(*   - Trace_WalrusAPI : validation of executions recorded from the real engine.        *)
(*                                                                                     *)
(* A "topic" here is a (instance, topic-name) pair; InstOf maps it to its instance, so   *)
(* several live instances (C13) are just disjoint topic sets with separate restarts.     *)
(* An entry is <<key, size>>: key identifies the payload bytes (the harness maps bytes   *)
(* to keys and back and checks byte identity), size is the payload length.              *)
(*                                                                                     *)
(* Freedom left on purpose (and nowhere else):                                         *)
(*   - how many entries a batch read returns (any legal non-empty prefix),              *)
(*   - whether a failed append marks the topic dirty,                                  *)
(*   - how far an AtLeastOnce cursor regresses over a restart (within lb .. cur),        *)
(*   - which part of an operation in flight at a crash survives.                        *)
(***************************************************************************************)
EXTENDS Naturals, Integers, Sequences, FiniteSets

CONSTANTS Topics,        \* set of topic identifiers
          InstOf(_)      \* topic -> instance identifier

VARIABLES
  mode,       \* [instance -> "strict" | "alo"]
  pe,         \* [instance -> persist_every] (AtLeastOnce only)
  maxBatch,   \* entry cap of a batch read / batch append (2000; 6 in the tiny geometry)
  log,        \* [t -> Seq(<<key,size>>)]  entries of successful appends, in order
  cur,        \* [t -> Nat]  entries consumed so far (view of the running process)
  lb,         \* [t -> Nat]  durable lower bound: a restart may not move cur below it
  slack,      \* [t -> Nat]  after a restart/crash the consumer resumes somewhere in
              \*             cur-slack .. cur; the next consuming read resolves it (slack = 0)
  rn,         \* [t -> Nat]  consecutive read_next consumptions since restart / batch consume
  clean,      \* [t -> BOOLEAN]
  countKnown, \* [t -> BOOLEAN]  entry count is determined by the contract
  cleanKnown, \* [t -> BOOLEAN]
  lastPeek,   \* <<>> or <<t, kind, budget, result>>: the peek returned by the previous call
  reclaimed   \* set of <<t, position>> whose storage was handed to the reclaimer

avars == <<mode, pe, maxBatch, log, cur, lb, slack, rn, clean, countKnown, cleanKnown, lastPeek, reclaimed>>

Instances == {InstOf(t) : t \in Topics}
TopicsOf(i) == {t \in Topics : InstOf(t) = i}

Min(a, b) == IF a < b THEN a ELSE b
Max(a, b) == IF a > b THEN a ELSE b

RECURSIVE SumSize(_)
SumSize(s) == IF s = <<>> THEN 0 ELSE Head(s)[2] + SumSize(Tail(s))

Unread(t)  == SubSeq(log[t], cur[t] + 1, Len(log[t]))
UnreadFrom(t, c) == SubSeq(log[t], c + 1, Len(log[t]))
(* Positions the consumer of t may currently be at. *)
Cands(t)   == (cur[t] - slack[t]) .. cur[t]
Strict(t)  == mode[InstOf(t)] = "strict"
PE(t)      == pe[InstOf(t)]

(* A legal result of a cursor-based batch read with byte budget b (b = -1: unbounded).   *)
(* C03: at most maxBatch entries; payload sum within budget unless exactly one entry;     *)
(* at least one entry whenever something is unconsumed.  C01: a prefix of the unread.     *)
WithinBudget(s, b) == b < 0 \/ Len(s) = 1 \/ SumSize(s) <= b
LegalBatch(t, c, b, rs) ==
  IF UnreadFrom(t, c) = <<>> THEN rs = <<>>
  ELSE /\ Len(rs) \in 1 .. Min(maxBatch, Len(UnreadFrom(t, c)))
       /\ rs = SubSeq(UnreadFrom(t, c), 1, Len(rs))
       /\ WithinBudget(rs, b)

(* rs is an in-order subsequence of l (greedy matching is complete for subsequences).     *)
RECURSIVE IsSubseqFrom(_, _, _)
IsSubseqFrom(rs, l, i) ==
  IF rs = <<>> THEN TRUE
  ELSE IF i > Len(l) THEN FALSE
  ELSE IF l[i] = Head(rs) THEN IsSubseqFrom(Tail(rs), l, i + 1)
  ELSE IsSubseqFrom(rs, l, i + 1)

-----------------------------------------------------------------------------------------
Init ==
  /\ mode \in [Instances -> {"strict", "alo"}]
  /\ pe \in [Instances -> 1 .. 2]
  /\ maxBatch \in {2, 3}
  /\ log = [t \in Topics |-> <<>>]
  /\ cur = [t \in Topics |-> 0]
  /\ lb  = [t \in Topics |-> 0]
  /\ slack = [t \in Topics |-> 0]
  /\ rn  = [t \in Topics |-> 0]
  /\ clean = [t \in Topics |-> TRUE]
  /\ countKnown = [t \in Topics |-> TRUE]
  /\ cleanKnown = [t \in Topics |-> TRUE]
  /\ lastPeek = <<>>
  /\ reclaimed = {}

cfgvars == <<mode, pe, maxBatch>>

(* ---- appends (C01, C04, C17) ---- *)
AppendOk(t, e) ==
  /\ log' = [log EXCEPT ![t] = Append(@, e)]
  /\ clean' = [clean EXCEPT ![t] = FALSE]
  /\ cleanKnown' = [cleanKnown EXCEPT ![t] = TRUE]
  /\ lastPeek' = <<>>
  /\ UNCHANGED <<cfgvars, cur, lb, slack, rn, countKnown, reclaimed>>

(* C04: an append or batch that returns an error leaves no trace. It may or may not have *)
(* marked the topic dirty.                                                             *)
AppendFail(t) ==
  /\ \/ UNCHANGED <<clean, cleanKnown>>
     \/ /\ clean' = [clean EXCEPT ![t] = FALSE]
        /\ cleanKnown' = [cleanKnown EXCEPT ![t] = TRUE]
  /\ lastPeek' = <<>>
  /\ UNCHANGED <<cfgvars, log, cur, lb, slack, rn, countKnown, reclaimed>>

(* C04: all of es, contiguously, or (on error) nothing. An empty batch succeeds.          *)
BatchOk(t, es) ==
  /\ Len(es) <= maxBatch
  /\ log' = [log EXCEPT ![t] = @ \o es]
  /\ clean' = [clean EXCEPT ![t] = FALSE]
  /\ cleanKnown' = [cleanKnown EXCEPT ![t] = TRUE]
  /\ lastPeek' = <<>>
  /\ UNCHANGED <<cfgvars, cur, lb, slack, rn, countKnown, reclaimed>>

(* ---- cursor-based reads (C01, C02, C03, C09, C15) ---- *)
PeekAgrees(t, kind, b, rs) ==
  (lastPeek # <<>> /\ lastPeek[1] = t /\ lastPeek[2] = kind /\ lastPeek[3] = b) => rs = lastPeek[4]

(* A consuming read that found the consumer at position c and returned n entries. An empty  *)
(* result resolves nothing and moves nothing.                                             *)
ConsumeN(t, c, n, viaReadNext) ==
  IF n = 0 THEN UNCHANGED <<cur, slack, rn, lb>>
  ELSE /\ cur' = [cur EXCEPT ![t] = c + n]
       /\ slack' = [slack EXCEPT ![t] = 0]
       /\ IF Strict(t) THEN /\ lb' = [lb EXCEPT ![t] = cur'[t]]
                            /\ UNCHANGED rn
          ELSE IF viaReadNext
               THEN /\ rn' = [rn EXCEPT ![t] = Min(@ + 1, PE(t))]
                    /\ lb' = IF rn'[t] >= PE(t)
                             THEN [lb EXCEPT ![t] = Max(@, cur'[t] - PE(t))]
                             ELSE lb
               ELSE /\ rn' = [rn EXCEPT ![t] = 0]
                    /\ UNCHANGED lb

(* c: the position the consumer was at (c \in Cands(t); c = cur[t] unless a restart left it   *)
(* open).                                                                                *)
ReadNext(t, ck, c, rs) ==
  /\ c \in Cands(t)
  /\ rs = IF UnreadFrom(t, c) = <<>> THEN <<>> ELSE <<Head(UnreadFrom(t, c))>>
  /\ IF ck
     THEN /\ PeekAgrees(t, "read", 0, rs)
          /\ ConsumeN(t, c, Len(rs), TRUE)
          /\ lastPeek' = <<>>
     ELSE /\ UNCHANGED <<cur, lb, slack, rn>>
          /\ lastPeek' = <<t, "read", 0, rs>>
  /\ UNCHANGED <<cfgvars, log, clean, countKnown, cleanKnown, reclaimed>>

BatchRead(t, b, ck, c, rs) ==
  /\ c \in Cands(t)
  /\ LegalBatch(t, c, b, rs)
  /\ IF ck
     THEN /\ PeekAgrees(t, "bread", b, rs)
          /\ ConsumeN(t, c, Len(rs), FALSE)
          /\ lastPeek' = <<>>
     ELSE /\ UNCHANGED <<cur, lb, slack, rn>>
          /\ lastPeek' = <<t, "bread", b, rs>>
  /\ UNCHANGED <<cfgvars, log, clean, countKnown, cleanKnown, reclaimed>>

(* ---- offset-addressed reads (C02, C03) ----                                            *)
(* rs: full entries only; the harness reports a possibly trimmed first element separately *)
(* as headOf = 0 (none) or the log position whose suffix it is.                           *)
OffsetRead(t, b, ck, headOf, rs) ==
  /\ headOf \in 0 .. Len(log[t])
  /\ IsSubseqFrom(rs, log[t], headOf + 1)
  /\ Len(rs) + (IF headOf > 0 THEN 1 ELSE 0) <= maxBatch
  /\ (headOf = 0 => WithinBudget(rs, b))
  /\ UNCHANGED <<cfgvars, log, cur, lb, slack, rn, clean, countKnown, cleanKnown, reclaimed>>
  /\ UNCHANGED lastPeek     \* C02: invisible, even between a peek and its consuming read

(* ---- observations (C15, C17) ---- *)
Count(t, n) ==
  /\ (countKnown[t] /\ slack[t] = 0) => n = Len(log[t]) - cur[t]
  /\ UNCHANGED avars

IsClean(t, v) ==
  /\ cleanKnown[t] => v = clean[t]
  /\ UNCHANGED avars

Mark(t, v) ==
  /\ clean' = [clean EXCEPT ![t] = v]
  /\ cleanKnown' = [cleanKnown EXCEPT ![t] = TRUE]
  /\ UNCHANGED <<cfgvars, log, cur, lb, slack, rn, countKnown, lastPeek, reclaimed>>

(* ---- restart of one instance after a clean shutdown (C06, C15, C17) ----                  *)
(* StrictlyAtOnce: nothing changes. AtLeastOnce: the consumer resumes somewhere in lb .. cur   *)
(* (never ahead: nothing is skipped); which position it is shows at its next consuming read. *)
Restart(i) ==
  /\ slack' = [t \in Topics |-> IF InstOf(t) = i /\ ~Strict(t) THEN cur[t] - lb[t] ELSE slack[t]]
  /\ rn' = [t \in Topics |-> IF InstOf(t) = i THEN 0 ELSE rn[t]]
  /\ countKnown' = [t \in Topics |-> IF InstOf(t) = i /\ ~Strict(t) THEN FALSE ELSE countKnown[t]]
  /\ lastPeek' = <<>>
  /\ UNCHANGED <<cfgvars, log, cur, lb, clean, cleanKnown, reclaimed>>

(* ---- crash / power loss and recovery of one instance (C07-C10) ----                    *)
(* inflight: <<>> | <<"append", t, <<e>>>> | <<"batch", t, es>> | <<"read", t, n>>         *)
(*   (n = the most entries the interrupted consuming read could have committed).          *)
(* batchAtomic: C08 (all or nothing) instead of C07's "at most the entries in flight".    *)
(* C07: "followed by at most the entries of operations still in flight": any in-order       *)
(* selection of the in-flight entries may survive. (For very long batches only prefixes are  *)
(* enumerated, to keep the choice set finite and small.)                                    *)
RECURSIVE SubSeqs(_)
SubSeqs(s) == IF s = <<>> THEN {<<>>}
              ELSE LET r == SubSeqs(Tail(s)) IN r \cup {<<Head(s)>> \o x : x \in r}

KeptChoices(inflight, batchAtomic) ==
  IF inflight = <<>> \/ inflight[1] = "read" THEN {<<>>}
  ELSE IF batchAtomic THEN {<<>>, inflight[3]}
  ELSE IF Len(inflight[3]) <= 8 THEN SubSeqs(inflight[3])
  ELSE {SubSeq(inflight[3], 1, k) : k \in 0 .. Len(inflight[3])}

Crash(i, inflight, batchAtomic, kept) ==
  /\ kept \in KeptChoices(inflight, batchAtomic)
  /\ log' = IF kept = <<>> THEN log ELSE [log EXCEPT ![inflight[2]] = @ \o kept]
  /\ LET extra(t) == IF inflight # <<>> /\ inflight[1] = "read" /\ inflight[2] = t THEN inflight[3] ELSE 0
         hi(t) == Min(Len(log'[t]), cur[t] + extra(t))
         lo(t) == IF Strict(t) THEN cur[t] - slack[t] ELSE Min(lb[t], cur[t] - slack[t])
     IN /\ cur' = [t \in Topics |-> IF InstOf(t) = i THEN hi(t) ELSE cur[t]]
        /\ slack' = [t \in Topics |-> IF InstOf(t) = i THEN hi(t) - lo(t) ELSE slack[t]]
  /\ rn' = [t \in Topics |-> IF InstOf(t) = i THEN 0 ELSE rn[t]]
  /\ countKnown' = [t \in Topics |-> IF InstOf(t) = i THEN FALSE ELSE countKnown[t]]
  /\ cleanKnown' = [t \in Topics |-> IF InstOf(t) = i THEN FALSE ELSE cleanKnown[t]]
  /\ lastPeek' = <<>>
  /\ UNCHANGED <<cfgvars, lb, clean, reclaimed>>

(* ---- reclamation (C12, C13) ----                                                      *)
(* stored: set of <<t, position>> of acknowledged entries stored in the file handed to     *)
(* the reclaimer. Every one of them must be durably consumed.                            *)
Reclaim(stored) ==
  /\ \A p \in stored : p[2] <= lb[p[1]] /\ p[2] <= cur[p[1]] - slack[p[1]]
  /\ reclaimed' = reclaimed \cup stored
  /\ UNCHANGED <<cfgvars, log, cur, lb, slack, rn, clean, countKnown, cleanKnown, lastPeek>>

-----------------------------------------------------------------------------------------
(* State invariants of the contract (checked in MC_WalrusAPI and along every validated     *)
(* trace).                                                                              *)
TypeOK ==
  /\ \A t \in Topics : cur[t] \in 0 .. Len(log[t]) /\ slack[t] \in 0 .. cur[t] /\ lb[t] \in 0 .. cur[t]
  /\ \A t \in Topics : clean[t] \in BOOLEAN

InvReclaimedConsumed == \A p \in reclaimed : p[2] <= cur[p[1]] - slack[p[1]]     \* C12

=========================================================================================
