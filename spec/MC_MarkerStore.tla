------------------------------ MODULE MC_MarkerStore ------------------------------
(***************************************************************************************)
(* Bounded instances of MarkerStore.                                                     *)
(*   MC_MarkerStore_quick.cfg / _thorough.cfg   verification: every interleaving (Prompt =   *)
(*       FALSE), the switches at the values of the current code, C17 + design invariants,      *)
(*       -coverage 1 (every action must fire).                                               *)
(*   MC_MarkerStore_defect_*.cfg                one deviation switch at a historical value;      *)
(*       TLC must report C17Cex violated (vacuity guards; the printed CEX line is the            *)
(*       behaviour, the prompt-scheduler variants of these are replayed on the real engine).       *)
(*   MC_MarkerStore_torn_*.cfg                  NoTorn / NoTornInFile must be violated: torn         *)
(*       snapshots exist in the model and reach the file (while C17 holds in _quick).               *)
(*   MC_MarkerStore_emit_*.cfg                  Prompt = TRUE, KeepHist = TRUE: `hist` is hidden       *)
(*       by VIEW, so TLC reaches every distinct state once; Emit prints the behaviour that led          *)
(*       to every state in which a freshly opened instance is at rest.                                 *)
(* vlib/props_marker.py writes the configurations (the committed files are checked to be what it     *)
(* generates) and runs them.                                                                       *)
(***************************************************************************************)
EXTENDS MarkerStore, Json

View == svars

Parked == {k \in Insts : ppc[k] = "gate"}
Summary == [h |-> hist, want |-> want, rep |-> RepOf(st[cur]), file |-> file, cur |-> cur,
            parked |-> Parked, closed |-> closed]

(* always true; prints complete behaviours: a freshly opened instance, every thread at rest *)
Emit == (KeepHist /\ fresh /\ live /\ cpc = <<>> /\ Quiet) => PrintT(<<"BEH", ToJson(Summary)>>)

(* C17, printing the behaviour when it fails *)
C17Cex == C17 \/ (PrintT(<<"CEX", ToJson(Summary)>>) /\ FALSE)
=========================================================================================
