------------------------------- MODULE WalrusConcDesign -------------------------------
(***************************************************************************************)
(* Design specification (layer B, CONCURRENT) of the reader/writer protocol of one       *)
(* walrus topic, at the granularity of the engine's cfg(walrus_verif) gates              *)
(* (`sched_point("<label>")`), transcribed from                                          *)
(*   src/wal/runtime/writer.rs       write, batch_write (BatchRevertInfo: pending_seals,  *)
(*                                   publish_sealed), snapshot_block                      *)
(*   src/wal/runtime/reader.rs       append_block_to_chain (tail carry-over)              *)
(*   src/wal/runtime/walrus_read.rs  read_next, batch_read_for_topic (cursor based,        *)
(*                                   checkpoint = true, unbounded byte budget)            *)
(*   src/wal/runtime/walrus_write.rs append_for_topic, batch_append_for_topic             *)
(* as the code is NOW (after 44433eb and e6f06c9).  It complements WalrusBlocks (the same  *)
(* mechanics with every public call one atomic action) and reuses its vocabulary:          *)
(* chain, wr, rd = [ci, co, tb, to], used.  Sizes are abstract: every entry takes one       *)
(* unit, a block holds cap units (tiny geometry: 2 KiB blocks; payloads of 1500 bytes give  *)
(* cap = 1, of 700 bytes cap = 2).  One topic, StrictlyAtOnce.                              *)
(*                                                                                       *)
(* Processes.  A behaviour runs one program set `prog` with one block capacity `cap`, both   *)
(* chosen in Init (from ProgSets x Caps) and constant afterwards, so that one TLC run covers  *)
(* many bounded programs.  prog.p is a sequence of programs (sequences of operations):        *)
(* prog.p[1] is the sequential preload (runs alone, first), the last one the quiescent drain   *)
(* (runs alone, last); the programs in between are the client threads (harness thread i-2).   *)
(* Each thread has a program counter `pc` whose values are the gate labels of the engine     *)
(* plus "op_start" (the harness' gate before every call), "done", and a few internal          *)
(* labels (lower-case, prefix "x_") for positions inside a gate-to-gate segment where the     *)
(* thread can block on a lock.                                                               *)
(*                                                                                       *)
(* Locks.  wl = Writer.current_block + Writer.current_offset (always taken together, in     *)
(* this order, by write, batch_write and snapshot_block); cl = the per-topic column RwLock    *)
(* of ColReaderInfo (only ever write-locked on these paths); flag = Writer.is_batch_writing.  *)
(* Each holds the owning thread or 0.  Lock order in the code: flag, wl, cl (the writer         *)
(* publishes sealed blocks under wl; readers snapshot the writer BEFORE taking cl).            *)
(* Held ACROSS a gate (HeldAt below, checked as invariant LocksAtGates):                       *)
(*     cl         rn_before_tail_read, br_before_io, br_before_commit                          *)
(*     wl         w_after_seal, w_after_write, bw_after_seal, bw_before_io, bw_before_publish  *)
(*     flag       bw_after_flag and every later bw_ gate                                       *)
(* A thread parked at such a gate blocks the others exactly as in the engine.                   *)
(* Not state variables: the read-offset index RwLock, the `writers` and `reader.data` maps,     *)
(* topic_entry_counts, the allocator spin lock.  They are leaf locks (no other lock is           *)
(* requested while one of them is held, except `writers.read()` around snapshot_block, and       *)
(* `writers.write()` is only requested while no writer - hence no wl holder - exists) and are     *)
(* never held across a gate, so they are taken and released inside one atomic step.  The          *)
(* persisted index itself is not modelled (C05 is about one process lifetime; hydration finds      *)
(* an empty index the first time and is a no-op afterwards).                                       *)
(*                                                                                       *)
(* Atomicity.  One action = the code from a gate (or from a blocking lock acquisition) to the   *)
(* next gate (or the next lock acquisition that can block).  Two schedulers:                     *)
(*   FineLocks = TRUE   any thread may take its next step: all interleavings at lock              *)
(*                      granularity; this is what the properties and the deadlock check are        *)
(*                      verified on;                                                              *)
(*   FineLocks = FALSE  a thread that leaves a gate keeps the `running` token until it is parked    *)
(*                      at its next gate, as under the harness' schedule controller (one thread     *)
(*                      released at a time).  A released thread that blocks half-way is a dead       *)
(*                      end, so every complete behaviour is a schedule the controller can follow     *)
(*                      without any thread ever waiting for a lock.  `hist` records it.              *)
(*                                                                                       *)
(* Deviation switches (all FALSE = the code as it is):                                       *)
(*   DefRnStaleSnapshot  before 44433eb: read_next uses a writer snapshot whose block has been  *)
(*                       sealed meanwhile (no retry)  -> an entry is delivered twice              *)
(*   DefBrStaleSnapshot  before 44433eb: batch read plans a stale snapshot as the tail           *)
(*   DefBwEarlyPublish   before e6f06c9: batch_write publishes a block sealed while planning      *)
(*                       at once, before the batch's entries are written -> a reader takes the     *)
(*                       unwritten space for rolled-back space and an entry is never delivered     *)
(*   MutBrNewestOnly     seeded change: the batch read's staleness test looks only at the newest   *)
(*                       chain block                                                             *)
(***************************************************************************************)
EXTENDS Naturals, Sequences, FiniteSets

CONSTANTS
  Caps,                \* set of block capacities (entries per block)
  MaxBatch,            \* MAX_BATCH_ENTRIES (6 in the tiny geometry); the programs stay below it
  ProgSets,            \* set of [n |-> name, p |-> <<preload, thread_0, ..., thread_k, drain>>]
  MaxThreads,          \* bound on Len(p) (a constant index set lets TLC report coverage per action)
  FineLocks,
  DefRnStaleSnapshot, DefBrStaleSnapshot, DefBwEarlyPublish, MutBrNewestOnly

VARIABLES
  prog, cap, \* the program set and the block capacity of this behaviour (never change)
  chain,    \* Seq([id, used])     sealed blocks published to the readers, in order
  wr,       \* [id, cur]           the writer's active block and current_offset (id = 0: no writer yet)
  nextId,   \* allocator: next block id
  disk,     \* [block id -> [1..Cap -> entry | 0]]   what a header probe / entry read finds (0 = zeroes)
  rd,       \* [ci, co, tb, to]    ColReaderInfo: cur_block_idx, cur_block_offset, tail_block_id, tail_offset
  wl, cl, flag,                    \* lock owners (0 = free)
  pc, opi,  \* per thread: program counter, index of the current operation
  loc,      \* per thread: locals of the operation in progress
  res,      \* per thread: results of the completed operations, [st |-> "ok" | "err" | "r", es |-> delivered entries]
  running,  \* gate-atomic scheduler: the thread between two gates (0 = every thread is parked)
  hist,     \* the schedule: <<harness thread, gate it was released from>>, client threads only
  last, npre \* last client thread released; number of preemptions so far (for bounding the emission)

svars == <<prog, cap, chain, wr, nextId, disk, rd, wl, cl, flag, pc, opi, loc, res, running>>
vars  == <<svars, hist, last, npre>>

Progs   == prog.p
Cap     == cap
N       == Len(Progs)
Threads == 1 .. N
PreT    == 1
DrainT  == N
Workers == 2 .. (N - 1)

Min(a, b) == IF a < b THEN a ELSE b

Gates == {"op_start", "done",
          "w_start", "w_after_seal", "w_after_write",
          "bw_after_flag", "bw_after_seal", "bw_before_io", "bw_before_publish",
          "rn_after_hydrate", "rn_after_writer_snapshot", "rn_sealed_before_persist",
          "rn_before_tail_read", "rn_after_tail_read",
          "br_after_writer_snapshot", "br_before_io", "br_before_commit"}
Internal == {"x_w_seal", "x_bw_seal", "x_bw_pub", "x_rn_snap"}
IsGate(l) == l \in Gates

(* the locks a thread holds while it is parked at (or stands at) a label *)
HeldAt(l) ==
  [wl   |-> l \in {"w_after_seal", "w_after_write", "x_w_seal",
                   "bw_after_seal", "bw_before_io", "bw_before_publish", "x_bw_seal", "x_bw_pub"},
   cl   |-> l \in {"rn_before_tail_read", "br_before_io", "br_before_commit"},
   flag |-> l \in {"bw_after_flag", "bw_after_seal", "bw_before_io", "bw_before_publish", "x_bw_seal", "x_bw_pub"}]

(* ---------------- programs ---------------- *)
OpEnts(o) == IF o.op = "append" THEN <<o.e>> ELSE IF o.op = "batch" THEN o.es ELSE <<>>
RECURSIVE ProgEnts(_)
ProgEnts(p) == IF p = <<>> THEN <<>> ELSE OpEnts(Head(p)) \o ProgEnts(Tail(p))
RECURSIVE AllEntsFrom(_)
AllEntsFrom(t) == IF t > N THEN <<>> ELSE ProgEnts(Progs[t]) \o AllEntsFrom(t + 1)
AllEntSeq == AllEntsFrom(1)
NEnt      == Len(AllEntSeq)
AllEnts   == {AllEntSeq[i] : i \in 1 .. NEnt}
MaxBlk    == NEnt + 1
ProdOf(e) == CHOOSE t \in Threads : \E i \in 1 .. Len(ProgEnts(Progs[t])) : ProgEnts(Progs[t])[i] = e
(* the batch an entry belongs to (0 = a single append): <<thread, op index>> *)
BatchOf(e) == LET t == ProdOf(e) IN
  IF \E k \in 1 .. Len(Progs[t]) : Progs[t][k].op = "batch" /\ \E i \in 1 .. Len(Progs[t][k].es) : Progs[t][k].es[i] = e
  THEN <<t, CHOOSE k \in 1 .. Len(Progs[t]) : Progs[t][k].op = "batch" /\ \E i \in 1 .. Len(Progs[t][k].es) : Progs[t][k].es[i] = e>>
  ELSE <<0, 0>>

(* what the model assumes of a program set (checked as an invariant) *)
ProgramsOK ==
  /\ cap \in Nat \ {0} /\ N >= 2 /\ N <= MaxThreads
  /\ Cardinality(AllEnts) = NEnt /\ 0 \notin AllEnts        \* entry ids are distinct and positive
  /\ NEnt <= MaxBatch                                         \* the entry cap of batch reads is never reached
  /\ \A t \in Threads : LET s == ProgEnts(Progs[t]) IN \A i, j \in 1 .. Len(s) : i < j => s[i] < s[j]
  /\ \A t \in Threads : \A k \in 1 .. Len(Progs[t]) : Progs[t][k].op = "batch" => Progs[t][k].es # <<>>

Op(t) == Progs[t][opi[t]]

Loc0 == [snap |-> <<0, 0>>, toff |-> 0, got |-> 0, nb |-> 0, orig |-> 0, po |-> 0, k |-> 1, wplan |-> <<>>,
         pend |-> <<>>, j |-> 1, plan |-> <<>>, cl |-> 0, out |-> <<>>, fi |-> 0, fo |-> 0, ftb |-> 0, fto |-> 0,
         saw |-> FALSE]

Init ==
  /\ prog \in ProgSets /\ cap \in Caps
  /\ chain = <<>> /\ wr = [id |-> 0, cur |-> 0] /\ nextId = 1
  /\ disk = [b \in 1 .. MaxBlk |-> [o \in 1 .. Cap |-> 0]]
  /\ rd = [ci |-> 0, co |-> 0, tb |-> 0, to |-> 0]
  /\ wl = 0 /\ cl = 0 /\ flag = 0
  /\ pc = [t \in Threads |-> IF Progs[t] = <<>> THEN "done" ELSE "op_start"]
  /\ opi = [t \in Threads |-> 1]
  /\ loc = [t \in Threads |-> Loc0]
  /\ res = [t \in Threads |-> <<>>]
  /\ running = 0 /\ hist = <<>> /\ last = 0 /\ npre = 0

(* ---------------- scheduling ---------------- *)
(* the preload runs alone first, the drain alone last *)
MayRun(t) == IF t = PreT THEN TRUE
             ELSE IF t = DrainT THEN \A u \in Threads \ {DrainT} : pc[u] = "done"
             ELSE pc[PreT] = "done"
(* thread t stands at one of the labels S and the scheduler lets it take its next step *)
AtPc(t, S) ==
  /\ t \in Threads
  /\ pc[t] \in S
  /\ MayRun(t)
  /\ FineLocks \/ running = t \/ running = 0
(* a switch away from a client thread that is parked inside an operation *)
Preempts(t) == last # 0 /\ last # t /\ pc[last] \notin {"op_start", "done"}
(* bookkeeping of a step of t that ends at label l2: the token, the recorded schedule *)
Book(t, l2) ==
  /\ UNCHANGED <<prog, cap>>
  /\ running' = IF FineLocks \/ IsGate(l2) THEN 0 ELSE t
  /\ IF t \in Workers /\ IsGate(pc[t])
     THEN /\ hist' = Append(hist, <<t - 2, pc[t]>>)
          /\ last' = t
          /\ npre' = npre + (IF Preempts(t) THEN 1 ELSE 0)
     ELSE UNCHANGED <<hist, last, npre>>

(* ---------------- shared pieces ---------------- *)
Goto(t, l) == pc' = [pc EXCEPT ![t] = l] /\ UNCHANGED <<opi, res>> /\ Book(t, l)
Finish(t, r) ==                               \* the call returns r
  LET l2 == IF opi[t] < Len(Progs[t]) THEN "op_start" ELSE "done" IN
  /\ res' = [res EXCEPT ![t] = Append(@, r)]
  /\ opi' = [opi EXCEPT ![t] = @ + 1]
  /\ pc'  = [pc EXCEPT ![t] = l2]
  /\ loc' = [loc EXCEPT ![t] = Loc0]
  /\ Book(t, l2)
ROk       == [st |-> "ok", es |-> <<>>]
RErr      == [st |-> "err", es |-> <<>>]
RRead(es) == [st |-> "r", es |-> es]

ChainIds == {chain[i].id : i \in 1 .. Len(chain)}
At(b, o) == IF o < Cap THEN disk[b][o + 1] ELSE 0   \* what lies at (0-based) unit o of block b

(* walrus.rs get_or_create_writer: the first appender creates the writer with a fresh block *)
WithWriter == IF wr.id = 0 THEN [w |-> [id |-> nextId, cur |-> 0], n |-> nextId + 1] ELSE [w |-> wr, n |-> nextId]

(* reader.rs append_block_to_chain (under cl): push, and carry the tail progress over *)
Publish(ch, r, b) ==
  LET ch1 == Append(ch, b) IN
  [ch |-> ch1,
   r  |-> IF r.tb = b.id THEN [r EXCEPT !.ci = Len(ch1) - 1, !.co = Min(r.to, b.used)] ELSE r]

-----------------------------------------------------------------------------------------
(* ---------------- append_for_topic / Writer::write ---------------- *)
(* op_start .. w_start: mark dirty, get_or_create_writer, is_batch_writing.load() *)
AppStartOk(t) ==
  /\ AtPc(t, {"op_start"}) /\ Op(t).op = "append" /\ flag = 0
  /\ wr' = WithWriter.w /\ nextId' = WithWriter.n
  /\ Goto(t, "w_start")
  /\ UNCHANGED <<chain, disk, rd, wl, cl, flag, loc>>
AppStartBusy(t) ==                              \* Err(WouldBlock): a batch is in progress
  /\ AtPc(t, {"op_start"}) /\ Op(t).op = "append" /\ flag # 0
  /\ wr' = WithWriter.w /\ nextId' = WithWriter.n
  /\ Finish(t, RErr)
  /\ UNCHANGED <<chain, disk, rd, wl, cl, flag>>
(* w_start: lock current_block, current_offset.  The entry fits: block.write -> w_after_write *)
WStartFits(t) ==
  /\ AtPc(t, {"w_start"}) /\ wl = 0 /\ wr.cur < Cap
  /\ wl' = t
  /\ disk' = [disk EXCEPT ![wr.id][wr.cur + 1] = Op(t).e]
  /\ Goto(t, "w_after_write")
  /\ UNCHANGED <<chain, wr, nextId, rd, cl, flag, loc>>
(* ... it does not fit: alloc_block first, then seal; publishing needs the column lock *)
WStartRotate(t) ==
  /\ AtPc(t, {"w_start"}) /\ wl = 0 /\ wr.cur >= Cap
  /\ wl' = t
  /\ loc' = [loc EXCEPT ![t].nb = nextId]
  /\ nextId' = nextId + 1
  /\ Goto(t, "x_w_seal")
  /\ UNCHANGED <<chain, wr, disk, rd, cl, flag>>
WSeal(t) ==                                      \* append_block_to_chain(sealed) -> w_after_seal
  /\ AtPc(t, {"x_w_seal"}) /\ cl = 0
  /\ LET p == Publish(chain, rd, [id |-> wr.id, used |-> wr.cur]) IN chain' = p.ch /\ rd' = p.r
  /\ Goto(t, "w_after_seal")
  /\ UNCHANGED <<wr, nextId, disk, wl, cl, flag, loc>>
WAfterSeal(t) ==                                 \* *block = new_block; *cur = 0; block.write -> w_after_write
  /\ AtPc(t, {"w_after_seal"})
  /\ wr' = [id |-> loc[t].nb, cur |-> 0]
  /\ disk' = [disk EXCEPT ![loc[t].nb][1] = Op(t).e]
  /\ Goto(t, "w_after_write")
  /\ UNCHANGED <<chain, nextId, rd, wl, cl, flag, loc>>
WAfterWrite(t) ==                                \* *cur += need; guards dropped; Ok(())
  /\ AtPc(t, {"w_after_write"})
  /\ wr' = [wr EXCEPT !.cur = @ + 1]
  /\ wl' = 0
  /\ Finish(t, ROk)
  /\ UNCHANGED <<chain, nextId, disk, rd, cl, flag>>

-----------------------------------------------------------------------------------------
(* ---------------- batch_append_for_topic / Writer::batch_write ---------------- *)
BwStartOk(t) ==                                  \* compare_exchange(false, true) -> bw_after_flag
  /\ AtPc(t, {"op_start"}) /\ Op(t).op = "batch" /\ flag = 0
  /\ wr' = WithWriter.w /\ nextId' = WithWriter.n
  /\ flag' = t
  /\ Goto(t, "bw_after_flag")
  /\ UNCHANGED <<chain, disk, rd, wl, cl, loc>>
BwStartBusy(t) ==                                \* Err(WouldBlock): another batch is in progress
  /\ AtPc(t, {"op_start"}) /\ Op(t).op = "batch" /\ flag # 0
  /\ wr' = WithWriter.w /\ nextId' = WithWriter.n
  /\ Finish(t, RErr)
  /\ UNCHANGED <<chain, disk, rd, wl, cl, flag>>

(* the planning loop up to the next seal: entries k.. are planned into block b from offset po *)
RECURSIVE BwPlan(_, _, _, _, _)
BwPlan(es, k, b, po, plan) ==
  IF k > Len(es) \/ po >= Cap THEN [k |-> k, po |-> po, plan |-> plan]
  ELSE BwPlan(es, k + 1, b, po + 1, Append(plan, [b |-> b, o |-> po, e |-> es[k]]))

(* after a stretch of planning: either everything is planned (-> bw_before_io) or the block that *)
(* is being planned (id b) is sealed with used = planning_offset and kept in pending_seals         *)
(* (-> bw_after_seal).  With DefBwEarlyPublish it is published at once instead.                    *)
BwAdvance(t, p, b) ==
  IF p.k > Len(Op(t).es)
  THEN /\ loc' = [loc EXCEPT ![t].k = p.k, ![t].po = p.po, ![t].wplan = p.plan, ![t].j = 1]
       /\ Goto(t, "bw_before_io")
       /\ UNCHANGED nextId
  ELSE /\ loc' = [loc EXCEPT ![t].k = p.k, ![t].po = p.po, ![t].wplan = p.plan, ![t].nb = nextId,
                             ![t].pend = Append(@, [id |-> b, used |-> p.po])]
       /\ nextId' = nextId + 1
       /\ Goto(t, IF DefBwEarlyPublish THEN "x_bw_seal" ELSE "bw_after_seal")
BwAfterFlag(t) ==                                \* lock current_block, current_offset; plan
  /\ AtPc(t, {"bw_after_flag"}) /\ wl = 0
  /\ wl' = t
  /\ BwAdvance(t, BwPlan(Op(t).es, 1, wr.id, wr.cur, <<>>), wr.id)
  /\ UNCHANGED <<chain, wr, disk, rd, cl, flag>>
BwSealPublishEarly(t) ==                         \* only with DefBwEarlyPublish
  /\ AtPc(t, {"x_bw_seal"}) /\ cl = 0
  /\ LET p == Publish(chain, rd, loc[t].pend[Len(loc[t].pend)]) IN chain' = p.ch /\ rd' = p.r
  /\ Goto(t, "bw_after_seal")
  /\ UNCHANGED <<wr, nextId, disk, wl, cl, flag, loc>>
BwAfterSeal(t) ==                                \* *block = new_block; planning_offset = 0; plan on
  /\ AtPc(t, {"bw_after_seal"})
  /\ wr' = [wr EXCEPT !.id = loc[t].nb]          \* current_offset keeps the pre-batch value until the end
  /\ BwAdvance(t, BwPlan(Op(t).es, loc[t].k, loc[t].nb, 0, loc[t].wplan), loc[t].nb)
  /\ UNCHANGED <<chain, disk, rd, wl, cl, flag>>
RECURSIVE WriteAll(_, _)
WriteAll(d, plan) == IF plan = <<>> THEN d
                     ELSE WriteAll([d EXCEPT ![Head(plan).b][Head(plan).o + 1] = Head(plan).e], Tail(plan))
BwIo(t) ==                                       \* the writes (io_uring or block.write) and the fsyncs
  /\ AtPc(t, {"bw_before_io"})
  /\ disk' = WriteAll(disk, loc[t].wplan)
  /\ Goto(t, "bw_before_publish")
  /\ UNCHANGED <<chain, wr, nextId, rd, wl, cl, flag, loc>>
BwToPublish(t) == IF DefBwEarlyPublish THEN <<>> ELSE loc[t].pend
BwPublishOne(t) ==                               \* publish_sealed: one append_block_to_chain
  /\ AtPc(t, {"bw_before_publish", "x_bw_pub"}) /\ loc[t].j <= Len(BwToPublish(t)) /\ cl = 0
  /\ LET b == BwToPublish(t)[loc[t].j]
         p == IF b.used > 0 THEN Publish(chain, rd, b) ELSE [ch |-> chain, r |-> rd]
     IN chain' = p.ch /\ rd' = p.r
  /\ loc' = [loc EXCEPT ![t].j = @ + 1]
  /\ Goto(t, "x_bw_pub")
  /\ UNCHANGED <<wr, nextId, disk, wl, cl, flag>>
BwFinal(t) ==                                    \* *cur_offset = planning_offset; guards dropped; Ok(())
  /\ AtPc(t, {"bw_before_publish", "x_bw_pub"}) /\ loc[t].j > Len(BwToPublish(t))
  /\ wr' = [wr EXCEPT !.cur = loc[t].po]
  /\ wl' = 0 /\ flag' = 0
  /\ Finish(t, ROk)
  /\ UNCHANGED <<chain, nextId, disk, rd, cl>>

-----------------------------------------------------------------------------------------
(* ---------------- read_next(topic, checkpoint = true) ---------------- *)
RnStart(t) ==                                    \* column lock, hydrate (no-op), drop -> rn_after_hydrate
  /\ AtPc(t, {"op_start"}) /\ Op(t).op = "read" /\ cl = 0
  /\ Goto(t, "rn_after_hydrate")
  /\ UNCHANGED <<chain, wr, nextId, disk, rd, wl, cl, flag, loc>>
RnSnap(t) ==                                     \* loop top: snapshot_block() -> rn_after_writer_snapshot
  /\ AtPc(t, {"rn_after_hydrate", "x_rn_snap"}) /\ wl = 0
  /\ loc' = [loc EXCEPT ![t].snap = <<wr.id, wr.cur>>]
  /\ Goto(t, "rn_after_writer_snapshot")
  /\ UNCHANGED <<chain, wr, nextId, disk, rd, wl, cl, flag>>
(* rn_after_writer_snapshot: take the column lock, then ... *)
RnSealedRead(t) ==                               \* an entry of the sealed chain: read + commit under the lock
  /\ AtPc(t, {"rn_after_writer_snapshot"}) /\ cl = 0
  /\ rd.ci < Len(chain)
  /\ LET b == chain[rd.ci + 1] IN
     /\ rd.co < b.used /\ At(b.id, rd.co) # 0
     /\ loc' = [loc EXCEPT ![t].got = At(b.id, rd.co)]
  /\ rd' = [rd EXCEPT !.co = @ + 1]
  /\ Goto(t, "rn_sealed_before_persist")
  /\ UNCHANGED <<chain, wr, nextId, disk, wl, cl, flag>>
RnSealedAdvance(t) ==                            \* block exhausted, or zeroed header (rolled-back space): next block; `continue`
  /\ AtPc(t, {"rn_after_writer_snapshot"}) /\ cl = 0
  /\ rd.ci < Len(chain)
  /\ LET b == chain[rd.ci + 1] IN rd.co >= b.used \/ At(b.id, rd.co) = 0
  /\ rd' = [rd EXCEPT !.ci = @ + 1, !.co = 0]
  /\ Goto(t, "x_rn_snap")
  /\ UNCHANGED <<chain, wr, nextId, disk, wl, cl, flag, loc>>
RnNoWriter(t) ==                                 \* tail path without a writer: Ok(None)
  /\ AtPc(t, {"rn_after_writer_snapshot"}) /\ cl = 0
  /\ rd.ci >= Len(chain) /\ loc[t].snap[1] = 0
  /\ Finish(t, RRead(<<>>))
  /\ UNCHANGED <<chain, wr, nextId, disk, rd, wl, cl, flag>>
RnStaleRetry(t) ==                               \* the snapshotted block has been sealed meanwhile: `continue`
  /\ AtPc(t, {"rn_after_writer_snapshot"}) /\ cl = 0
  /\ rd.ci >= Len(chain) /\ loc[t].snap[1] # 0
  /\ ~DefRnStaleSnapshot /\ loc[t].snap[1] \in ChainIds
  /\ Goto(t, "x_rn_snap")
  /\ UNCHANGED <<chain, wr, nextId, disk, rd, wl, cl, flag, loc>>
RnTailPrep(t) ==                                 \* tail_off; provisional index entry -> rn_before_tail_read (lock kept)
  /\ AtPc(t, {"rn_after_writer_snapshot"}) /\ cl = 0
  /\ rd.ci >= Len(chain) /\ loc[t].snap[1] # 0
  /\ DefRnStaleSnapshot \/ loc[t].snap[1] \notin ChainIds
  /\ cl' = t
  /\ loc' = [loc EXCEPT ![t].toff = IF rd.tb = loc[t].snap[1] THEN rd.to ELSE 0]
  /\ Goto(t, "rn_before_tail_read")
  /\ UNCHANGED <<chain, wr, nextId, disk, rd, wl, flag>>
RnTailHit(t) ==                                  \* active_block.read(tail_off): commit, drop -> rn_after_tail_read
  /\ AtPc(t, {"rn_before_tail_read"})
  /\ loc[t].toff < loc[t].snap[2] /\ At(loc[t].snap[1], loc[t].toff) # 0
  /\ rd' = [rd EXCEPT !.tb = loc[t].snap[1], !.to = loc[t].toff + 1]
  /\ loc' = [loc EXCEPT ![t].got = At(loc[t].snap[1], loc[t].toff)]
  /\ cl' = 0
  /\ Goto(t, "rn_after_tail_read")
  /\ UNCHANGED <<chain, wr, nextId, disk, wl, flag>>
RnTailMiss(t) ==                                 \* caught up (or unreadable): Ok(None)
  /\ AtPc(t, {"rn_before_tail_read"})
  /\ ~(loc[t].toff < loc[t].snap[2] /\ At(loc[t].snap[1], loc[t].toff) # 0)
  /\ cl' = 0
  /\ Finish(t, RRead(<<>>))
  /\ UNCHANGED <<chain, wr, nextId, disk, rd, wl, flag>>
RnReturn(t) ==                                   \* persist the index, decrement the count, Ok(Some(entry))
  /\ AtPc(t, {"rn_after_tail_read", "rn_sealed_before_persist"})
  /\ Finish(t, RRead(<<loc[t].got>>))
  /\ UNCHANGED <<chain, wr, nextId, disk, rd, wl, cl, flag>>

-----------------------------------------------------------------------------------------
(* ---------------- batch_read_for_topic(topic, usize::MAX, checkpoint = true, None) ---------------- *)
BrStart(t) ==                                    \* pre-snapshot of the writer -> br_after_writer_snapshot
  /\ AtPc(t, {"op_start"}) /\ Op(t).op = "bread" /\ wl = 0
  /\ loc' = [loc EXCEPT ![t].snap = <<wr.id, wr.cur>>]
  /\ Goto(t, "br_after_writer_snapshot")
  /\ UNCHANGED <<chain, wr, nextId, disk, rd, wl, cl, flag>>

(* step 2, sealed part: one range [off, used) per block that has something readable at the cursor *)
RECURSIVE PlanSealed(_, _, _)
PlanSealed(idx, off, plan) ==
  IF idx >= Len(chain) THEN plan
  ELSE LET b == chain[idx + 1] IN
       IF off >= b.used \/ At(b.id, off) = 0 THEN PlanSealed(idx + 1, 0, plan)
       ELSE PlanSealed(idx + 1, 0, Append(plan, [k |-> idx, id |-> b.id, s |-> off, e |-> b.used, tail |-> FALSE]))
(* the tail is planned from the pre-snapshot unless that block has been sealed since *)
SnapCurrent(s) ==
  /\ s[1] # 0
  /\ \/ DefBrStaleSnapshot
     \/ IF MutBrNewestOnly THEN chain = <<>> \/ chain[Len(chain)].id # s[1] ELSE s[1] \notin ChainIds
BrPlanOf(t) ==
  LET s  == loc[t].snap
      sp == PlanSealed(rd.ci, rd.co, <<>>)
      ts == IF rd.tb = s[1] THEN rd.to ELSE 0
  IN IF SnapCurrent(s) /\ ts < s[2]
     THEN Append(sp, [k |-> 0, id |-> s[1], s |-> ts, e |-> s[2], tail |-> TRUE]) ELSE sp
BrPlanEmpty(t) ==                                \* nothing to read: Ok(vec![])
  /\ AtPc(t, {"br_after_writer_snapshot"}) /\ cl = 0
  /\ BrPlanOf(t) = <<>>
  /\ Finish(t, RRead(<<>>))
  /\ UNCHANGED <<chain, wr, nextId, disk, rd, wl, cl, flag>>
BrPlanSome(t) ==                                 \* -> br_before_io, column lock kept (StrictlyAtOnce)
  /\ AtPc(t, {"br_after_writer_snapshot"}) /\ cl = 0
  /\ BrPlanOf(t) # <<>>
  /\ cl' = t
  /\ loc' = [loc EXCEPT ![t].plan = BrPlanOf(t), ![t].cl = Len(chain)]
  /\ Goto(t, "br_before_io")
  /\ UNCHANGED <<chain, wr, nextId, disk, rd, wl, flag>>
(* steps 3 and 4: read the ranges, parse; a zeroed header ends a range (dead space), the next range follows *)
RECURSIVE ParseRange(_, _, _)
ParseRange(rg, o, ps) ==
  IF o >= rg.e \/ At(rg.id, o) = 0 THEN ps
  ELSE ParseRange(rg, o + 1,
                  IF rg.tail THEN [ps EXCEPT !.out = Append(@, At(rg.id, o)), !.saw = TRUE, !.ftb = rg.id, !.fto = o + 1]
                  ELSE [ps EXCEPT !.out = Append(@, At(rg.id, o)), !.fi = rg.k, !.fo = o + 1])
RECURSIVE ParsePlan(_, _)
ParsePlan(plan, ps) == IF plan = <<>> THEN ps ELSE ParsePlan(Tail(plan), ParseRange(Head(plan), Head(plan).s, ps))
BrIo(t) ==
  /\ AtPc(t, {"br_before_io"})
  /\ LET ps == ParsePlan(loc[t].plan, [out |-> <<>>, fi |-> 0, fo |-> 0, ftb |-> 0, fto |-> 0, saw |-> FALSE]) IN
     loc' = [loc EXCEPT ![t].out = ps.out, ![t].fi = ps.fi, ![t].fo = ps.fo, ![t].ftb = ps.ftb,
                        ![t].fto = ps.fto, ![t].saw = ps.saw]
  /\ Goto(t, "br_before_commit")
  /\ UNCHANGED <<chain, wr, nextId, disk, rd, wl, cl, flag>>
BrCommit(t) ==                                   \* step 5: commit under the lock, drop it, persist, Ok(entries)
  /\ AtPc(t, {"br_before_commit"})
  /\ rd' = IF loc[t].out = <<>> THEN rd
           ELSE IF loc[t].saw THEN [ci |-> loc[t].cl, co |-> 0, tb |-> loc[t].ftb, to |-> loc[t].fto]
           ELSE [rd EXCEPT !.ci = loc[t].fi, !.co = loc[t].fo]
  /\ cl' = 0
  /\ Finish(t, RRead(loc[t].out))
  /\ UNCHANGED <<chain, wr, nextId, disk, wl, flag>>

-----------------------------------------------------------------------------------------
AllDone == \A t \in Threads : pc[t] = "done"
Terminated == AllDone /\ UNCHANGED vars
Next ==
  \/ \E t \in 1 .. MaxThreads :
       \/ AppStartOk(t) \/ AppStartBusy(t) \/ WStartFits(t) \/ WStartRotate(t) \/ WSeal(t) \/ WAfterSeal(t) \/ WAfterWrite(t)
       \/ BwStartOk(t) \/ BwStartBusy(t) \/ BwAfterFlag(t) \/ BwSealPublishEarly(t) \/ BwAfterSeal(t) \/ BwIo(t)
       \/ BwPublishOne(t) \/ BwFinal(t)
       \/ RnStart(t) \/ RnSnap(t) \/ RnSealedRead(t) \/ RnSealedAdvance(t) \/ RnNoWriter(t) \/ RnStaleRetry(t)
       \/ RnTailPrep(t) \/ RnTailHit(t) \/ RnTailMiss(t) \/ RnReturn(t)
       \/ BrStart(t) \/ BrPlanEmpty(t) \/ BrPlanSome(t) \/ BrIo(t) \/ BrCommit(t)
  \/ Terminated
Spec == Init /\ [][Next]_vars

-----------------------------------------------------------------------------------------
(* ---------------- properties ---------------- *)
RECURSIVE Flat(_)
Flat(rs) == IF rs = <<>> THEN <<>> ELSE Head(rs).es \o Flat(Tail(rs))
(* an entry taken and committed under the column lock whose call has not returned yet *)
InFlight(t) == IF pc[t] \in {"rn_after_tail_read", "rn_sealed_before_persist"} THEN <<loc[t].got>> ELSE <<>>
Deliv(t) == Flat(res[t]) \o InFlight(t)          \* what thread t has received, in order
RECURSIVE DelivFrom(_)
DelivFrom(t) == IF t > N THEN <<>> ELSE Deliv(t) \o DelivFrom(t + 1)
AllDeliv == DelivFrom(1)
DelivSet == {AllDeliv[i] : i \in 1 .. Len(AllDeliv)}
(* entries of the appends and batches that returned Ok *)
Acked == {e \in AllEnts : \E t \in Threads : \E k \in 1 .. Len(res[t]) :
             res[t][k].st = "ok" /\ \E i \in 1 .. Len(OpEnts(Progs[t][k])) : OpEnts(Progs[t][k])[i] = e}

TypeOK ==
  /\ wl \in 0 .. N /\ cl \in 0 .. N /\ flag \in 0 .. N /\ running \in 0 .. N
  /\ \A t \in Threads : pc[t] \in Gates \cup Internal
  /\ rd.ci \in 0 .. Len(chain) /\ wr.cur \in 0 .. Cap
  /\ nextId <= MaxBlk + 1

(* which locks are held across which gate *)
LocksAtGates ==
  /\ \A t \in Threads : /\ (wl = t) = HeldAt(pc[t]).wl
                        /\ (cl = t) = HeldAt(pc[t]).cl
                        /\ (flag = t) = HeldAt(pc[t]).flag
  /\ wl \in Threads \cup {0} /\ cl \in Threads \cup {0} /\ flag \in Threads \cup {0}

(* exactly once, safety half: nothing is delivered twice, nothing that was not appended *)
NoDuplicate == \A i, j \in 1 .. Len(AllDeliv) : i # j => AllDeliv[i] # AllDeliv[j]
NoPhantom   == DelivSet \subseteq AllEnts
(* exactly once, completeness half: at quiescence, after the drain, every acknowledged entry was delivered *)
NoneLost    == AllDone => Acked \subseteq DelivSet
OnlyAcked   == AllDone => DelivSet \subseteq Acked
(* one consumer sees one producer's entries in the order they were appended, the preload first, *)
(* and nothing foreign between two entries of one batch                                          *)
SameBatch(a, b) == BatchOf(a) = BatchOf(b) /\ BatchOf(a) # <<0, 0>>
ReaderOrder == \A t \in Threads : LET s == Deliv(t) IN \A i, j \in 1 .. Len(s) :
                 \/ i >= j
                 \/ /\ (ProdOf(s[i]) # ProdOf(s[j]) \/ s[i] < s[j])
                    /\ ~(ProdOf(s[j]) = PreT /\ ProdOf(s[i]) # PreT)
                    /\ (~SameBatch(s[i], s[j]) \/ \A m \in i .. j : SameBatch(s[m], s[i]))

(* The cursor is exact: the positions the reader state treats as consumed hold exactly the      *)
(* delivered entries (behind = an entry delivered and still in front of the cursor: it will be   *)
(* delivered again; ahead = an undelivered entry behind the cursor: it is lost).                 *)
ChainIdx(b) == IF b \in ChainIds THEN CHOOSE k \in 1 .. Len(chain) : chain[k].id = b ELSE 0
ConsumedUpTo(b) ==
  LET k == ChainIdx(b) IN
  IF k > 0 THEN (IF k - 1 < rd.ci THEN chain[k].used ELSE IF k - 1 = rd.ci THEN Min(rd.co, chain[k].used) ELSE 0)
  ELSE IF rd.tb = b THEN Min(rd.to, Cap) ELSE 0
Consumed == UNION {{disk[b][o] : o \in 1 .. ConsumedUpTo(b)} : b \in 1 .. MaxBlk} \ {0}
CursorNotBehind == DelivSet \subseteq Consumed
CursorNotAhead  == Consumed \subseteq DelivSet

(* the layout: a batch is contiguous in the log *)
RECURSIVE BlockEnts(_, _, _)
BlockEnts(b, o, n) == IF o >= n THEN <<>> ELSE (IF At(b, o) = 0 THEN <<>> ELSE <<At(b, o)>>) \o BlockEnts(b, o + 1, n)
RECURSIVE ChainEnts(_)
ChainEnts(k) == IF k > Len(chain) THEN <<>> ELSE BlockEnts(chain[k].id, 0, chain[k].used) \o ChainEnts(k + 1)
LogLayout == ChainEnts(1) \o (IF wr.id = 0 \/ wr.id \in ChainIds THEN <<>> ELSE BlockEnts(wr.id, 0, wr.cur))
BatchContiguous == AllDone => LET s == LogLayout IN \A i, j \in 1 .. Len(s) :
                     (i >= j) \/ ~SameBatch(s[i], s[j]) \/ \A m \in i .. j : SameBatch(s[m], s[i])
=========================================================================================
