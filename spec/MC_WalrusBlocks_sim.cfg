SPECIFICATION DSpec
CONSTANTS
  Topics <- MCTopics2
  InstOf <- MCInstOf
  Prefix = 256
  BlockSize = 2048
  UnitsPerFile = 4
  MaxAlloc = 8192
  CapEntries = 6
  MaxBatchBytes = 16384
  Sizes = {0, 100, 300, 1500, 1792, 3000}
  BatchShapes <- ShapesT
  FailShapes <- FailT
  Budgets <- BudgetsT
  Cks = {TRUE, FALSE}
  ModeSet <- ModesAll
  MaxOps = 16
  MaxReopens = 3
  ParserContinuesAfterShortRange = FALSE
  Budget0PlansNothing = FALSE
  TailInitPersistsZero = FALSE
  CkptCountedOnEveryReport = FALSE
  NewProcReopen = FALSE
CONSTRAINT GuardAloReclaimNotDurable
INVARIANTS RefinesCex InvCount InvCursor InvCursorExact InvStored InvDurable TypeOKD PrintHist
VIEW View
CHECK_DEADLOCK FALSE
