SPECIFICATION TSpec
CONSTANTS
  Topics <- TopicsDef
  InstOf <- InstOfDef
  BatchAtomic = FALSE
INVARIANTS Report TypeOK InvReclaimedConsumed
CHECK_DEADLOCK FALSE
