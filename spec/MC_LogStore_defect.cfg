SPECIFICATION MCSpec
CONSTANTS
  PersistCursor = TRUE
  MaxOps = 4
  MaxReopens = 2
  MaxIndex = 3
  MaxTerm = 2
  MaxBatch = 2
INVARIANTS TypeOK ObsEqualCex
VIEW View
CHECK_DEADLOCK FALSE
