SPECIFICATION DSpec
CONSTANTS
  Topics <- MCTopics2
  InstOf <- MCInstOf
  Prefix = 256
  BlockSize = 2048
  UnitsPerFile = 4
  MaxAlloc = 8192
  CapEntries = 6
  MaxBatchBytes = 16384
  Sizes = {100, 1792, 3000}
  BatchShapes <- ShapesTwo
  FailShapes <- ShapesTwo
  Budgets <- BudgetsTwo
  Cks = {TRUE}
  ModeSet <- ModesQ
  MaxOps = 5
  MaxReopens = 1
  ParserContinuesAfterShortRange = FALSE
  Budget0PlansNothing = FALSE
  TailInitPersistsZero = FALSE
  CkptCountedOnEveryReport = FALSE
  NewProcReopen = FALSE
CONSTRAINT GuardAloReclaimNotDurable
INVARIANTS RefinesCex InvCount InvCursor InvCursorExact InvStored InvDurable TypeOKD PrintHistDeep
VIEW View
CHECK_DEADLOCK FALSE
