--------------------------------- MODULE WalKey ---------------------------------
(***************************************************************************************)
(* C25: the storage-key codec of distributed-walrus/src/controller/types.rs.            *)
(*                                                                                     *)
(*   pub fn wal_key(topic, segment) -> String { format!("t_{}_s_{}", topic, segment) }   *)
(*   pub fn parse_wal_key(key) -> Option<(String, u64)> {                               *)
(*       let suffix = key.rsplitn(2, "_s_").collect::<Vec<_>>();   // split at LAST "_s_"  *)
(*       if suffix.len() != 2 { return None; }                                          *)
(*       let topic_part = suffix[1].strip_prefix("t_")?;                                *)
(*       let segment = suffix[0].parse::<u64>().ok()?;                                  *)
(*       Some((topic_part.to_string(), segment)) }                                      *)
(*                                                                                     *)
(* Strings are sequences of one-character strings over the constant alphabet `Alpha`.   *)
(* Segment numbers are naturals; `Digits(n)` is their canonical decimal rendering (what  *)
(* `format!("{}", u64)` prints) and `Value(ds)` what `str::parse::<u64>` reads back (no  *)
(* sign, no overflow in the bounded model). Contract and design coincide here (A = B).   *)
(***************************************************************************************)
EXTENDS Naturals, Sequences, FiniteSets

DigitChar == <<"0", "1", "2", "3", "4", "5", "6", "7", "8", "9">>   \* DigitChar[d + 1]
IsDigit(c) == \E d \in 1 .. 10 : DigitChar[d] = c
DigitVal(c) == (CHOOSE d \in 1 .. 10 : DigitChar[d] = c) - 1

RECURSIVE Digits(_)
Digits(n) == IF n < 10 THEN <<DigitChar[n + 1]>> ELSE Digits(n \div 10) \o <<DigitChar[(n % 10) + 1]>>

RECURSIVE Value(_)
Value(ds) == IF Len(ds) = 0 THEN 0 ELSE Value(SubSeq(ds, 1, Len(ds) - 1)) * 10 + DigitVal(ds[Len(ds)])

Sep == <<"_", "s", "_">>
Pre == <<"t", "_">>

(* wal_key *)
Key(topic, seg) == Pre \o topic \o Sep \o Digits(seg)

(* positions p at which `pat` occurs in `s` (1-based start) *)
Occurs(s, pat) == {p \in 1 .. (Len(s) - Len(pat) + 1) : SubSeq(s, p, p + Len(pat) - 1) = pat}
Max(S) == CHOOSE x \in S : \A y \in S : y <= x

None == <<"none">>

(* parse_wal_key: result None or <<topic, seg>> *)
Parse(key) ==
  LET occ == Occurs(key, Sep) IN
  IF occ = {} THEN None
  ELSE LET p      == Max(occ)                          \* rsplitn(2, ..): the LAST occurrence
           before == SubSeq(key, 1, p - 1)              \* suffix[1]
           after  == SubSeq(key, p + 3, Len(key))       \* suffix[0]
       IN IF Len(before) < 2 \/ SubSeq(before, 1, 2) # Pre THEN None        \* strip_prefix("t_")?
          ELSE IF Len(after) = 0 \/ \E i \in 1 .. Len(after) : ~IsDigit(after[i]) THEN None   \* parse::<u64>().ok()?
          ELSE <<SubSeq(before, 3, Len(before)), Value(after)>>

(* The property, pointwise *)
RoundTrip(topic, seg) == Parse(Key(topic, seg)) = <<topic, seg>>
=================================================================================
