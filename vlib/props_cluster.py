"""C22 / C23: the distributed data plane (distributed-walrus) on the deterministic cluster simulation.

Pipeline (one cached run per (tier, seed, source hash), shared by C22 and C23):
  1. TLC on the DataPlane design: as-the-code-is configs (expected outcome: counterexample, whose
     schedule is replayed on the real code) and all-deviations-off configs (invariants must hold).
  2. cluster-sim executes client programs on REAL NodeControllers (shim runtime, assumed Raft, real
     engine) under TLC schedules, seeded random and PCT schedules.
  3. every recorded history is validated by TLC against the CONTRACT (Trace_DataPlane): C22 on the
     call/ret events (linearizability to a FIFO queue), C23 on the commit/apply/write events.
Only the contract raises VIOLATION; known findings are matched by divergence attributes."""
import glob
import json
import os
import random
import re
import shutil
import time

from . import common as C

HARNESS = os.path.join(C.VERIF, "harness", "cluster")
TARGET = os.path.join(C.BUILD, "target-cluster")
DW_SRC = os.environ.get("VERIF_DW_SRC", os.path.join(C.REPO, "distributed-walrus", "src"))
TMPENV = {"JAVA_TOOL_OPTIONS": "-Djava.io.tmpdir=" + os.path.join(C.BUILD, "tmp-cluster")}
C.ensure_dir(os.path.join(C.BUILD, "tmp-cluster"))
PER_PROCESS = 6      # clusters per cluster-sim process (the engine has process-global state)
TLC_EVENTS = 6000
SPEC_FILES = ["DataPlane.tla", "MC_DataPlane.tla", "Trace_DataPlane.tla", "Trace_DataPlane.cfg"]

ASSUMPTIONS = [
    "Raft is ASSUMED (C19 out of scope): one committed command sequence; propose returns after the Raft "
    "leader applied; every node applies in order through its real Metadata::apply, at its own pace",
    "interleavings are explored at the granularity of the shim runtime: every .await on tokio::sync / "
    "tokio::time / spawn_blocking / octopii propose+rpc is a scheduling point; code between two awaits is atomic; "
    "engine calls are atomic (no concurrent engine readers/writers on one node)",
    "timers (100 ms lease sync, monitor tick) fire when the scheduler says so, in deadline order; RPC and "
    "propose timeouts, message loss and node restarts are not explored",
    "wiring of a node is a transcription of main.rs::start_node; client operations call the NodeController "
    "methods that client.rs::handle_command calls (the TCP framing is C24's business)",
    "bincode, tokio and octopii are local shims; NodeController, Storage (bucket), Metadata, Monitor and the "
    "walrus-rust engine are the repository's code compiled unmodified from the working tree",
]


# ------------------------------------------------------------------------------------------------
# build and source hashing

def src_files():
    files = C.tree_files(DW_SRC) + C.tree_files(os.path.join(C.REPO, "src")) + [os.path.join(C.REPO, "Cargo.toml")]
    files += [f for f in C.tree_files(HARNESS) if not f.endswith("Cargo.lock")]   # cargo may rewrite the lock file
    files += [os.path.join(C.SPEC, f) for f in SPEC_FILES] + glob.glob(os.path.join(C.SPEC, "MC_DataPlane_*.cfg"))
    files.append(os.path.abspath(__file__))
    return files


def src_hash():
    return C.hash_files(src_files())


def _sweep_tmp():
    """TLC unpacks its standard modules into java.io.tmpdir (redirected below /verif/build); drop old ones."""
    d = C.ensure_dir(TMPENV["JAVA_TOOL_OPTIONS"].split("=", 1)[1])
    now = time.time()
    for n in os.listdir(d):
        p = os.path.join(d, n)
        try:
            if now - os.path.getmtime(p) > 3600:
                shutil.rmtree(p, ignore_errors=True)
        except OSError:
            pass


def build():
    _sweep_tmp()
    lock_src = os.path.join(C.REPO, "Cargo.lock")
    with C.FileLock(os.path.join(C.BUILD, "cargo-cluster.lock")):
        lock_dst = os.path.join(HARNESS, "Cargo.lock")
        if not os.path.exists(lock_dst) and os.path.exists(lock_src):
            shutil.copy(lock_src, lock_dst)
        t0 = time.time()
        rc, out = C.sh(["cargo", "build", "--offline", "--quiet"], cwd=HARNESS,
                       env={"RUSTFLAGS": "--cfg walrus_verif", "CARGO_TARGET_DIR": TARGET, "CARGO_NET_OFFLINE": "true",
                            "DW_SRC": DW_SRC}, timeout=1800)
        if rc != 0:
            raise C.ToolError("cluster-sim build failed:\n" + out[-6000:])
        C.log("[build] cluster-sim ok (%.0fs, DW_SRC=%s)" % (time.time() - t0, DW_SRC))
    return os.path.join(TARGET, "debug", "cluster-sim")


# ------------------------------------------------------------------------------------------------
# labels: design-spec pc names -> scheduling-point labels of the shim runtime ("file:line#kind").
# Lines are found by snippet so that an unrelated edit of the repository does not break replay.

SNIPPETS = {
    "L63": ("bucket.rs", "let leases = self.active_leases.read().await;", "update_leases"),
    "L69": ("bucket.rs", "let mut leases = self.active_leases.write().await;", "update_leases"),
    "L112": ("bucket.rs", "let leases = self.active_leases.read().await;", "ensure_lease"),
    "L102": ("bucket.rs", "lock.lock_owned().await", None),
    "L48": ("bucket.rs", "spawn_blocking(move || engine.batch_append_for_topic", None),
    "L56": ("bucket.rs", "spawn_blocking(move || engine.read_next", None),
    "L298": ("controller/mod.rs", "let mut guard = self.offsets.write().await;", "record_append"),
    "L293": ("controller/mod.rs", "let guard = self.offsets.read().await;", "tracked_entry_count"),
    "L272": ("controller/mod.rs", "self.read_cursors.lock().await", None),
}


def labels():
    out = {}
    for name, (rel, snip, fn) in SNIPPETS.items():
        path = os.path.join(DW_SRC, rel)
        try:
            lines = open(path).read().split("\n")
        except OSError:
            raise C.ToolError("cannot read %s" % path)
        cur_fn, hit = None, None
        for i, ln in enumerate(lines, 1):
            m = re.search(r"\bfn\s+(\w+)", ln)
            if m:
                cur_fn = m.group(1)
            if snip in ln and (fn is None or cur_fn == fn):
                hit = i
                break
        if hit is None:
            raise C.ToolError("scheduling-point snippet for %s not found in %s (the code changed: update SNIPPETS)" % (name, rel))
        out[name] = "%s:%d#" % (rel, hit)
    out.update({"rpcreq": "=rpc.request", "propose": "=propose", "propwait": "propose.wait_applied",
                "done": "=client.next", "tick": "interval.tick", "apply": "=apply"})
    return out


# ------------------------------------------------------------------------------------------------
# running jobs on the real code

def run_jobs(jobs, tag="cl", workers=10):
    """Returns {job id: [events]} (first event `reset`, last `end`)."""
    binp = build()
    root = C.ensure_dir(os.path.join(C.BUILD, "run-cluster-%d" % os.getpid(), tag))
    chunks = [jobs[i:i + PER_PROCESS] for i in range(0, len(jobs), PER_PROCESS)]

    def work(ix):
        chunk = chunks[ix]
        d = C.ensure_dir(os.path.join(root, "p%d" % ix))
        inp, out = os.path.join(d, "in.ndjson"), os.path.join(d, "out.ndjson")
        with open(inp, "w") as f:
            for j in chunk:
                f.write(json.dumps(j) + "\n")
        start, guard = 0, 0
        while start < len(chunk) and guard < len(chunk) + 2:
            guard += 1
            try:
                rc, o = C.sh([binp, "run", "--in", inp, "--out", out, "--dir", os.path.join(d, "data"), "--start", str(start)],
                             timeout=900, env={"WALRUS_QUIET": "1"})
            except Exception as e:  # timeout of the whole process
                rc, o = 88, str(e)
            if rc == 0:
                break
            last = -1
            if os.path.exists(out):
                with open(out) as f:
                    for line in f:
                        if '"what":"begin"' in line:
                            try:
                                last = json.loads(line)["n"]
                            except Exception:
                                pass
            if rc != 3:  # 3 = panic, already reported by the driver itself
                with open(out, "a") as f:
                    gid = chunk[max(last, start)]["id"]
                    f.write(json.dumps({"ev": "reset", "g": gid, "nodes": 0, "thr": 0}) + "\n")
                    f.write(json.dumps({"ev": "end", "g": gid, "status": "hang" if rc == 88 else "died", "rc": rc, "steps": 0,
                                        "taken": "", "msg": o[-300:]}) + "\n")
            start = max(last, start) + 1
        evs, cur = {}, None
        if os.path.exists(out):
            with open(out) as f:
                for line in f:
                    try:
                        e = json.loads(line)
                    except Exception:
                        continue
                    if e.get("ev") == "begin":
                        continue
                    if e.get("ev") == "reset":
                        cur = e["g"]
                        evs[cur] = [e]
                    elif cur is not None:
                        evs[cur].append(e)
        shutil.rmtree(d, ignore_errors=True)
        return evs

    res = {}
    for evs in C.parallel_map(work, list(range(len(chunks))), workers=workers):
        res.update(evs)
    shutil.rmtree(root, ignore_errors=True)
    try:
        os.rmdir(os.path.dirname(root))
    except OSError:
        pass
    return res


# ------------------------------------------------------------------------------------------------
# trace preparation and validation

C22_EVS = ("reset", "call", "ret")
C23_EVS = ("reset", "commit", "apply", "write")
KEEP = {"reset": ("ev", "g"), "call": ("ev", "c", "seq", "op", "t", "p", "will"), "ret": ("ev", "c", "seq", "op", "res", "p"),
        "commit": ("ev", "idx", "cmd"), "apply": ("ev", "node", "idx"), "write": ("ev", "node", "t", "seg")}


def annotate(events):
    """Adds `will` (the response this call is going to get) to every call event."""
    rets = {}
    for e in events:
        if e.get("ev") == "ret":
            rets[(e["c"], e["seq"])] = e
    out = []
    for e in events:
        if e.get("ev") == "call":
            r = rets.get((e["c"], e["seq"]))
            e = dict(e)
            e["will"] = {"res": r["res"], "p": r.get("p", 0)} if r else {"res": "none", "p": 0}
        out.append(e)
    return out


def project(events, which):
    kinds = C22_EVS if which == "C22" else C23_EVS
    out = []
    for e in annotate(events):
        if e.get("ev") in kinds:
            out.append({k: e[k] for k in KEEP[e["ev"]] if k in e})
    return out


def validate(groups, which, tag="val", workers=6, report="Report"):
    """groups: {gid: [full events]}. TLC decides each group against the contract. Returns
    ({gid: verdict}, totals); verdict = {ok, matched, index (into the projected list), event}."""
    root = C.ensure_dir(os.path.join(C.BUILD, "runs", "%s-%s-%d" % (tag, which, os.getpid())))
    proj = {g: project(evs, which) for g, evs in groups.items()}
    parts, cur, cnt = [], [], 0
    for g in proj:
        n = len(proj[g])
        if cur and cnt + n > TLC_EVENTS:
            parts.append(cur)
            cur, cnt = [], 0
        cur.append(g)
        cnt += n
    if cur:
        parts.append(cur)
    cfg = os.path.join(root, "trace.cfg")
    with open(cfg, "w") as f:
        f.write("SPECIFICATION TSpec\nINVARIANT %s\nCHECK_DEADLOCK FALSE\n" % report)

    def run(pi):
        part = parts[pi]
        d = C.ensure_dir(os.path.join(root, "p%d" % pi))
        tr = os.path.join(d, "trace.ndjson")
        bounds, line = [], 0
        with open(tr, "w") as f:
            for g in part:
                first = line + 1
                for e in proj[g]:
                    f.write(json.dumps(e) + "\n")
                    line += 1
                bounds.append((g, first, line))
        rc, out, wall = C.tlc(os.path.join(C.SPEC, "Trace_DataPlane.tla"), cfg, d, env=dict(TMPENV, TRACE=tr), workers=1,
                              timeout=1800, deque=True)
        if "Error:" in out or rc != 0:
            raise C.ToolError("TLC trace validation (Trace_DataPlane, %s) failed to run:\n%s" % (which, out[-3000:]))
        reached = set(int(x) for x in re.findall(r'<<"AT", (\d+)>>', out))
        gen, dist = C.tlc_stats(out)
        verd = {}
        for g, first, last in bounds:
            if (last + 1) in reached:
                verd[g] = {"ok": True, "matched": last - first + 1}
            else:
                k = max([x for x in reached if first <= x <= last + 1] or [first])
                verd[g] = {"ok": False, "matched": k - first, "index": k - first, "event": proj[g][k - first]}
        states = re.findall(r'<<"ST", (\d+), "(.*)">>', out) if report == "ReportState" else []
        shutil.rmtree(d, ignore_errors=True)
        return verd, gen, dist, states

    verdicts, tg, td, sts = {}, 0, 0, []
    for verd, gen, dist, states in C.parallel_map(run, list(range(len(parts))), workers=workers):
        verdicts.update(verd)
        tg += gen
        td += dist
        sts += states
    shutil.rmtree(root, ignore_errors=True)
    return verdicts, {"states_generated": tg, "states_distinct": td, "st": sts}


# ------------------------------------------------------------------------------------------------
# generators (seeded). mode "open": everything the property quantifies over. mode "avoid": the
# avoidance guards of the known findings (see GUARDS) so that exploration continues past them.

GUARDS = {
    "no_rollover": "threshold larger than the number of PUTs on the topic: arbitrary concurrency, no sealing",
    "barriered_producer": "one sequential producer per topic; after every PUT a barrier (every node applied every "
                          "committed command, leases refreshed on every node via TestControl::SyncLeases) before the "
                          "next operation; the monitor loop (the second, racing initiator of rollovers) is not started",
}


def _sched(rng, n_ops):
    kind = rng.choice(["random", "random", "pct"])
    if kind == "random":
        prof = rng.choice([
            {"c": 10, "a": 5, "s": 3, "m": 1, "o": 5},      # balanced
            {"c": 10, "a": 0.7, "s": 2, "m": 1, "o": 5},    # lazy apply
            {"c": 10, "a": 6, "s": 0.3, "m": 0.3, "o": 5},  # lazy lease sync
            {"c": 6, "a": 6, "s": 6, "m": 3, "o": 5},       # busy background
            {"c": 10, "a": 1.5, "s": 6, "m": 1, "o": 5},    # eager sync, slow apply
        ])
        return {"kind": "random", "seed": rng.randrange(1 << 30), "w": prof, "p_timer": rng.choice([0.02, 0.06, 0.15, 0.3])}
    return {"kind": "pct", "seed": rng.randrange(1 << 30), "depth": rng.choice([2, 3, 4, 6]), "k": 25 * n_ops + 40,
            "p_timer": rng.choice([0.02, 0.08, 0.2])}


def gen_job(rng, jid, mode):
    nodes = rng.choice([1, 2, 2, 2, 3, 3])
    thr = rng.choice([1, 1, 2, 2, 3, 4])
    topic = "a"
    setup = []
    boot = False
    r = rng.random()
    if r < 0.6:
        setup.append({"op": "create", "t": topic, "ldr": rng.randrange(1, nodes + 1), "via": 1})
    elif r < 0.9:
        setup.append({"op": "register", "t": topic, "via": rng.randrange(1, nodes + 1)})
    else:
        boot, topic = True, "logs"
    pid = [0]

    def put(via=None):
        pid[0] += 1
        return {"op": "put", "t": topic, "p": pid[0], "via": via or rng.randrange(1, nodes + 1)}

    def get(via=None):
        return {"op": "get", "t": topic, "via": via or rng.randrange(1, nodes + 1)}

    clients = []
    guard = None
    if mode == "open":
        n_prod = rng.choice([1, 2, 2, 3])
        for _ in range(n_prod):
            ops = [put() for _ in range(rng.choice([1, 2, 2, 3]))]
            if rng.random() < 0.3:
                ops.insert(rng.randrange(len(ops) + 1), get())
            clients.append({"ops": ops})
        for _ in range(rng.choice([0, 1, 1, 2])):
            clients.append({"ops": [get() for _ in range(rng.choice([1, 2, 3, 4]))]})
        monitor_ms = rng.choice([50, 150, 400])
    else:
        guard = rng.choice(["no_rollover", "barriered_producer", "barriered_producer"])
        if guard == "no_rollover":
            n_prod = rng.choice([1, 2, 3])
            total = 0
            for _ in range(n_prod):
                k = rng.choice([1, 2, 3])
                total += k
                clients.append({"ops": [put() for _ in range(k)]})
            thr = total + 1 + rng.randrange(3)
            for _ in range(rng.choice([1, 1, 2])):
                clients.append({"ops": [get() for _ in range(rng.choice([2, 3, 4]))]})
            monitor_ms = rng.choice([50, 150, 400])
        else:
            ops = []
            for _ in range(rng.choice([2, 3, 4, 5])):
                ops += [put(), {"op": "barrier"}]
                if rng.random() < 0.35:
                    ops += [get(), {"op": "barrier"}]
            clients.append({"ops": ops})
            monitor_ms = 150
    n_ops = sum(len(c["ops"]) for c in clients)
    job = {"id": jid, "nodes": nodes, "threshold": thr, "monitor_ms": monitor_ms, "setup": setup, "clients": clients,
           "sched": _sched(rng, n_ops), "max_steps": 250 * n_ops + 400, "drain": True, "drain_via": rng.randrange(1, nodes + 1),
           "mode": mode}
    if boot:
        job["bootstrap_logs"] = True
    if guard:
        job["guard"] = guard
        if guard == "barriered_producer":
            job["no_monitor"] = True
    return job


def gen_jobs(n, seed, mode, prefix):
    rng = random.Random("%s-%s-%d" % (prefix, mode, seed))
    return [gen_job(rng, "%s%d" % (prefix, i), mode) for i in range(n)]


def load_corpus(pid, kind="jobs"):
    """Committed regression jobs: /verif/corpus/cluster_*.ndjson, lines tagged with "props"."""
    out = []
    for p in sorted(glob.glob(os.path.join(C.VERIF, "corpus", "cluster_*.ndjson"))):
        with open(p) as f:
            for line in f:
                line = line.strip()
                if not line or line.startswith("#"):
                    continue
                j = json.loads(line)
                if pid in j.get("props", []):
                    out.append(_resolve_pcs(j))
    return out


def _resolve_pcs(job):
    """Corpus schedules name scheduling points by design-spec pc (L63, L48, ...), not by source line."""
    sc = job.get("sched", {})
    if sc.get("kind") != "replay_pc":
        return job
    lab = labels()
    steps = []
    for st in sc["steps"]:
        if isinstance(st, str):
            steps.append(st)
        else:
            actor, n, l = st
            if actor == "apply":
                steps.append("apply%d" % n)
            else:
                steps.append({"run": "%s%d" % (actor, n), "until": lab[l], "max": 60})
    job = dict(job)
    job["sched"] = {"kind": "replay", "steps": steps}
    return job


# ------------------------------------------------------------------------------------------------
# divergence classification (for reports and known-finding matchers; never an oracle)

def _history(events):
    h = {"puts": {}, "gets": [], "writes": [], "commits": [], "applies": [], "thr": events[0].get("thr"),
         "nodes": events[0].get("nodes"), "quiescent_step": None, "events": events}
    calls = {}
    for e in events:
        ev = e.get("ev")
        if ev == "call":
            calls[(e["c"], e["seq"])] = e
            if e["op"] == "put":
                h["puts"][e["p"]] = {"p": e["p"], "c": e["c"], "t": e["t"], "call": e["step"], "ret": None, "res": "none", "via": e.get("via")}
        elif ev == "ret":
            c = calls.get((e["c"], e["seq"]), {})
            if e["op"] == "put":
                h["puts"][e["p"]].update(ret=e["step"], res=e["res"], msg=e.get("msg"))
            elif e["op"] == "get":
                h["gets"].append({"c": e["c"], "seq": e["seq"], "t": e.get("t"), "call": c.get("step"), "ret": e["step"],
                                  "res": e["res"], "p": e.get("p", 0), "via": e.get("via")})
        elif ev == "write":
            h["writes"].append(e)
        elif ev == "commit":
            h["commits"].append(e)
        elif ev == "apply":
            h["applies"].append(e)
        elif ev == "note" and e.get("what") == "quiescent":
            h["quiescent_step"] = e["step"]
    return h


def _segment_facts(h, topic):
    """sealed[s] = (count, commit step, commit index) from the order of roll commands on the topic."""
    cur, sealed = 0, {}
    for cm in h["commits"]:
        c = cm["cmd"]
        if c.get("t") != topic:
            continue
        if c["k"] == "create" and cur == 0:
            cur = 1
        elif c["k"] == "roll" and cur > 0:
            sealed[cur] = {"cnt": c["cnt"], "step": cm["step"], "idx": cm["idx"]}
            cur += 1
    return sealed


def _write_of(h, p):
    """The write event of payload p: the write performed by the client task of its PUT between call and ret."""
    pu = h["puts"].get(p)
    if not pu:
        return None
    hi = pu["ret"] if pu["ret"] is not None else 10 ** 9
    for w in h["writes"]:
        if w.get("task") == "c%d" % pu["c"] and pu["call"] <= w["step"] <= hi and w["t"] == pu["t"]:
            return w
    return None


# Lease analysis of a write into a segment whose sealing the writing node had already applied.
#
# Evidence (recorded by the simulator for EVERY job, harness/cluster/src/world.rs + logcap.rs; nothing is guessed):
#   * `log` events: statements of the code under test, stamped with scheduler step and task. The one that matters is
#     `update_leases node=N leases={..}` of NodeController::update_leases: it is emitted in the very step in which the
#     expected lease set was computed from N's applied metadata (there is no scheduling point between owned_topics()
#     and the first await inside Storage::update_leases), so it says WHO refreshed WHICH node's leases WHEN and with
#     WHAT. `write rejected for K` marks a failed lease check.
#   * `at` events: every step of a task that starts or ends at a scheduling point in bucket.rs (label left, label
#     parked at). The labels of Storage::update_leases' read/write acquisitions and of ensure_lease's read are located
#     in the CURRENT sources by snippet + enclosing fn (`labels()`: L63, L69, L112), so patches may shift lines.
#     From them: the step in which a refresh compared the lease set with its expected set (fast path: returns, set ==
#     expected) or assigned it (slow path, the step that leaves the write acquisition), and the step in which a lease
#     check was evaluated.
#   * `write` (step, task, node, seg), `apply` (step, node, idx), `call` (step, client) events as before.
#
# Causes (for a write at step w by task T on node n into segment s, n having applied the sealing of s at step a < w;
# "T's refresh" = the LAST lease refresh of node n that T itself ran since the call of the PUT it is executing):
#   lease_check_not_atomic_with_write     T's refresh computed its expected set at r < a: the recorded finding (expected
#                                         set computed before the apply, lease check / lock / write after it)
#   lease_regranted_by_stale_refresh      T's refresh ran after the apply (r > a) and revoked/found revoked the lease,
#                                         but the LAST assignment of n's lease set between T's refresh and T's lease
#                                         check was made by ANOTHER task's refresh whose expected set was computed
#                                         before the apply and contains s (the same non-atomicity, seen from a second
#                                         refresher; finding DW-C23-STALE-REFRESH-REGRANTS-LEASE)
#   lease_refresh_after_apply_kept_lease  T's refresh ran entirely after the apply and nobody re-granted the lease: the
#                                         refresh should have revoked it (NOT the recorded finding)
#   no_lease_refresh_before_write         T ran no lease refresh at all between the call and the write (NOT recorded)
#   undetermined                          evidence missing or inconsistent (matches no finding; must not occur on the
#                                         unchanged tree: every job carries the evidence)
LEASE_KNOWN = ("lease_check_not_atomic_with_write", "lease_regranted_by_stale_refresh")


def _lease_evidence(h):
    if "lease" in h:
        return h["lease"]
    lab = labels()
    L63, L69, L112 = lab["L63"], lab["L69"], lab["L112"]
    ats, logs = {}, []
    for e in h["events"]:
        ev = e.get("ev")
        if ev == "at":
            ats.setdefault(e["task"], []).append((e["step"], e["from"], e["to"]))
        elif ev == "log":
            logs.append(e)

    def blocked(l):
        return l.endswith("#blocked")

    refreshes = []
    for e in logs:
        m = re.match(r"update_leases node=(\d+) leases=\{(.*)\}$", e["msg"])
        if not m:
            continue
        rec = {"task": e["task"], "node": int(m.group(1)), "keys": sorted(re.findall(r'"([^"]*)"', m.group(2))),
               "r": e["step"], "path": None, "compare": None, "effect": None}
        seq = [x for x in ats.get(e["task"], []) if x[0] >= e["step"]]
        if seq and seq[0][0] == e["step"] and seq[0][2].startswith(L63) and not blocked(seq[0][2]):
            cur = "read"
            for step, frm, to in seq[1:]:
                if cur == "read":
                    if not frm.startswith(L63):
                        break
                    if to.startswith(L63) and blocked(to):
                        continue
                    rec["compare"] = step
                    if to.startswith(L69) and not blocked(to):
                        cur = "write"
                        continue
                    rec.update(path="fast", effect=step)      # set == expected in this step, nothing assigned
                    break
                else:
                    if not frm.startswith(L69):
                        break
                    if to.startswith(L69) and blocked(to):
                        continue
                    rec.update(path="assign", effect=step)    # set := expected in this step
                    break
        refreshes.append(rec)
    checks = []
    for task, seq in ats.items():
        for step, frm, to in seq:
            if frm.startswith(L112) and not (to.startswith(L112) and blocked(to)):
                rej = [l["msg"] for l in logs if l["step"] == step and l["task"] == task and l["msg"].startswith("write rejected for ")]
                checks.append({"task": task, "step": step, "passed": not rej})
    h["lease"] = {"refreshes": refreshes, "checks": checks, "n_logs": len(logs), "n_at": sum(len(v) for v in ats.values())}
    return h["lease"]


def _lease_cause(h, w, applied_at):
    """w: the full write event; applied_at: step at which w's node applied the sealing of w's segment (< w.step).
    Returns {"cause": .., + the evidence the decision rests on}."""
    le = _lease_evidence(h)
    T, n, key = str(w.get("task", "")), w["node"], "t_%s_s_%d" % (w["t"], w["seg"])
    out = {"writer_task": T}
    if not any(r["effect"] is not None for r in le["refreshes"]) or le["n_at"] == 0:
        return dict(out, cause="undetermined", why="the job recorded no lease refresh evidence (log/at events)")
    if not re.match(r"c\d+$", T) or applied_at is None or applied_at >= w["step"]:
        return dict(out, cause="undetermined", why="writer is not a client task or the apply step is unknown")
    calls = [e["step"] for e in h["events"] if e.get("ev") == "call" and e.get("op") == "put" and "c%d" % e["c"] == T and e["step"] <= w["step"]]
    if not calls:
        return dict(out, cause="undetermined", why="no PUT call of the writing task before the write")
    call = max(calls)
    own = [r for r in le["refreshes"] if r["task"] == T and r["node"] == n and call <= r["r"] <= w["step"]]
    out["put_call_step"], out["apply_step"], out["write_step"] = call, applied_at, w["step"]
    if not own:
        return dict(out, cause="no_lease_refresh_before_write")
    last = max(own, key=lambda r: r["r"])
    out["refresh"] = {k: last[k] for k in ("r", "keys", "path", "effect")}
    if last["effect"] is None or last["effect"] > w["step"]:
        return dict(out, cause="undetermined", why="the writer's last refresh did not complete before the write")
    if last["r"] < applied_at:
        return dict(out, cause="lease_check_not_atomic_with_write")
    # the writer's own refresh ran entirely after the apply
    if key in last["keys"]:
        return dict(out, cause="lease_refresh_after_apply_kept_lease", expected_contained_sealed_segment=True)
    chk = [c for c in le["checks"] if c["task"] == T and c["passed"] and last["effect"] <= c["step"] <= w["step"]]
    if not chk:
        return dict(out, cause="undetermined", why="no passed lease check of the writer between its refresh and the write")
    k = max(c["step"] for c in chk)
    out["lease_check_step"] = k
    # the lease set the check read was assigned last by: T's refresh, or a later assignment of another refresher
    later = [r for r in le["refreshes"] if r["node"] == n and r["task"] != T and r["path"] == "assign" and last["effect"] < r["effect"] < k]
    if later:
        x = max(later, key=lambda r: r["effect"])
        out["last_assignment_before_check"] = {kk: x[kk] for kk in ("task", "r", "keys", "effect")}
        if key in x["keys"] and x["r"] < applied_at:
            return dict(out, cause="lease_regranted_by_stale_refresh")
        if key in x["keys"]:
            return dict(out, cause="undetermined", why="a refresh computed after the apply expected the sealed segment")
    return dict(out, cause="lease_refresh_after_apply_kept_lease")


def _why_lost(h, p):
    """Attributes explaining why acknowledged payload p cannot be delivered."""
    pu = h["puts"][p]
    w = _write_of(h, p)
    if w is None:
        return {"cause": "no_write_observed"}
    sealed = _segment_facts(h, pu["t"])
    pos = sum(1 for x in h["writes"] if x["node"] == w["node"] and x["t"] == w["t"] and x["seg"] == w["seg"] and x["step"] <= w["step"])
    d = {"seg": w["seg"], "node": w["node"], "pos_in_segment": pos}
    s = sealed.get(w["seg"])
    if s is None:
        d["cause"] = "segment_never_sealed"
        return d
    d["sealed_count"] = s["cnt"]
    applied_at = next((a["step"] for a in h["applies"] if a["node"] == w["node"] and a["idx"] == s["idx"]), None)
    d["beyond_count"] = pos > s["cnt"]
    # number of entries the segment really had when its sealing was committed (a count larger than that was
    # captured on another segment: the command does not name the segment it seals)
    had = sum(1 for x in h["writes"] if x["node"] == w["node"] and x["t"] == w["t"] and x["seg"] == w["seg"] and x["step"] < s["step"])
    d["bogus_count"] = s["cnt"] > had
    if applied_at is not None and applied_at < w["step"]:
        d["cause"] = "append_after_sealing_applied"       # the writing node had applied the sealing (C23)
        d["lease_cause"] = _lease_cause(h, w, applied_at)["cause"]   # WHY the node still wrote (see _lease_cause)
    elif s["step"] < w["step"]:
        d["cause"] = "append_after_count_capture"         # sealing committed, owner still admits appends
    elif pos > s["cnt"]:
        d["cause"] = "append_after_count_capture"         # count read before this append was recorded
        d["count_read_before_append"] = True
    else:
        d["cause"] = "within_sealed_count"
    return d


ROOT_CAUSES = ("append_after_count_capture", "append_after_sealing_applied")


def _root_cause(h, offenders, victims):
    """The first payload (offenders first) whose write lies beyond the sealed count of its segment explains
    the divergence; otherwise the attributes of the first victim are reported."""
    first, known = None, None
    for p in list(offenders) + list(victims):
        if p not in h["puts"]:
            continue
        w = _why_lost(h, p)
        w["payload"] = p
        if first is None:
            first = w
        if w.get("cause") == "append_after_sealing_applied" and w.get("lease_cause") not in LEASE_KNOWN:
            return w      # a write the recorded lease finding does not explain is never hidden behind one that it does
        if known is None and w.get("cause") in ROOT_CAUSES:
            known = w
    return known or first or {"cause": "unknown"}


def classify_c22(events, verdict):
    """kind = how the contract is broken at the first unmatched response; cause = where the payload involved
    was written relative to the sealing of its segment (computed from write/commit/apply events only, i.e.
    independent of what the reader did)."""
    h = _history(events)
    d = {"property": "C22", "kind": "unmatched", "threshold": h["thr"], "nodes": h["nodes"]}
    ev = verdict.get("event") or {}
    d["ev"] = ev.get("ev")
    acked = {p for p, pu in h["puts"].items() if pu["res"] == "ok"}
    if ev.get("ev") != "ret" or ev.get("op") != "get":
        d["kind"] = "unmatched_" + str(ev.get("ev"))
        return d
    g = next((x for x in h["gets"] if x["c"] == ev["c"] and x["seq"] == ev["seq"]), None)
    topic = g["t"]
    delivered_before = [x["p"] for x in h["gets"] if x["ret"] < g["ret"] and x["res"] == "val" and x["t"] == topic]
    later = [x["p"] for x in h["gets"] if x["ret"] > g["ret"] and x["res"] == "val" and x["t"] == topic]
    d["during_drain"] = g["c"] == 99

    def owed_before(step):
        return sorted(q for q in acked if q not in delivered_before and h["puts"][q]["t"] == topic
                      and h["puts"][q]["ret"] is not None and h["puts"][q]["ret"] < step)

    if ev["res"] == "foreign":
        d["kind"] = "foreign_payload"
    elif ev["res"] == "val":
        p = ev["p"]
        if p in delivered_before:
            d["kind"] = "duplicate_delivery"
            d.update(_root_cause(h, [p], []))
        elif p not in h["puts"]:
            d["kind"] = "foreign_payload"
        else:
            owed = [q for q in owed_before(h["puts"][p]["call"]) if q != p]
            never = [q for q in owed if q not in later]
            if never:
                d["kind"] = "acked_put_never_delivered"
                d["lost"] = never
                d.update(_root_cause(h, [p], never))
            elif owed:
                d["kind"] = "delivered_out_of_order"
                d["overtaken"] = owed
                d.update(_root_cause(h, [p], owed))
            else:
                d["kind"] = "illegal_delivery"
    elif ev["res"] == "empty":
        owed = owed_before(g["call"])
        never = [q for q in owed if q not in later]
        if never:
            d["kind"] = "acked_put_never_delivered"
            d["lost"] = never
            d.update(_root_cause(h, [], never))
        else:
            d["kind"] = "empty_before_late_delivery"
            d["undelivered"] = owed
            rc = _root_cause(h, [], owed)
            if rc.get("cause") not in ROOT_CAUSES:
                via = g.get("via")
                committed = max([c["idx"] for c in h["commits"] if c["step"] <= g["ret"]] or [0])
                applied = max([a["idx"] for a in h["applies"] if a["node"] == via and a["step"] <= g["ret"]] or [0])
                if applied < committed:
                    rc = dict(rc, cause="reader_metadata_behind", reader_applied=applied, committed=committed)
            d.update(rc)
    return d


def classify_c23(events, verdict):
    h = _history(events)
    ev = verdict.get("event") or {}
    d = {"property": "C23", "kind": "unmatched_" + str(ev.get("ev")), "threshold": h["thr"], "nodes": h["nodes"], "ev": ev.get("ev")}
    if ev.get("ev") != "write":
        return d
    # the full write event (the projected one has no view/step)
    k = [e for e in events if e.get("ev") in C23_EVS][verdict["index"]]
    view = k.get("view", {})
    d["seg"], d["node"] = k["seg"], k["node"]
    d["kind"] = "write_after_sealing_applied" if view.get("cur", 0) > k["seg"] else "write_into_foreign_segment"
    sealed = _segment_facts(h, k["t"]).get(k["seg"])
    applied_at = None
    if sealed:
        applied_at = next((a["step"] for a in h["applies"] if a["node"] == k["node"] and a["idx"] == sealed["idx"]), None)
        d["steps_since_apply"] = k["step"] - applied_at if applied_at is not None else -1
    d["writer"] = "client" if str(k.get("task", "")).startswith("c") else str(k.get("task"))
    if d["kind"] == "write_after_sealing_applied":
        lc = _lease_cause(h, k, applied_at)
        d["cause"] = lc.pop("cause")
        d["lease_evidence"] = lc
    else:
        d["cause"] = "write_outside_owned_segment"
    return d


# ------------------------------------------------------------------------------------------------
# TLC on the design (DataPlane): expected-violation configs and must-hold configs

# name -> (expected outcome, invariant expected to break or None, tiers)
MC_CONFIGS = {
    "ascode_c22": ("violated", "InvC22", ("thorough",)),           # the design as the code is (1.1e6 states)
    "ascode_c23": ("violated", "InvC23", ("quick", "thorough")),
    "ascode_seq": ("violated", "InvC22", ("quick", "thorough")),   # ONE sequential client, owner is a follower
    "ascode_mon": ("violated", "InvC23", ("quick", "thorough")),   # with the monitor loop, topic owned by a follower
    "only_d1": ("violated", "InvC22", ("quick", "thorough")),      # only the stale/asynchronous count left in
    "only_d2": ("violated", "InvC23", ("quick", "thorough")),      # only lease-check-before-lock left in
    "only_d3": ("violated", "InvC23", ("quick", "thorough")),      # only lazily refreshed lease set left in
    "only_d4": ("violated", "InvC22", ("quick", "thorough")),      # only reads through a lagging node left in
    "fixed_quick": ("holds", None, ("quick", "thorough")),         # every deviation off
    "fixed_stale": ("holds", None, ("quick", "thorough")),
    "fixed_mon": ("holds", None, ("quick", "thorough")),
    "fixed_deep": ("holds", None, ("thorough",)),                  # 3 PUTs + 4 GETs through both nodes, threshold 2
    "fixed_deep2": ("holds", None, ("thorough",)),                 # 3 PUTs + 4 GETs, threshold 1, monitor (5.1e6 states)
}
ALL_ACTIONS = ["PutCall", "PutRpcA", "PutL63", "PutL69", "PutL112", "PutL102", "PutL48", "PutL298", "PutL293", "PutRpcM",
               "PutProp", "PutPwait", "GetCall", "GetL272", "GetRpcR", "GetL56", "GetPost", "LeaseSync", "SyncL63", "SyncL69",
               "MonitorTick", "MonL293", "MonRpcM", "MonProp", "MonPwait", "ApplyNext"]


def _tla_value(text, var):
    m = re.search(r"/\\ %s = (.*?)(?=\n/\\ |\n\n|\Z)" % var, text, re.S)
    return re.sub(r"\s+", " ", m.group(1)).strip() if m else None


def _parse_sched(s):
    """<< <<<<"c", 1>>, "L63">>, ... >> -> [("c",1,"L63"), ...]"""
    return [(a, int(n), l) for a, n, l in re.findall(r'<<<<"(\w+)", (\d+)>>, "(\w+)">>', s or "")]


def _parse_resp(s):
    return [(int(c), int(i), r, int(p)) for c, i, r, p in re.findall(r'<<(\d+), (\d+), "(\w+)", (\d+)>>', s or "")]


def _cfg_constants(cfg_path):
    txt = open(cfg_path).read()
    out = {}
    for k in ("Thr", "InitLeader", "MaxCmds"):
        m = re.search(r"%s\s*=\s*(\d+)" % k, txt)
        out[k] = int(m.group(1)) if m else None
    m = re.search(r'ProgSel\s*=\s*"(\w+)"', txt)
    out["ProgSel"] = m.group(1)
    m = re.search(r"Nodes\s*=\s*\{([\d, ]+)\}", txt)
    out["Nodes"] = len(m.group(1).split(","))
    out["WithMonitor"] = bool(re.search(r"WithMonitor\s*=\s*TRUE", txt))
    for k in ("AtomicCount", "LeaseUnderLock", "LeaseOnApply", "FreshReads"):
        out[k] = bool(re.search(r"%s\s*=\s*TRUE" % k, txt))
    return out


def _programs():
    """ProgDef of MC_DataPlane.tla, parsed (the module is the single source of the client programs)."""
    txt = open(os.path.join(C.SPEC, "MC_DataPlane.tla")).read()
    progs = {}
    for sel, body in re.findall(r'ProgSel = "(\w+)"\s*->\s*(.*)', txt):
        cl = {}
        for c, ops in re.findall(r"\((\d+) :> <<(.*?)>>\)", body):
            lst = []
            for m in re.finditer(r"(put)\((\d+), (\d+)\)|(get)\((\d+)\)", ops):
                if m.group(1):
                    lst.append({"op": "put", "t": "a", "p": int(m.group(2)), "via": int(m.group(3))})
                else:
                    lst.append({"op": "get", "t": "a", "via": int(m.group(5))})
            cl[int(c)] = lst
        progs[sel] = cl
    return progs


def design_mc(tier):
    """Runs the MC configs of the tier (cached by content hash of the spec files)."""
    files = [os.path.join(C.SPEC, f) for f in ("DataPlane.tla", "MC_DataPlane.tla")]
    names = [n for n, (_, _, tiers) in MC_CONFIGS.items() if tier in tiers and os.path.exists(os.path.join(C.SPEC, "MC_DataPlane_%s.cfg" % n))]
    key = C.hash_files(files + [os.path.join(C.SPEC, "MC_DataPlane_%s.cfg" % n) for n in names])
    cache = os.path.join(C.ensure_dir(os.path.join(C.BUILD, "cache")), "mc_dataplane_%s_%s.json" % (tier, key))
    if os.path.exists(cache):
        with open(cache) as f:
            return json.load(f)
    with C.FileLock(os.path.join(C.BUILD, "tlc-mc-dataplane.lock")):
        if os.path.exists(cache):
            with open(cache) as f:
                return json.load(f)
        res = {"configs": {}, "fired": {}}
        for n in names:
            expect, inv, _ = MC_CONFIGS[n]
            cfg = os.path.join(C.SPEC, "MC_DataPlane_%s.cfg" % n)
            wd = os.path.join(C.BUILD, "runs", "mc_dp_%s_%d" % (n, os.getpid()))
            rc, out, wall = C.tlc(os.path.join(C.SPEC, "MC_DataPlane.tla"), cfg, wd, workers=8, env=TMPENV,
                                  extra=["-coverage", "1"], timeout=3000 if tier == "thorough" else 600, heap="12g")
            shutil.rmtree(wd, ignore_errors=True)
            gen, dist = C.tlc_stats(out)
            violated = re.findall(r"Error: Invariant (\w+) is violated", out)
            other_err = [l for l in re.findall(r"Error: (.*)", out) if not l.startswith("Invariant") and "behavior up to" not in l]
            if dist == 0 or other_err or "Parsing or semantic analysis failed" in out:
                raise C.ToolError("MC_DataPlane_%s failed to run:\n%s" % (n, out[-3000:]))
            rec = {"expect": expect, "states": dist, "transitions": gen, "wall_s": round(wall, 1), "constants": _cfg_constants(cfg)}
            if expect == "holds":
                if violated or "No error has been found" not in out:
                    raise C.ToolError("MC_DataPlane_%s: the design with every deviation switched off must satisfy the "
                                      "contract, TLC says %s\n%s" % (n, violated, out[-2500:]))
            else:
                if inv not in violated:
                    raise C.ToolError("MC_DataPlane_%s: expected counterexample to %s not produced (the design spec no "
                                      "longer shows the deviation)\n%s" % (n, inv, out[-2500:]))
                last = out.split("\nState ")[-1]
                rec["steps"] = len(re.findall(r"\nState \d+: <", out))
                rec["sched"] = _parse_sched(_tla_value(last, "sched"))
                rec["resp"] = _parse_resp(_tla_value(last, "resp"))
                rec["viol22"] = (_tla_value(last, "viol22") or "").strip('"')
                rec["viol23"] = (_tla_value(last, "viol23") or "").strip('"')
            cov = C.tlc_coverage(out)
            rec["coverage"] = {a: list(cov[a]) for a in ALL_ACTIONS if a in cov}
            for a in ALL_ACTIONS:
                if a in cov and cov[a][1] > 0:
                    res["fired"][a] = res["fired"].get(a, 0) + cov[a][1]
            res["configs"][n] = rec
            C.log("[tlc] MC_DataPlane_%s: %s, %d distinct states, %.0fs" % (n, "counterexample (%d steps)" % rec["steps"] if expect != "holds" else "holds", dist, wall))
        never = [a for a in ALL_ACTIONS if res["fired"].get(a, 0) == 0]
        if never:
            raise C.ToolError("DataPlane: actions that never fired in any configuration (vacuous): %s" % never)
        # must-hold configurations must exercise the data path, not hold vacuously
        for n, rec in res["configs"].items():
            if rec["expect"] == "holds":
                for a in ("PutL48", "GetPost", "ApplyNext", "PutL293"):
                    if rec["coverage"].get(a, [0, 0])[1] == 0:
                        raise C.ToolError("MC_DataPlane_%s holds vacuously: %s never fired" % (n, a))
        with open(cache, "w") as f:
            json.dump(res, f)
        return res


def generate_behaviours(tier, seed):
    """Complete behaviours (schedule + predicted responses) of the as-the-code-is design, by TLC simulation."""
    n = 4000 if tier == "thorough" else 500
    key = C.hash_files([os.path.join(C.SPEC, f) for f in ("DataPlane.tla", "MC_DataPlane.tla")] + [os.path.abspath(__file__)])
    cache = os.path.join(C.ensure_dir(os.path.join(C.BUILD, "cache")), "gen_dataplane_%s_%d_%s.json" % (tier, seed, key))
    if os.path.exists(cache):
        with open(cache) as f:
            return json.load(f)
    out_all = []
    for sel, thr, init in (("p2g2", 1, 1), ("p2g3", 2, 2), ("p3g4x", 1, 2), ("seq", 2, 1)):
        d = C.ensure_dir(os.path.join(C.BUILD, "runs", "gen_dp_%s_%d" % (sel, os.getpid())))
        cfg = os.path.join(d, "gen.cfg")
        with open(cfg, "w") as f:
            f.write("SPECIFICATION Spec\nCONSTANTS\n  Nodes = {1, 2}\n  RaftLeader = 1\n  InitLeader = %d\n  Thr = %d\n"
                    "  Clients <- ClientsDef\n  Prog <- ProgDef\n  ProgSel = \"%s\"\n  MaxCmds = 4\n  WithMonitor = TRUE\n"
                    "  WithSync = TRUE\n  AtomicCount = FALSE\n  LeaseUnderLock = FALSE\n  LeaseOnApply = FALSE\n"
                    "  FreshReads = FALSE\nINVARIANT PrintDone\nCONSTRAINT NotDoneYet\nCHECK_DEADLOCK FALSE\n" % (init, thr, sel))
        box = 45 if tier == "thorough" else 6      # TLC keeps walking; the time box bounds it
        for attempt in range(3):                  # on a loaded machine the JVM may not get to walk within the box
            rc, out, wall = C.tlc(os.path.join(C.SPEC, "MC_DataPlane.tla"), cfg, d, workers=4, env=TMPENV,
                                  extra=["-simulate", "num=%d" % n, "-depth", "140", "-seed", str(seed)], timeout=box * (2 ** attempt))
            behs = sorted(set(re.findall(r'<<"BEH", "(.*)">>', out)))
            if behs:
                break
        random.Random(seed).shuffle(behs)
        behs = behs[:(3000 if tier == "thorough" else 300)]
        parsed = []
        for b in behs:
            try:
                js = json.loads(b.encode().decode("unicode_escape"))
            except Exception:
                continue
            sched = [(x[0][0], int(x[0][1]), x[1]) for x in js["sched"]]
            resp = [(int(x[0]), int(x[1]), x[2], int(x[3])) for x in js["resp"]]
            parsed.append((sched, resp))
        # one behaviour per walk: drop those that extend a shorter printed one
        parsed.sort(key=lambda x: len(x[0]))
        keep, seen = [], set()
        for sched, resp in parsed:
            t = tuple(sched)
            if any(t[:k] in seen for k in range(1, len(t))):
                continue
            seen.add(t)
            keep.append((sched, resp))
        if not keep and "Error" in out:
            raise C.ToolError("behaviour generation from DataPlane failed:\n" + out[-2000:])
        for i, (sched, resp) in enumerate(keep):
            out_all.append({"sel": sel, "Thr": thr, "InitLeader": init, "Nodes": 2, "WithMonitor": True, "sched": sched, "resp": resp,
                            "id": "g_%s_%d" % (sel, i)})
        shutil.rmtree(d, ignore_errors=True)
    if not out_all:
        raise C.ToolError("behaviour generation from DataPlane produced nothing")
    with open(cache, "w") as f:
        json.dump(out_all, f)
    return json.loads(json.dumps(out_all))


def schedule_job(jid, consts, sched, progs, drain=False):
    """A TLC behaviour of the design as a replay job for the real code."""
    lab = labels()
    steps = []
    for actor, n, l in sched:
        if actor == "apply":
            steps.append("apply%d" % n)
        else:
            name = {"c": "c", "sync": "sync", "mon": "mon"}[actor] + str(n)
            steps.append({"run": name, "until": lab[l], "max": 60})
    prog = progs[consts["ProgSel"]]
    clients = [{"ops": prog[c]} for c in sorted(prog)]
    return {"id": jid, "nodes": consts["Nodes"], "threshold": consts["Thr"], "monitor_ms": 150,
            "setup": [{"op": "create", "t": "a", "ldr": consts["InitLeader"], "via": 1}], "clients": clients,
            "sched": {"kind": "replay", "steps": steps}, "max_steps": 4000, "drain": drain, "drain_via": 1,
            "no_monitor": not consts.get("WithMonitor", False), "mode": "tlc"}


def responses_of(events):
    out = []
    for e in events:
        if e.get("ev") == "ret" and e.get("c") not in (0, 99) and e.get("op") in ("put", "get"):
            out.append((e["c"], e["seq"], e["res"], e.get("p", 0) if e["op"] == "get" and e["res"] == "val" else 0))
    return out


# ------------------------------------------------------------------------------------------------
# binding self-test: corrupted recordings must be rejected by the contract

SELFTEST_JOB = {"id": "selftest", "nodes": 2, "threshold": 2, "setup": [{"op": "create", "t": "a", "ldr": 2, "via": 1}],
                "clients": [{"ops": [{"op": "put", "t": "a", "p": 1, "via": 1}, {"op": "put", "t": "a", "p": 2, "via": 2},
                                     {"op": "put", "t": "a", "p": 3, "via": 1}, {"op": "get", "t": "a", "via": 2},
                                     {"op": "get", "t": "a", "via": 1}]}], "sched": {"kind": "default"}, "drain": True}


def selftest():
    import copy
    ev = run_jobs([SELFTEST_JOB], tag="selftest")
    base = ev.get("selftest")
    if not base or base[-1].get("status") != "ok":
        raise C.ToolError("self-test: the reference execution did not run: %s" % (base[-1] if base else None))
    cases = {"good": base}
    # 1. swap the payloads of two GET responses
    x = copy.deepcopy(base)
    vals = [e for e in x if e.get("ev") == "ret" and e.get("res") == "val"]
    if len(vals) < 2:
        raise C.ToolError("self-test: reference execution has fewer than two deliveries")
    vals[0]["p"], vals[1]["p"] = vals[1]["p"], vals[0]["p"]
    cases["swapped_gets"] = x
    # 2. drop one response
    x = copy.deepcopy(base)
    k = next(i for i, e in enumerate(x) if e.get("ev") == "ret" and e.get("op") == "put")
    del x[k]
    cases["dropped_ret"] = x
    # 3. an acknowledged PUT that is never delivered: remove one delivery, keep the final EMPTY
    x = copy.deepcopy(base)
    k = max(i for i, e in enumerate(x) if e.get("ev") == "ret" and e.get("res") == "val")
    seqk = (x[k]["c"], x[k]["seq"])
    x = [e for e in x if not (e.get("ev") in ("call", "ret") and (e.get("c"), e.get("seq")) == seqk)]
    cases["lost_delivery"] = x
    # 4. C23: a write attributed to the node that does not hold the segment / after the sealing
    x = copy.deepcopy(base)
    w = [e for e in x if e.get("ev") == "write"]
    w[0]["node"] = 1 if w[0]["node"] == 2 else 2
    cases["foreign_write"] = x
    x = copy.deepcopy(base)
    w = [i for i, e in enumerate(x) if e.get("ev") == "write" and e["seg"] == 1]
    moved = x.pop(w[-1])
    last_apply = max(i for i, e in enumerate(x) if e.get("ev") == "apply" and e["node"] == moved["node"])
    x.insert(last_apply + 1, moved)
    cases["write_after_seal"] = x
    v22, _ = validate(cases, "C22", tag="selftest")
    v23, _ = validate(cases, "C23", tag="selftest")
    want22 = {"good": True, "swapped_gets": False, "dropped_ret": False, "lost_delivery": False}
    want23 = {"good": True, "foreign_write": False, "write_after_seal": False}
    bad = [("C22", k) for k, w_ in want22.items() if v22[k]["ok"] != w_] + [("C23", k) for k, w_ in want23.items() if v23[k]["ok"] != w_]
    if bad:
        raise C.ToolError("binding self-test failed (contract verdict differs from expectation) for %s" % bad)
    return {"cases": len(want22) + len(want23)}


# ------------------------------------------------------------------------------------------------
# the shared pipeline run

def _extra_findings():
    p = os.environ.get("VERIF_EXTRA_FINDINGS")
    out = []
    if p and os.path.exists(p):
        with open(p) as f:
            for line in f:
                line = line.strip()
                if line and not line.startswith("#"):
                    out.append(json.loads(line))
    return out


def pipeline(tier):
    key = "%s_%d_%s" % (tier, C.seed(), src_hash())
    cache = os.path.join(C.ensure_dir(os.path.join(C.BUILD, "cache")), "cluster_%s.json" % key)
    if os.path.exists(cache):
        with open(cache) as f:
            return json.load(f)
    with C.FileLock(os.path.join(C.BUILD, "cluster-pipeline.lock")):
        if os.path.exists(cache):
            with open(cache) as f:
                return json.load(f)
        t0 = time.time()
        build()
        st = selftest() if tier == "thorough" else None
        mc = design_mc(tier)
        progs = _programs()
        jobs = []
        for j in load_corpus("C22") + [j for j in load_corpus("C23") if "C22" not in j.get("props", [])]:
            j = dict(j)
            j["mode"] = j.get("mode", "corpus")
            jobs.append(j)
        predicted = {}
        for n, rec in mc["configs"].items():
            if n.startswith("ascode"):
                j = schedule_job("tlc_" + n, rec["constants"], rec["sched"], progs, drain=True)
                j["mode"] = "tlc_counterexample"
                jobs.append(j)
                predicted[j["id"]] = rec["resp"]
        behs = generate_behaviours(tier, C.seed())
        rng = random.Random(C.seed())
        rng.shuffle(behs)
        for b in behs[:(3000 if tier == "thorough" else 240)]:
            j = schedule_job(b["id"], {"ProgSel": b["sel"], "Thr": b["Thr"], "InitLeader": b["InitLeader"], "Nodes": b["Nodes"],
                                        "WithMonitor": b["WithMonitor"]}, b["sched"], progs, drain=True)
            j["mode"] = "tlc_behaviour"
            jobs.append(j)
            predicted[j["id"]] = b["resp"]
        n_open, n_avoid = (6000, 6000) if tier == "thorough" else (500, 500)
        jobs += gen_jobs(n_open, C.seed(), "open", "o")
        jobs += gen_jobs(n_avoid, C.seed(), "avoid", "a")
        t1 = time.time()
        ev = run_jobs(jobs, tag="pipe")
        t2 = time.time()
        missing = [j["id"] for j in jobs if j["id"] not in ev]
        if missing:
            raise C.ToolError("%d jobs produced no trace (driver failure), e.g. %s" % (len(missing), missing[:3]))
        failed_setup = [g for g, e in ev.items() if e[-1].get("status") == "setup_failed"]
        if failed_setup:
            raise C.ToolError("cluster setup failed in %d runs, e.g. %s: %s" % (len(failed_setup), failed_setup[0], ev[failed_setup[0]][0]))
        v22, s22 = validate(ev, "C22", tag="pipe")
        v23, s23 = validate(ev, "C23", tag="pipe")
        t3 = time.time()
        byid = {j["id"]: j for j in jobs}
        groups = {}
        sigs = set()
        for g, e in ev.items():
            end = e[-1]
            job = byid[g]
            rec = {"mode": job.get("mode"), "guard": job.get("guard"), "status": end.get("status"), "steps": end.get("steps", 0),
                   "unrealizable": end.get("unrealizable", 0), "note": end.get("note"),
                   "c22_ok": v22[g]["ok"], "c23_ok": v23[g]["ok"], "events": len(e)}
            sigs.add(json.dumps(job.get("clients"), sort_keys=True) + "|" + str(job.get("nodes")) + "|" +
                     str(job.get("threshold")) + "|" + end.get("taken", ""))
            if g in predicted:
                real = {(c, s): (r, p) for c, s, r, p in responses_of(e)}
                diff = [(list(x), real.get((x[0], x[1]))) for x in predicted[g] if real.get((x[0], x[1])) != (x[2], x[3])]
                rec["drift"] = diff[:3]
            if not v22[g]["ok"]:
                rec["c22_div"] = classify_c22(e, v22[g])
                rec["c22_verdict"] = {k: v22[g].get(k) for k in ("matched", "index", "event")}
            if not v23[g]["ok"]:
                rec["c23_div"] = classify_c23(e, v23[g])
                rec["c23_verdict"] = {k: v23[g].get(k) for k in ("matched", "index", "event")}
            if not (v22[g]["ok"] and v23[g]["ok"]) or end.get("status") != "ok":
                rec["job"] = job
                qs = next((x["step"] for x in e if x.get("ev") == "note" and x.get("what") == "quiescent"), 10 ** 9)
                rec["trace"] = [x for x in e if x.get("ev") in ("call", "ret", "commit", "apply", "write", "note")
                                or (x.get("ev") in ("log", "at") and e[0].get("setup_steps", 0) < x.get("step", 0) <= qs)]
                rec["taken"] = end.get("taken", "")
                rec["msg"] = end.get("msg")
            groups[g] = rec
        samples = []
        for g in list(ev)[:400]:
            if byid[g].get("mode") in ("open", "tlc_behaviour") and len(samples) < 3:
                samples.append({"job": {k: byid[g][k] for k in ("nodes", "threshold", "clients", "setup")},
                                "sched": byid[g]["sched"]["kind"], "steps": ev[g][-1].get("steps"),
                                "responses": responses_of(ev[g])[:12]})
        res = {"key": key, "mc": mc, "groups": groups, "selftest": st,
               "stats": {"jobs": len(jobs), "by_mode": {m: sum(1 for j in jobs if j.get("mode") == m) for m in set(j.get("mode") for j in jobs)},
                         "distinct_executions": len(sigs), "sim_steps": sum(r["steps"] for r in groups.values()),
                         "trace_events": sum(r["events"] for r in groups.values()),
                         "trace_tlc_states_c22": s22["states_distinct"], "trace_tlc_states_c23": s23["states_distinct"],
                         "trace_tlc_generated_c22": s22["states_generated"], "trace_tlc_generated_c23": s23["states_generated"],
                         "wall_mc_gen_s": round(t1 - t0, 1), "wall_run_s": round(t2 - t1, 1), "wall_validate_s": round(t3 - t2, 1)},
               "samples": samples}
        with open(cache, "w") as f:
            json.dump(res, f)
        C.log("[cluster] pipeline %s: %d executions, mc+gen %.0fs, run %.0fs, validate %.0fs" % (tier, len(jobs), t1 - t0, t2 - t1, t3 - t2))
        return res


# UNREALIZABLE POLICY. A schedule generated by TLC from the DataPlane design (modes tlc_counterexample, tlc_behaviour)
# names, step by step, the task to run and the scheduling point it must reach. When the code cannot follow a step
# (the task is blocked or finished, or never parks at the named point) the code has left the design, or the design
# is wrong. Such a run is never dropped:
#   1. the simulator skips the step, follows the rest of the script as far as it can and finishes the clients under
#      the default policy (world.rs), so the run yields a complete history;
#   2. that history is judged against the CONTRACT like every other one: a real violation in it is reported
#      (VIOLATION, exit 1) whatever the state of the design;
#   3. each such schedule is a MODEL-DRIFT line and is counted in the evidence (generated_schedules,
#      unrealizable_generated_schedules, unrealizable_share, examples);
#   4. a design-driven exploration of which more than UNREALIZABLE_MAX_SHARE could not be followed did not explore
#      what the evidence would claim: when no violation was found the check ends with a TOOL ERROR (exit 2, nothing
#      is claimed) instead of exit 0. On the unchanged tree the count is 0 (verified for seeds 1-3), so the threshold
#      only leaves room for a handful of schedules after a harmless refactoring of the code.
# Scripted corpus schedules that cannot be followed are listed the same way (MODEL-DRIFT + evidence) but do not count
# towards the share: they are single regression points, not the coverage claim.
GENERATED_MODES = ("tlc_counterexample", "tlc_behaviour")
UNREALIZABLE_MAX_SHARE = 0.02


def _check(pid, tier):
    t0 = time.time()
    p = pipeline(tier)
    findings = C.load_findings() + _extra_findings()
    okk, divk = ("c22_ok", "c22_div") if pid == "C22" else ("c23_ok", "c23_div")
    known, violations, drift, guard_leaks = {}, [], [], 0
    confirmed, unreal, unreal_corpus, n_generated = [], [], [], 0
    for g, r in sorted(p["groups"].items()):
        div = None
        if not r[okk]:
            div = dict(r[divk])
        elif pid == "C22" and r["status"] in ("panic", "hang", "deadlock", "drain_hang", "died"):
            div = {"property": "C22", "kind": r["status"], "cause": "code_under_test_" + r["status"]}
        if r["mode"] in GENERATED_MODES:
            n_generated += 1
            if r.get("unrealizable"):
                unreal.append(g)
                drift.append("schedule %s generated from the DataPlane design cannot be followed by the code (%s)" % (g, r.get("note")))
            elif r.get("drift"):
                drift.append("responses of %s differ from the design's prediction: %s" % (g, r["drift"][:2]))
        if r["mode"] == "corpus" and r.get("unrealizable"):
            unreal_corpus.append(g)
            drift.append("scripted corpus schedule %s cannot be followed by the code (%s): it no longer reaches what it was "
                         "written for" % (g, r.get("note")))
        if r["mode"] == "tlc_counterexample":
            inv = p["mc"]["configs"][g[4:]]
            expected_here = (pid == "C22" and inv.get("viol22", "none") != "none") or (pid == "C23" and inv.get("viol23", "none") != "none")
            if expected_here and div is None:
                drift.append("the design counterexample %s (%s) is NOT reproduced by the code: the as-the-code-is "
                             "configuration no longer describes the code" % (g, pid))
            elif expected_here:
                confirmed.append(g)
        if div is None:
            continue
        div["mode"] = r["mode"]
        if r.get("guard"):
            div["guard"] = r["guard"]
        f = C.match_finding(findings, pid, div)
        if f is not None:
            known.setdefault(f["id"], {"finding": f, "count": 0})
            known[f["id"]]["count"] += 1
            if r["mode"] == "avoid":
                guard_leaks += 1
            continue
        name = "%s_%s_%s" % (pid, g, div.get("kind"))
        path = C.save_replay(pid, name, {"property": pid, "how_to_replay": "cluster-sim run --in <file with the job line>; or "
                                         "python3 -c 'from vlib import props_cluster as P; P.replay(\"%s\", \"<this file>\")'" % pid,
                                         "job": r.get("job"), "schedule_taken": r.get("taken"), "divergence": div,
                                         "first_unmatched_event": (r.get(pid.lower() + "_verdict") or {}).get("event"),
                                         "history": r.get("trace")})
        violations.append((path, div))
    for fid, rec in sorted(known.items()):
        print("KNOWN-FINDING: property=%s %s [%s, seen %d time(s)]" % (pid, rec["finding"]["what_fails"], fid, rec["count"]))
    for d in drift[:10]:
        print("MODEL-DRIFT: %s" % d)
    if len(drift) > 10:
        print("MODEL-DRIFT: ... and %d more (%d of %d generated schedules could not be followed)" % (len(drift) - 10, len(unreal), n_generated))
    for path, div in violations[:20]:
        print("VIOLATION property=%s replay=%s" % (pid, path))
        C.log("  divergence: %s" % json.dumps(div))
    if len(violations) > 20:
        C.log("  ... and %d more violating executions (same pipeline run)" % (len(violations) - 20))
    mc = p["mc"]
    holds = {n: r for n, r in mc["configs"].items() if r["expect"] == "holds"}
    cex = {n: r for n, r in mc["configs"].items() if r["expect"] != "holds"}
    groups = p["groups"]
    lease_causes = {}
    for r in groups.values():
        lc = (r.get("c23_div") or {}).get("cause") if pid == "C23" else (r.get("c22_div") or {}).get("lease_cause")
        if lc and (pid == "C22" or (r.get("c23_div") or {}).get("kind") == "write_after_sealing_applied"):
            lease_causes[lc] = lease_causes.get(lc, 0) + 1
    kinds = {}
    for path, div in violations:
        k = "%s/%s" % (div.get("kind"), div.get("cause"))
        kinds[k] = kinds.get(k, 0) + 1
    coverage = {
        "states": sum(r["states"] for r in mc["configs"].values()),
        "transitions": sum(r["transitions"] for r in mc["configs"].values()),
        "traces_validated_against_impl": len(groups),
        "samples": p["samples"],
        "evaluations": len(groups),
        "distinct_nontrivial": p["stats"]["distinct_executions"],
        "rule": "executions = committed corpus + TLC counterexamples of the as-the-code-is DataPlane design + behaviours "
                "generated from that design by TLC simulation (replayed step by step, responses compared with the design's "
                "prediction) + seeded random/PCT schedules of random client programs (1-3 nodes, thresholds 1-4), in an open "
                "and an avoidance-guarded corpus; distinct = distinct (program, cluster, schedule actually taken); every "
                "execution's history is decided by TLC against the contract (Trace_DataPlane: %s)"
                % ("linearizability of call/ret pairs to a FIFO queue" if pid == "C22" else "each write legal in the writer's applied metadata"),
        "design_model": {"must_hold": {n: {k: r[k] for k in ("states", "transitions", "wall_s", "constants")} for n, r in holds.items()},
                         "expected_counterexamples": {n: {"states": r["states"], "steps": r["steps"], "viol22": r.get("viol22"),
                                                          "viol23": r.get("viol23"), "constants": r["constants"]} for n, r in cex.items()},
                         "action_counts": mc["fired"]},
        "design_counterexamples_confirmed_on_code": confirmed,
        "executions_by_mode": p["stats"]["by_mode"],
        "rejected_by_contract": sum(1 for r in groups.values() if not r[okk]),
        "rejected_in_avoidance_corpus": sum(1 for r in groups.values() if not r[okk] and r["mode"] == "avoid"),
        "violation_kinds": kinds,
        "known_findings_seen": {k: v["count"] for k, v in known.items()},
        "guard_leaks": guard_leaks,
        "drift": len(drift),
        "generated_schedules": n_generated,
        "unrealizable_generated_schedules": len(unreal),
        "unrealizable_share": round(len(unreal) / float(max(1, n_generated)), 4),
        "unrealizable_max_share": UNREALIZABLE_MAX_SHARE,
        "unrealizable_examples": [{"id": g, "reason": groups[g].get("note"), "steps_not_followed": groups[g].get("unrealizable")}
                                  for g in (unreal + unreal_corpus)[:5]],
        "unrealizable_corpus_schedules": unreal_corpus,
        "lease_causes_seen": lease_causes,
        "avoidance_guards": GUARDS,
        "sim_steps": p["stats"]["sim_steps"], "trace_events": p["stats"]["trace_events"],
        "trace_tlc_states": p["stats"]["trace_tlc_states_" + pid.lower()],
        "pipeline": p["stats"], "selftest": p.get("selftest"),
    }
    C.write_evidence(pid, tier, "model_checking", coverage, time.time() - t0, assumptions=ASSUMPTIONS, violations=len(violations))
    if violations:
        return C.EXIT_VIOLATION
    if len(unreal) > UNREALIZABLE_MAX_SHARE * n_generated:
        raise C.ToolError("%d of %d schedules generated from the DataPlane design (%.1f%% > %.1f%%) cannot be followed by the code, e.g. "
                          "%s: %s. The code left the design (or the design is wrong); the design-driven part of the exploration "
                          "did not explore what it claims, so no verdict is given (the histories of these runs were still "
                          "judged against the contract: no violation among them)"
                          % (len(unreal), n_generated, 100.0 * len(unreal) / max(1, n_generated), 100.0 * UNREALIZABLE_MAX_SHARE,
                             unreal[0], groups[unreal[0]].get("note")))
    return C.EXIT_OK


def c22(tier):
    return _check("C22", tier)


def c23(tier):
    return _check("C23", tier)


def replay(pid, path):
    """Re-runs the job of a replay file and decides it again."""
    with open(path) as f:
        r = json.load(f)
    job = dict(r["job"])
    job["id"] = "replay"
    ev = run_jobs([job], tag="replay")
    v, _ = validate(ev, pid, tag="replay")
    if v["replay"]["ok"]:
        print("replay: accepted by the contract")
        return C.EXIT_OK
    div = (classify_c22 if pid == "C22" else classify_c23)(ev["replay"], v["replay"])
    print("VIOLATION property=%s replay=%s" % (pid, path))
    C.log("  divergence: %s" % json.dumps(div))
    return C.EXIT_VIOLATION


REGISTRY = {"C22": c22, "C23": c23}
