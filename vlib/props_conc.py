"""C05: concurrent producers/consumers. Real threads gated at the cfg(walrus_verif) scheduling
points run seeded / enumerated schedules; TLC decides linearizability of every recorded
call/ret history against the contract (Trace_WalrusConc).
Design stage (props_concdesign): the concurrent design spec WalrusConcDesign is model-checked over
all interleavings of small thread programs and TLC-generated gate-level schedules are replayed on
the engine with the strict controller; engine vs model = MODEL-DRIFT, engine vs contract = VIOLATION."""
import json
import os
import random
import re
import shutil
import time

from . import common as C
from . import engine as E
from . import props_engine as PE
from . import props_concdesign as CD


def gen_job(r, jid, cfg):
    ids = [0]

    def nid():
        ids[0] += 1
        return ids[0]
    sizes = [600, 700, 900, 300, 1500, 100]
    pre = []
    for _ in range(r.choice([0, 1, 2, 3])):
        pre.append({"op": "append", "t": "a", "id": nid(), "size": r.choice(sizes)})
    if pre and r.random() < 0.4:
        pre.append({"op": "read", "t": "a", "ckpt": True})
    nthreads = r.choice([2, 2, 3, 3, 4])
    shape = r.choice(["readers", "mixed", "mixed", "prodcons", "batchers", "rot2", "breaders"])
    threads = []
    if shape == "rot2":
        # a batch reader racing with a producer that seals two blocks in a row
        pre = [{"op": "append", "t": "a", "id": nid(), "size": r.choice([100, 300, 600])}]
        prod = ([{"op": "batch", "t": "a", "es": [[nid(), 1500], [nid(), 1500], [nid(), r.choice([900, 1500])]]}] if r.random() < 0.5
                else [{"op": "append", "t": "a", "id": nid(), "size": 1500}, {"op": "append", "t": "a", "id": nid(), "size": 1500},
                      {"op": "append", "t": "a", "id": nid(), "size": 700}])
        threads = [[{"op": "bread", "t": "a", "budget": -1}, {"op": "bread", "t": "a", "budget": -1}], prod]
        if r.random() < 0.4:
            threads.append([{"op": "read", "t": "a"}])
        nthreads = len(threads)
    elif shape == "breaders":
        # several consuming batch readers over preloaded data (and maybe a producer)
        pre = [{"op": "append", "t": "a", "id": nid(), "size": r.choice([300, 600, 700, 900])} for _ in range(r.randint(4, 7))]
        threads = [[{"op": "bread", "t": "a", "budget": r.choice([-1, 700, 1500, 2000])} for _ in range(r.choice([1, 2]))]
                   for _ in range(r.choice([2, 3]))]
        if r.random() < 0.5:
            threads.append([{"op": "append", "t": "a", "id": nid(), "size": r.choice([600, 1500])}])
        nthreads = len(threads)
    for t in range(nthreads if shape not in ("rot2", "breaders") else 0):
        ops = []
        for _ in range(r.choice([1, 2, 2, 3])):
            if shape == "readers":
                k = r.choice(["read", "read", "bread"])
            elif shape == "prodcons":
                k = ("append" if t % 2 == 0 else r.choice(["read", "bread"]))
            elif shape == "batchers":
                k = r.choice(["batch", "read", "bread", "append"])
            else:
                k = r.choice(["append", "append", "read", "bread", "batch"])
            if k == "append":
                ops.append({"op": "append", "t": "a", "id": nid(), "size": r.choice(sizes)})
            elif k == "batch":
                ops.append({"op": "batch", "t": "a", "es": [[nid(), r.choice(sizes)] for _ in range(r.choice([2, 3]))]})
            elif k == "read":
                ops.append({"op": "read", "t": "a"})
            else:
                ops.append({"op": "bread", "t": "a", "budget": r.choice([-1, 700, 1500, 0])})
        threads.append(ops)
    if shape == "readers" and len(pre) < 2:
        pre = [{"op": "append", "t": "a", "id": nid(), "size": r.choice(sizes)} for _ in range(3)] + pre
    c = dict(cfg)
    c["topics"] = ["a"]
    c["proj"] = False
    if r.random() < 0.35 and len(threads) >= 2:
        # "park and run": thread A is stopped at its k-th gate while thread B runs a whole operation
        # (or two) without interruption - the shape of every check-then-act window
        a_, b_ = r.sample(range(len(threads)), 2)
        sched = [a_] * r.choice([1, 2, 3, 4]) + [b_] * r.choice([8, 12, 20]) + [a_] * 8
        return {"id": jid, "cfg": c, "pre": pre, "threads": threads, "schedule": sched, "seed": r.getrandbits(32), "pct": False}
    return {"id": jid, "cfg": c, "pre": pre, "threads": threads,
            "schedule": [r.randrange(nthreads) for _ in range(r.choice([0, 0, 10, 40]))], "seed": r.getrandbits(32),
            "pct": r.random() < 0.5}


def run_jobs(jobs, tag):
    binp = C.build_engine("tiny")
    root = C.ensure_dir(os.path.join(C.BUILD, "runs", "%s-%d" % (tag, os.getpid())))
    by = {}
    for j in jobs:
        by.setdefault(j["cfg"]["backend"], []).append(j)
    chunks = []
    for be, lst in by.items():
        for i in range(0, len(lst), 25):
            chunks.append(lst[i:i + 25])

    def job(ix):
        d = C.ensure_dir(os.path.join(root, "j%d" % ix))
        inp, out = os.path.join(d, "in.ndjson"), os.path.join(d, "out.ndjson")
        with open(inp, "w") as f:
            for j in chunks[ix]:
                f.write(json.dumps(j) + "\n")
        start, guard = 0, 0
        while start < len(chunks[ix]) and guard < len(chunks[ix]) + 2:
            guard += 1
            rc, o = C.sh([binp, "sched", "--in", inp, "--out", out, "--dir", os.path.join(d, "data"), "--start", str(start)],
                         timeout=900, env={"WALRUS_QUIET": "1"})
            if rc == 0:
                break
            last = -1
            if os.path.exists(out):
                for line in open(out):
                    if '"what":"begin"' in line:
                        last = json.loads(line)["n"]
            if rc != 88:
                with open(out, "a") as f:
                    f.write(json.dumps({"ev": "died", "st": "died", "rc": rc}) + "\n")
            start = max(last, start) + 1
        groups, cur = {}, None
        pending_note = None
        if os.path.exists(out):
            for line in open(out):
                try:
                    e = json.loads(line)
                except Exception:
                    continue
                if e.get("ev") == "reset":
                    cur = e["g"]
                    groups[cur] = [e]
                elif cur is not None and not (e.get("ev") == "note" and e.get("what") == "begin"):
                    groups[cur].append(e)
        shutil.rmtree(d, ignore_errors=True)
        return groups

    allg = {}
    for g in C.parallel_map(job, list(range(len(chunks))), workers=8):
        allg.update(g)
    shutil.rmtree(root, ignore_errors=True)
    return allg


def _strip(e):
    return {k: v for k, v in e.items() if k not in ("proj", "kind", "backend", "geom", "trace", "what", "steps", "unrealizable")} \
        if e.get("ev") != "note" else {"ev": "note"}


def validate_conc(groups, report="Report", tag="concv"):
    root = C.ensure_dir(os.path.join(C.BUILD, "runs", "%s-%d" % (tag, os.getpid())))
    # reclamation requests and count observations are other properties' business
    for g in list(groups):
        groups[g] = [e for e in groups[g] if e.get("ev") not in ("reclaim", "counts", "is_clean")]
    gids = list(groups)
    parts = [gids[i:i + 150] for i in range(0, len(gids), 150)]
    cfg = os.path.join(root, "conc_%s.cfg" % report)
    open(cfg, "w").write("SPECIFICATION CSpec\nCONSTANTS\n  Topics <- TopicsDef\n  InstOf <- InstOfDef\nINVARIANTS %s TypeOK\nCHECK_DEADLOCK FALSE\n" % report)

    def run(pi):
        d = C.ensure_dir(os.path.join(root, "p%d" % pi))
        tr = os.path.join(d, "trace.ndjson")
        bounds, line = [], 0
        with open(tr, "w") as f:
            for g in parts[pi]:
                first = line + 1
                for e in groups[g]:
                    f.write(json.dumps(_strip(e)) + "\n")
                    line += 1
                bounds.append((g, first, line))
        rc, out, wall = C.tlc(os.path.join(C.SPEC, "Trace_WalrusConc.tla"), cfg, d, env={"TRACE": tr}, workers=1, timeout=900,
                              deque=True)
        if "Error:" in out or rc != 0:
            raise C.ToolError("TLC (Trace_WalrusConc) failed:\n" + out[-2500:])
        reached = set(int(x) for x in re.findall(r'<<"AT", (\d+)>>', out))
        gen, dist = C.tlc_stats(out)
        verd = {}
        for g, first, last in bounds:
            if (last + 1) in reached:
                verd[g] = {"ok": True}
            else:
                k = max([x for x in reached if first <= x <= last + 1] or [first])
                verd[g] = {"ok": False, "index": k - first, "first_unmatched": groups[g][k - first], "matched": k - first}
        shutil.rmtree(d, ignore_errors=True)
        return verd, dist, (out if report == "ReportState" else "")

    verd, states, outs = {}, 0, []
    for v, dist, o in C.parallel_map(run, list(range(len(parts))), workers=6):
        verd.update(v)
        states += dist
        outs.append(o)
    shutil.rmtree(root, ignore_errors=True)
    return verd, states, outs


def classify_conc(events, v):
    """What went wrong in a rejected concurrent history (for reports and known-finding matchers)."""
    delivered = {}
    appended = set()
    for e in events:
        if e.get("ev") == "call" and e.get("op") in ("append", "batch"):
            pass
        if e.get("ev") in ("ret", "read", "bread") and e.get("res") and isinstance(e.get("res"), list):
            for x in e["res"]:
                delivered[tuple(x)] = delivered.get(tuple(x), 0) + 1
    calls = {e["id"]: e for e in events if e.get("ev") == "call"}
    for e in events:
        if e.get("ev") == "ret" and e.get("res") == "ok" and calls.get(e["id"], {}).get("op") in ("append", "batch"):
            for x in calls[e["id"]]["es"]:
                appended.add(tuple(x))
        if e.get("ev") == "append" and e.get("res") == "ok":
            appended.add((e["k"], e["size"]))
        if e.get("ev") == "batch" and e.get("res") == "ok":
            for x in e["es"]:
                appended.add(tuple(x))
    dup = [k for k, n in delivered.items() if n > 1]
    lost = [k for k in appended if k not in delivered]
    extra = [k for k in delivered if k not in appended]
    fu = v.get("first_unmatched", {})
    d = {"ev": fu.get("ev"), "op": calls.get(fu.get("id"), {}).get("op") if fu.get("ev") == "ret" else fu.get("op", fu.get("ev")),
         "duplicates": len(dup), "lost": len(lost), "extra": len(extra)}
    ops_conc = sorted(set(c["op"] for c in calls.values()))
    d["thread_ops"] = "+".join(ops_conc)
    if fu.get("ev") in ("hang", "died"):
        d["kind"] = fu["ev"]
    elif any(e.get("st") in ("panic", "err", "foreign") for e in events if e.get("ev") == "ret") or any(e.get("res") == "panic" for e in events if e.get("ev") == "ret"):
        d["kind"] = "panic_or_error"
    elif dup:
        d["kind"] = "duplicate_delivery"
    elif lost:
        d["kind"] = "lost_entry"
    elif extra:
        d["kind"] = "unacknowledged_entry_delivered"
    else:
        d["kind"] = "order_not_linearizable"
    return d


def c05(tier):
    ck = PE.EngineCheck("C05", tier)
    mc = PE.contract_mc(tier)
    r = random.Random("c05/%d" % C.seed())
    n = 3000 if tier == "thorough" else 300
    cfgs = [{"backend": "fd", "mode": "strict", "pe": 1}, {"backend": "mmap", "mode": "strict", "pe": 1},
            {"backend": "fd", "mode": "alo", "pe": 2}]
    jobs = []
    for b in PE.load_corpus_files("C05"):
        jobs.append(b)
    for i in range(n):
        jobs.append(gen_job(r, "cj%d" % i, cfgs[i % len(cfgs)]))
    # design stage: TLC on WalrusConcDesign (pure TLC), its schedules join the jobs run on the engine
    design = CD.prepare(tier)
    jobs += design["jobs"]
    groups = run_jobs(jobs, "c05")
    missing = [j["id"] for j in jobs if j["id"] not in groups]
    if len(missing) > len(jobs) // 10:
        raise C.ToolError("%d schedules produced no history" % len(missing))
    verd, states, _ = validate_conc(groups)
    byid = {j["id"]: j for j in jobs}
    failed = [g for g in verd if not verd[g]["ok"]]
    for g in failed[:60]:
        div = classify_conc(groups[g], verd[g])
        div["mode"] = byid[g]["cfg"]["mode"]
        div["backend"] = byid[g]["cfg"]["backend"]
        sched = next((e for e in groups[g] if e.get("ev") == "note" and e.get("what") == "schedule"), {})
        v = dict(verd[g])
        ck.report({"id": g, "cfg": byid[g]["cfg"], "ops": [], "job": byid[g]}, groups[g], v, div, [],
                  extra={"history": [_strip(e) for e in groups[g]][:80], "schedule_taken": sched.get("trace", [])[:200]})
    ck.unattributed = max(0, len(failed) - 60)
    dcov, drift_lines = CD.conformance(design, groups, verd)
    for l in drift_lines:
        print(l)
    if dcov["model_drift"] > len(drift_lines):
        print("MODEL-DRIFT: C05 WalrusConcDesign: %d more schedules differ from the model" % (dcov["model_drift"] - len(drift_lines)))
    steps = [e.get("steps", 0) for g in groups.values() for e in g if e.get("ev") == "note" and e.get("what") == "schedule"]
    distinct = len(set(json.dumps(next((e.get("trace") for e in g if e.get("what") == "schedule"), None)) for g in groups.values()))
    coverage = {
        "states": mc["states"], "transitions": mc["transitions"],
        "traces_validated_against_impl": len(groups),
        "evaluations": len(groups), "distinct_nontrivial": distinct,
        "samples": [{"job": {k: byid[g][k] for k in ("pre", "threads")}, "history": [_strip(e) for e in groups[g] if e.get("ev") in ("call", "ret")][:12]}
                    for g in list(groups)[:2]],
        "rule": "2-4 OS threads run 1-3 operations each (append, batch_append, read_next, batch_read on one topic whose blocks hold 2-3 "
                "entries, after a sequential preload) against one instance; every cfg(walrus_verif) sched_point (lock release/re-acquire "
                "sites of read_next, batch read, write, batch write) and every operation start is a gate and a seeded controller (prefix "
                "from a schedule list, then random) decides which thread runs; the call/ret history plus a quiescent drain is checked by TLC "
                "for linearizability against WalrusAPI; distinct = distinct gate sequences taken",
        "gate_steps_total": sum(steps), "contract_model": mc, "trace_tlc_states": states, "rejected_traces": len(failed),
        "design_rule": "spec/WalrusConcDesign.tla: one process per client thread, one atomic action per code segment between two "
                       "gates (split where a segment can block on the writer mutexes, the column lock or the batch flag), 1 topic, "
                       "blocks of 1 and 2 entries, StrictlyAtOnce; TLC checks exactly-once delivery after a drain, per-reader order, "
                       "batch contiguity, cursor exactness, the locks held at every gate and deadlock freedom over ALL interleavings "
                       "of the bounded programs (lock-granular scheduler) and emits every gate-level schedule with a bounded number "
                       "of preemptions (gate-atomic scheduler) together with the predicted result of every call; a stratified "
                       "selection is replayed on the engine under the strict controller (one thread released at a time, every other "
                       "thread parked) and compared gate by gate and result by result (MODEL-DRIFT), the history is validated "
                       "against the contract like every other schedule (VIOLATION)",
    }
    coverage.update(design["coverage"])
    coverage.update(dcov)
    return ck.finish("model_checking", coverage, PE.COMMON_ASSUMPTIONS + [
        "schedules are sampled (seeded), not exhaustive; interleavings are at the granularity of the gates, code between two gates runs "
        "without interruption by a gated thread only if it holds a lock the others need",
        "an empty read result is accepted anywhere in a concurrent history",
        "design stage: programs are bounded (<= 3 client threads, <= 6 entries, 1 topic, unbounded byte budget, checkpoint=true, "
        "StrictlyAtOnce); sizes are abstract (a block holds 1 or 2 entries); the index, map and counter locks are leaf locks and not "
        "modelled; outcomes that need a reader between two publications of one batch_write (inside one gate-to-gate segment) are "
        "model-checked but cannot be replayed with the existing gates"])


def replay(pid, path):
    """`./check C05 --replay <path>`: runs the stored job (threads, schedule) again and validates its history."""
    with open(path) as f:
        r = json.load(f)
    job = r.get("behaviour", {}).get("job")
    if not job:
        raise C.ToolError("replay file %s holds no job" % path)
    groups = run_jobs([job], "c05replay")
    if job["id"] not in groups:
        raise C.ToolError("replay: the driver produced no history for %s" % job["id"])
    verd, _, _ = validate_conc(groups, tag="c05replayv")
    v = verd[job["id"]]
    sched = next((e for e in groups[job["id"]] if e.get("ev") == "note"), {})
    if v["ok"]:
        print("replay %s: history accepted by the contract" % job["id"])
        return C.EXIT_OK
    print("VIOLATION property=%s replay=%s" % (pid, path))
    C.log("  first unmatched event %d: %s" % (v["index"], json.dumps(_strip(v["first_unmatched"]))))
    return C.EXIT_VIOLATION


REGISTRY = {"C05": c05}
