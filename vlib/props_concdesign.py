"""C05, design stage: the concurrent design spec WalrusConcDesign (reader/writer protocol at the
granularity of the engine's gates) is model-checked by TLC over all interleavings of small thread
programs, and bound to the code by replaying TLC-generated gate-level schedules through the real
engine (strict schedule controller of `engine-driver sched`).

  verify   every program set of the tier, lock-granular scheduler (FineLocks) and gate-atomic
           scheduler: invariants (exactly once, order, cursor exact, locks held at gates), TLC's
           deadlock check (fine scheduler), -coverage 1 (every action must fire); the outcomes of
           the gate-atomic scheduler must be outcomes of the lock-granular one (those only the
           latter reaches - a reader between two publications of one batch - are counted: the
           gate controller cannot replay them);
  guards   MC_WalrusConcDesign_defect_*.cfg: a deviation switch on, TLC must find a violation;
  emit     every distinct complete gate-level schedule with a bounded number of preemptions,
           with the results the model predicts for every call;
  replay   a stratified selection on the real engine (fd and mmap): the gate sequence the engine
           shows must be the predicted one and every call must return the predicted result -
           otherwise MODEL-DRIFT (never a violation); the recorded call/ret history is validated,
           independently, against the contract (Trace_WalrusConc), which alone decides VIOLATION.
"""
import json
import os
import random
import re
import shutil

from . import common as C

MC = os.path.join(C.SPEC, "MC_WalrusConcDesign.tla")
SWITCHES = ("DefRnStaleSnapshot", "DefBrStaleSnapshot", "DefBwEarlyPublish", "MutBrNewestOnly")
INVARIANTS = ("ProgramsOK TypeOK LocksAtGates NoDuplicate NoPhantom NoneLost OnlyAcked ReaderOrder CursorNotBehind "
              "CursorNotAhead BatchContiguous")
ACTIONS_NEVER_WITHOUT_SWITCH = {"BwSealPublishEarly"}

# program set (definition in MC_WalrusConcDesign.tla) -> threads of the harness job
A = lambda e: {"op": "append", "e": e}          # noqa: E731
B = lambda *es: {"op": "batch", "es": list(es)}  # noqa: E731
R = {"op": "read"}
BR = {"op": "bread"}
PROGS = {
    "P_app2_rn":   ([A(1)], [[A(2), A(3)], [R, R, R]]),
    "P_app2_br":   ([A(1)], [[A(2), A(3)], [BR, BR]]),
    "P_app3_rnbr": ([A(1)], [[A(2), A(3), A(4)], [R, BR]]),
    "P_nopre_rn":  ([], [[A(1), A(2)], [R, R]]),
    "P_nopre_br":  ([], [[A(1), A(2)], [BR, R]]),
    "P_bat3_rn":   ([A(1)], [[B(2, 3, 4)], [R, R]]),
    "P_bat3_br":   ([A(1)], [[B(2, 3, 4)], [BR, BR]]),
    "P_bat2_rnbr": ([A(1)], [[B(2, 3)], [R, BR]]),
    "P_app2_rn2":  ([A(1)], [[A(2), A(3)], [R, R], [R]]),
    "P_app2_rnbr": ([A(1)], [[A(2), A(3)], [R, R], [BR]]),
    "P_bat3_rnbr": ([A(1)], [[B(2, 3, 4)], [R, R], [BR]]),
    "P_app2_br2":  ([A(1)], [[A(2), A(3)], [BR], [BR]]),
    "P_mix":       ([A(1)], [[A(2)], [B(3, 4)], [R, BR]]),
    "P_bat2x2":    ([A(1)], [[B(2, 3)], [B(4, 5)], [BR]]),
    "P_big_a":     ([A(1)], [[A(2), A(3), A(4)], [R, R], [BR, R]]),
    "P_big_b":     ([A(1)], [[B(2, 3), A(4)], [R, BR], [R, R]]),
    "P_big_c":     ([A(1), A(2)], [[A(3), B(4, 5)], [R, R], [BR, BR]]),
}
# payload size that makes a 2 KiB block hold exactly `cap` entries (256-byte header per entry)
SIZE_OF_CAP = {1: 1500, 2: 700}


def write_cfg(path, progs, caps, fine, switches=(), view="ViewState", maxpre=(9, 9), invariants=INVARIANTS, deadlock=None,
              constraint=None, emit=False):
    """progs / caps: names of definitions in MC_WalrusConcDesign.tla (sets of program sets / of capacities)."""
    lines = ["SPECIFICATION Spec", "CONSTANTS", "  Caps <- %s" % caps, "  MaxBatch = 6", "  MaxPre2 = %d" % maxpre[0],
             "  MaxPre3 = %d" % maxpre[1], "  ProgSets <- %s" % progs, "  MaxThreads = 5", "  FineLocks = %s" % ("TRUE" if fine else "FALSE")]
    for s in SWITCHES:
        lines.append("  %s = %s" % (s, "TRUE" if s in switches else "FALSE"))
    lines.append("VIEW %s" % view)
    lines.append("INVARIANTS %s%s" % (invariants, " EmitSched" if emit else ""))
    if constraint:
        lines.append("CONSTRAINT %s" % constraint)
    if deadlock is None:
        deadlock = fine
    lines.append("CHECK_DEADLOCK %s" % ("TRUE" if deadlock else "FALSE"))
    with open(path, "w") as f:
        f.write("\n".join(lines) + "\n")
    return path


def parse_emitted(out):
    res = []
    for m in re.finditer(r'<<"SCHED", "((?:[^"\\]|\\.)*)">>', out):
        res.append(json.loads(json.loads('"' + m.group(1) + '"')))
    return res


def outcome_key(s):
    return json.dumps([s["r"], s["d"]], sort_keys=True)


def run_tlc(cfg, workdir, workers=4, timeout=900, coverage=True, extra=None):
    ex = (["-coverage", "1"] if coverage else []) + (extra or [])
    rc, out, wall = C.tlc(MC, cfg, workdir, workers=workers, extra=ex, timeout=timeout)
    return rc, out, wall


def violated(out):
    m = re.search(r"Invariant (\w+) is violated", out)
    if m:
        return m.group(1), len(re.findall(r"^State \d+:", out, re.M))
    if "Deadlock reached" in out:
        return "Deadlock", len(re.findall(r"^State \d+:", out, re.M))
    return None, 0


# ------------------------------------------------------------------------------------------------
# configurations

TIERS = {
    # verify: set of program sets (definition in MC_WalrusConcDesign.tla) model-checked with both capacities and
    #         both schedulers;  emit: (set of program sets, (preemption bound for 2 client threads, for more))
    #         whose gate-level schedules are enumerated;  replay: schedules replayed on the engine
    "quick": {"verify": "Small", "emit": [("Small", (2, 1))], "replay": 300},
    "thorough": {"verify": "All", "emit": [("Small", (3, 2)), ("Big", (1, 1))], "replay": 4000},
}
CONTRACT_INVARIANTS = "NoDuplicate NoPhantom NoneLost OnlyAcked ReaderOrder"
DEFECTS = {
    # name -> (switch, program set, capacity, invariants that may be reported)
    "rn_stale_snapshot": ("DefRnStaleSnapshot", "Only_app2_rn2", "Caps1", ("NoDuplicate",)),
    "br_stale_snapshot": ("DefBrStaleSnapshot", "Only_app2_br", "Caps1", ("NoDuplicate",)),
    "bw_early_publish": ("DefBwEarlyPublish", "Only_bat3_rn", "Caps2", ("NoneLost",)),
    "mut_br_newest_only": ("MutBrNewestOnly", "Only_app2_br", "Caps1", ("NoDuplicate",)),
}
COMMITTED = {
    "MC_WalrusConcDesign_quick.cfg": dict(progs="Small", caps="Caps12", fine=True, emit=True),
    "MC_WalrusConcDesign_thorough.cfg": dict(progs="All", caps="Caps12", fine=True, emit=True),
}
for _n, (_sw, _p, _c, _inv) in DEFECTS.items():
    COMMITTED["MC_WalrusConcDesign_defect_%s.cfg" % _n] = dict(progs=_p, caps=_c, fine=True, switches=(_sw,),
                                                              invariants=CONTRACT_INVARIANTS)

ENGINE_GATES = ["w_start", "w_after_seal", "w_after_write", "bw_after_flag", "bw_after_seal", "bw_before_io",
                "bw_before_publish", "rn_after_hydrate", "rn_after_writer_snapshot", "rn_sealed_before_persist",
                "rn_before_tail_read", "rn_after_tail_read", "br_after_writer_snapshot", "br_before_io", "br_before_commit"]
# a thread parked here sits in a rotation or in the window between a writer snapshot and the cursor commit
WINDOW = {"rn_after_writer_snapshot", "br_after_writer_snapshot", "rn_before_tail_read", "rn_after_tail_read",
          "br_before_io", "br_before_commit", "w_after_seal", "bw_after_seal", "bw_before_io", "bw_before_publish"}


def write_committed_cfgs():
    for name, kw in COMMITTED.items():
        write_cfg(os.path.join(C.SPEC, name), **kw)


def check_committed_cfgs(workdir):
    """The committed .cfg files are exactly what this module runs."""
    for name, kw in COMMITTED.items():
        tmp = write_cfg(os.path.join(workdir, "cmp.cfg"), **kw)
        p = os.path.join(C.SPEC, name)
        if not os.path.exists(p) or open(p).read() != open(tmp).read():
            raise C.ToolError("%s differs from the generated configuration (python3 -m vlib.props_concdesign --write-cfgs)" % name)


def _spec_key(cfgtext, args):
    h = C.hash_files([MC, os.path.join(C.SPEC, "WalrusConcDesign.tla")])
    import hashlib
    return hashlib.sha256((h + cfgtext + json.dumps(args)).encode()).hexdigest()[:20]


def tlc_cached(workroot, name, cfgkw, coverage=True, workers=2, timeout=1500):
    """One TLC run (cached by spec + configuration: it does not depend on /repo)."""
    d = C.ensure_dir(os.path.join(workroot, name))
    cfg = write_cfg(os.path.join(d, "m.cfg"), **cfgkw)
    key = _spec_key(open(cfg).read(), [coverage])
    cache = os.path.join(C.ensure_dir(os.path.join(C.BUILD, "cache")), "concdesign_%s.json" % key)
    if os.path.exists(cache):
        with open(cache) as f:
            r = json.load(f)
        r["cached"] = True
        return r
    rc, out, wall = run_tlc(cfg, d, workers=workers, timeout=timeout, coverage=coverage)
    gen, dist = C.tlc_stats(out)
    inv, length = violated(out)
    if dist == 0 or (inv is None and (rc != 0 or "Error:" in out)):
        raise C.ToolError("TLC (MC_WalrusConcDesign, %s) failed:\n%s" % (name, out[-3000:]))
    r = {"name": name, "states": dist, "transitions": gen, "wall_s": round(wall, 1), "violated": inv, "cex_len": length,
         "coverage": {a: list(v) for a, v in C.tlc_coverage(out).items()}, "emitted": parse_emitted(out), "cached": False}
    tmp = cache + ".%d.tmp" % os.getpid()
    with open(tmp, "w") as f:
        json.dump(r, f)
    os.replace(tmp, cache)
    shutil.rmtree(d, ignore_errors=True)
    return r


# ------------------------------------------------------------------------------------------------
# schedules

def preemptions(h):
    """[(gate the preempted thread is left parked at, operations the others start before it resumes)]"""
    out = []
    for k in range(1, len(h)):
        prev = h[k - 1][0]
        if h[k][0] == prev:
            continue
        nxt = next((j for j in range(k, len(h)) if h[j][0] == prev), None)
        if nxt is None or h[nxt][1] == "op_start":
            continue          # the thread had finished or stood between two calls: not a preemption
        ops = sum(1 for j in range(k, nxt) if h[j][1] == "op_start")
        out.append((h[nxt][1], min(ops, 3)))
    return out


def select(emitted, budget, rng):
    """Stratified choice: every (program set, capacity, outcome) first, then round-robin over the
    strata (program set, capacity, outcome, preemption signature), window preemptions first."""
    strata = {}
    for s in emitted:
        sig = tuple(sorted(set(preemptions(s["h"]))))
        strata.setdefault((s["prog"], s["cap"], outcome_key(s), sig), []).append(s)
    for v in strata.values():
        rng.shuffle(v)

    def prio(k):
        sig = k[3]
        win = sum(1 for (lab, ops) in sig if lab in WINDOW and ops >= 1)
        return (-min(win, 2), -len(sig), rng.random())
    keys = sorted(strata, key=prio)
    chosen, seen_outcome = [], set()
    for k in keys:                                     # one per outcome
        if len(chosen) >= budget:
            break
        if k[:3] not in seen_outcome:
            seen_outcome.add(k[:3])
            chosen.append(strata[k].pop())
    while len(chosen) < budget:
        progress = False
        for k in keys:
            if len(chosen) >= budget:
                break
            if strata[k]:
                chosen.append(strata[k].pop())
                progress = True
        if not progress:
            break
    return chosen, len(strata)


def job_of(s, jid, backend):
    pre, threads = PROGS[s["prog"]]
    size = SIZE_OF_CAP[s["cap"]]

    def conv(o):
        if o["op"] == "append":
            return {"op": "append", "t": "a", "id": o["e"], "size": size}
        if o["op"] == "batch":
            return {"op": "batch", "t": "a", "es": [[e, size] for e in o["es"]]}
        if o["op"] == "read":
            return {"op": "read", "t": "a"}
        return {"op": "bread", "t": "a", "budget": -1}
    return {"id": jid, "cfg": {"backend": backend, "mode": "strict", "pe": 1, "topics": ["a"], "proj": False},
            "pre": [conv(o) for o in pre], "threads": [[conv(o) for o in ops] for ops in threads],
            "schedule": [x[0] for x in s["h"]], "strict": True, "seed": 1, "pct": False}


def compare(s, events):
    """Model prediction against what the engine did: list of drift descriptions (empty = conforms)."""
    note = next((e for e in events if e.get("ev") == "note" and e.get("what") == "schedule"), None)
    if any(e.get("ev") in ("hang", "died") for e in events) or note is None:
        return ["engine run did not complete (%s)" % next((e.get("ev") for e in events if e.get("ev") in ("hang", "died")), "no schedule note")]
    drift = []
    trace = [[t, lab] for t, lab in note.get("trace", [])]
    if trace != s["h"] or note.get("stuck") or note.get("leftover"):
        k = next((i for i in range(min(len(trace), len(s["h"]))) if trace[i] != s["h"][i]), min(len(trace), len(s["h"])))
        drift.append("gate sequence differs at step %d: model %s, engine %s%s" % (
            k, s["h"][k] if k < len(s["h"]) else "end", trace[k] if k < len(trace) else "end",
            " (a released thread did not reach its next gate: blocked on a lock)" if note.get("stuck") else ""))
    rets = {e["id"]: e for e in events if e.get("ev") == "ret"}
    for ti, ops in enumerate(s["r"]):
        for k, want in enumerate(ops):
            got = rets.get(ti * 100 + k)
            if got is None:
                drift.append("thread %d call %d did not return" % (ti, k))
                continue
            if want["st"] in ("ok", "err"):
                g = got.get("res") if got.get("res") in ("ok", "err") else "other:%s" % got.get("res")
                if g != want["st"]:
                    drift.append("thread %d call %d: model %s, engine %s" % (ti, k, want["st"], g))
            else:
                g = [x[0] for x in got.get("res", [])] if isinstance(got.get("res"), list) else got.get("res")
                if g != want["es"] or got.get("st") != "ok":
                    drift.append("thread %d call %d: model delivers %s, engine %s%s" % (
                        ti, k, want["es"], g, "" if got.get("st") == "ok" else " (%s)" % got.get("st")))
    seen_note, drained = False, []
    for e in events:
        if e is note:
            seen_note = True
        elif seen_note and e.get("ev") in ("bread", "read") and isinstance(e.get("res"), list):
            drained += [x[0] for x in e["res"]]
    if drained != s["d"]:
        drift.append("drain: model %s, engine %s" % (s["d"], drained))
    return drift


# ------------------------------------------------------------------------------------------------
# the stage

def prepare(tier):
    """TLC part: verification, vacuity guards, emission, selection. Returns the jobs to replay."""
    tname = "thorough" if tier == "thorough" else "quick"
    t = TIERS[tname]
    root = C.ensure_dir(os.path.join(C.BUILD, "runs", "concdesign-%d" % os.getpid()))
    check_committed_cfgs(root)
    tasks = [("v_fine", COMMITTED["MC_WalrusConcDesign_%s.cfg" % tname], True),
             ("v_gate", dict(COMMITTED["MC_WalrusConcDesign_%s.cfg" % tname], fine=False), True)]
    for i, (progs, mp) in enumerate(t["emit"]):
        tasks.append(("e%d_%s" % (i, progs), dict(progs=progs, caps="Caps12", fine=False, view="ViewSched", maxpre=mp,
                                                 constraint="PreBound", emit=True, invariants=CONTRACT_INVARIANTS), False))
    for name in DEFECTS:
        tasks.append(("d_" + name, COMMITTED["MC_WalrusConcDesign_defect_%s.cfg" % name], False))
    results = C.parallel_map(lambda x: tlc_cached(root, x[0], x[1], coverage=x[2]), tasks, workers=3)
    by = {x[0]: r for x, r in zip(tasks, results)}
    shutil.rmtree(root, ignore_errors=True)

    # 1. all switches off: nothing violated, no deadlock; every action fires
    rf, rg = by["v_fine"], by["v_gate"]
    for r in (rf, rg):
        if r["violated"]:
            raise C.ToolError("WalrusConcDesign (%s): %s violated with all switches off (model error, or a defect of the "
                              "protocol: run TLC on spec/MC_WalrusConcDesign_%s.cfg)" % (r["name"], r["violated"], tname))
    fired = {a: rf["coverage"].get(a, [0, 0])[1] for a in _action_names()}
    never = [a for a in _action_names() if fired[a] == 0 and a not in ACTIONS_NEVER_WITHOUT_SWITCH]
    if never:
        raise C.ToolError("WalrusConcDesign: actions never taken (vacuous): %s" % ", ".join(never))

    def outcomes(r):
        o = {}
        for s in r["emitted"]:
            o.setdefault("%s/cap%d" % (s["n"], s["c"]), set()).add(outcome_key(s))
        return o
    of, og = outcomes(rf), outcomes(rg)
    per_cfg, fine_only = {}, 0
    for k in sorted(of):
        if not og.get(k) or not og[k] <= of[k]:
            raise C.ToolError("WalrusConcDesign %s: the gate-atomic scheduler reaches an outcome the lock-granular one does "
                              "not, or none at all (scheduler error)" % k)
        per_cfg[k] = {"outcomes": len(of[k]), "outcomes_lock_granular_only": len(of[k] - og[k])}
        fine_only += len(of[k] - og[k])
    # 2. vacuity guards
    guards = {}
    for name, (sw, progs, caps, invs) in DEFECTS.items():
        r = by["d_" + name]
        if r["violated"] not in invs:
            raise C.ToolError("WalrusConcDesign: with %s on TLC must report %s, got %s (vacuity guard)" % (sw, "/".join(invs), r["violated"]))
        guards[name] = {"switch": sw, "config": "%s x %s" % (progs, caps), "violated": r["violated"],
                        "counterexample_states": r["cex_len"], "states": r["states"]}
    # 3. emission and selection
    emitted, emit_states = [], 0
    for i, (progs, mp) in enumerate(t["emit"]):
        r = by["e%d_%s" % (i, progs)]
        if r["violated"]:
            raise C.ToolError("WalrusConcDesign (%s): %s violated" % (r["name"], r["violated"]))
        emit_states += r["states"]
        for s in r["emitted"]:
            if outcome_key(s) not in og.get("%s/cap%d" % (s["n"], s["c"]), ()):
                raise C.ToolError("emitted schedule with an outcome the verification run did not reach (%s)" % r["name"])
            s = dict(s)
            s["prog"], s["cap"] = s["n"], s["c"]
            emitted.append(s)
    if not emitted:
        raise C.ToolError("WalrusConcDesign: no schedule emitted")
    distinct = len(set(json.dumps([s["prog"], s["cap"], s["h"]]) for s in emitted))
    rng = random.Random("c05-design/%d" % C.seed())
    chosen, nstrata = select(emitted, t["replay"], rng)
    jobs, model = [], {}
    for i, s in enumerate(chosen):
        jid = "cd%d_%s_c%d" % (i, s["prog"], s["cap"])
        jobs.append(job_of(s, jid, "fd" if i % 2 == 0 else "mmap"))
        model[jid] = s
    hist = {}
    for s in emitted:
        hist[s["p"]] = hist.get(s["p"], 0) + 1
    cov = {"design_states": rf["states"], "design_transitions": rf["transitions"],
           "design_states_gate_scheduler": rg["states"], "design_emission_states": emit_states,
           "design_tlc_wall_s": {r["name"]: r["wall_s"] for r in results},
           "design_tlc_cached": all(r.get("cached") for r in results),
           "design_configs": per_cfg, "design_outcomes": sum(len(v) for v in of.values()),
           "design_outcomes_lock_granular_only": fine_only,
           "design_actions_fired": fired, "design_vacuity_guards": guards,
           "schedules_emitted": len(emitted), "schedules_distinct": distinct, "schedule_strata": nstrata,
           "preemption_histogram_emitted": {str(k): hist[k] for k in sorted(hist)}}
    return {"jobs": jobs, "model": model, "coverage": cov}


def _action_names():
    src = open(os.path.join(C.SPEC, "WalrusConcDesign.tla")).read()
    nxt = src[src.index("\nNext =="):src.index("\nSpec ==")]
    return [a for a in re.findall(r"\b([A-Z][A-Za-z]+)\(t\)", nxt)]


def conformance(prep, groups, verdicts):
    """Compares every replayed schedule with the model's prediction. Returns (coverage, drift lines)."""
    model = prep["model"]
    drift_lines, ndrift, replayed = [], 0, 0
    gate_cov = {g: 0 for g in ENGINE_GATES + ["op_start"]}
    hist, win, outcomes_seen, kinds = {}, 0, set(), {}
    samples = []
    for jid, s in model.items():
        ev = groups.get(jid)
        if ev is None:
            continue
        replayed += 1
        d = compare(s, ev)
        note = next((e for e in ev if e.get("ev") == "note" and e.get("what") == "schedule"), {})
        for t_, lab in note.get("trace", []):
            gate_cov[lab] = gate_cov.get(lab, 0) + 1
        np_ = len(preemptions(s["h"]))
        hist[np_] = hist.get(np_, 0) + 1
        if any(lab in WINDOW and ops >= 1 for lab, ops in preemptions(s["h"])):
            win += 1
        if d:
            ndrift += 1
            k = d[0].split(":")[0].split(" at ")[0]
            kinds[k] = kinds.get(k, 0) + 1
            if len(drift_lines) < 10:
                drift_lines.append("MODEL-DRIFT: C05 WalrusConcDesign %s (%s, cap %d, schedule %s): %s%s" % (
                    jid, s["prog"], s["cap"], json.dumps([x[0] for x in s["h"]]), "; ".join(d[:3]),
                    "" if verdicts.get(jid, {}).get("ok", True) else " [history also rejected by the contract]"))
        else:
            outcomes_seen.add((s["prog"], s["cap"], outcome_key(s)))
        if len(samples) < 2 and not d:
            samples.append({"program_set": s["prog"], "cap": s["cap"], "schedule": s["h"], "predicted_results": s["r"],
                            "predicted_drain": s["d"]})
    missing_gates = [g for g in ENGINE_GATES if gate_cov.get(g, 0) == 0]
    if replayed < max(1, len(model) * 9 // 10):
        raise C.ToolError("design stage: only %d of %d schedules produced a history" % (replayed, len(model)))
    if missing_gates:
        raise C.ToolError("design stage: gates never passed in the replayed schedules (vacuous): %s" % ", ".join(missing_gates))
    # self-test of the comparison: a wrong prediction must be noticed
    probe = next((jid for jid, s in model.items() if jid in groups and not compare(s, groups[jid]) and len(s["h"]) > 3
                  and any(x["es"] for ops in s["r"] for x in ops)), None)
    if probe is not None:
        s = json.loads(json.dumps(model[probe]))
        s1 = dict(s, h=s["h"][:2] + [s["h"][3], s["h"][2]] + s["h"][4:]) if s["h"][2] != s["h"][3] else dict(s, h=s["h"][:-1])
        s2 = json.loads(json.dumps(s))
        next(x for ops in s2["r"] for x in ops if x["es"])["es"] = []
        if not compare(s1, groups[probe]) or not compare(s2, groups[probe]):
            raise C.ToolError("design stage self-test: a wrong prediction was not noticed by the comparison")
    cov = {"schedules_replayed": replayed, "schedules_conforming": replayed - ndrift, "model_drift": ndrift,
           "model_drift_kinds": kinds, "replayed_with_window_preemption": win,
           "preemption_histogram_replayed": {str(k): hist[k] for k in sorted(hist)},
           "gate_coverage_replayed": gate_cov, "gates_never_replayed": missing_gates,
           "outcomes_confirmed_on_engine": len(outcomes_seen), "design_samples": samples}
    return cov, drift_lines


if __name__ == "__main__":
    import sys
    if "--write-cfgs" in sys.argv:
        write_committed_cfgs()
        print("written: " + " ".join(sorted(COMMITTED)))
