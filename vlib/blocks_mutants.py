"""Model-side mutants of the reclamation bookkeeping: what would the two halves of the C12 design view say
if the *code* were changed like this? (The code cannot be patched here; the model is mutated instead: the
mutated model differs from the real engine exactly where a correspondingly mutated engine would differ from
the unmutated model.)  usage: python3 -m vlib.blocks_mutants <name>   (names: see MUT; it replays on the engine: run it under the /repo lock)
Not part of any check; results of 2026-09-22 are quoted in DESIGN.md."""
import json, os, shutil, sys

from . import common as C
from . import props_blocks as PB
from . import engine as E

MUT = {
 "nolocked": ("Ready(s) == s.full /\\ s.l = 0 /\\ s.n > 0 /\\ s.c >= s.n", "Ready(s) == s.full /\\ s.n > 0 /\\ s.c >= s.n"),
 "twice": ("!.fs[key[1]].c = @ + 1]", "!.fs[key[1]].c = @ + 2]"),
 "peeknomark": ("/\\ InstallTk(MarkAll(Tk0, o.mk))", "/\\ InstallTk(MarkAll(Tk0, IF ck THEN o.mk ELSE <<>>))"),
 "markatplan": ("Append(plan, [k |-> idx, s |-> off, e |-> end, tail |-> FALSE]), skips, mk)",
                "Append(plan, [k |-> idx, s |-> off, e |-> end, tail |-> FALSE]), skips, IF end >= blk.used THEN Append(mk, KeyOfBlock(blk)) ELSE mk)"),
 "norecount": ("[old EXCEPT !.n = @ + RecCount(rch, f)]]", "[old EXCEPT !.n = IF fresh \\/ f > Len(fs) THEN RecCount(rch, f) ELSE @]]"),
 "unlocknew": ("tk |-> TkUnlock(x.tk, sealed.f), ch |-> ch1", "tk |-> TkUnlock(x.tk, x.blk.f), ch |-> ch1"),
 "fullafter": ("k1 == IF roll THEN TkGrow(TkFull(k, a.f), a1.f) ELSE k IN", "k1 == IF roll THEN TkGrow(k, a1.f) ELSE k IN"),
}
if len(sys.argv) < 2 or sys.argv[1] not in MUT:
    print("usage: python3 -m vlib.blocks_mutants " + "|".join(sorted(MUT)))
    sys.exit(2)
name = sys.argv[1]
old, new = MUT[name]
d = os.path.join(C.BUILD, "scratch", "specmut_" + name)
shutil.rmtree(d, ignore_errors=True)
shutil.copytree(C.SPEC, d, ignore=shutil.ignore_patterns("tmp", "states", "*.out"))
p = os.path.join(d, "WalrusBlocks.tla")
s = open(p).read()
assert s.count(old) == 1, s.count(old)
open(p, "w").write(s.replace(old, new))
C.SPEC = d
out = {"mutant": name}
# refinement only (no design invariants), StrictlyAtOnce only: a violation found here is not the recorded finding
import re as _re
c0 = open(os.path.join(d, "MC_WalrusBlocks_reclaim.cfg")).read()
c0 = _re.sub(r"INVARIANTS .*", "INVARIANTS RefinesCex PrintHist", c0).replace("ModeSet <- ModesAll", "ModeSet <- ModesStrict")
c0 = c0.replace("MaxOps = 7", "MaxOps = 8")
open(os.path.join(d, "MC_WalrusBlocks_mut.cfg"), "w").write(c0)
for cfg in ("MC_WalrusBlocks_mut.cfg",):
    try:
        r = PB.run_mc(cfg, timeout=900, optional=("OpBatchFail", "OpReclaim", "OpReopenNew"))
        out[cfg] = {"tlc": "no violation", "states": r["states"], "OpReclaim": r["coverage"].get("OpReclaim")}
        hist = PB.Histories(); hist.add(PB.load_histories(r))
        sel, n = PB.select(hist, 120, 1, prefer_requests=True)
        behs, meta = PB.to_behaviours(sel, marking=True)
        behs = [b for b in behs if b["id"].endswith("_fd_d")]
        tr = E.run_behaviours(behs, "tiny", tag="mut" + name)
        cmp_, drift = 0, {}
        for b in behs:
            c, dr = PB.compare_trace(hist, b, meta[b["id"]], tr[b["id"]])
            cmp_ += c
            for x in dr[:1]:
                k = x["kind"] + ":" + x["op"]["op"]
                drift.setdefault(k, [0, x])
                drift[k][0] += 1
        verd, _ = E.validate(tr, tag="mut" + name + "v", drop=())
        out[cfg].update({"replayed": len(behs), "comparisons": cmp_, "drift": {k: v[0] for k, v in drift.items()},
                         "first": {k: {"op_index": v[1]["op_index"], "op": v[1]["op"], "diff": v[1]["diff"]} for k, v in list(drift.items())[:2]},
                         "engine_traces_rejected_by_contract": sum(1 for g in verd if not verd[g]["ok"])})
    except C.ToolError as e:
        try:
            r = PB.run_mc(cfg, expect="violation", timeout=900)
            out[cfg] = {"tlc": "violation of " + r["violated"], "states": r["states"], "clause": r["cex"]["v"], "mode": r["cex"]["mode"],
                        "ops": PB.summarize(r["cex"])["ops"]}
        except C.ToolError as e2:
            out[cfg] = {"tlc": "tool error", "detail": str(e)[-800:], "detail2": str(e2)[-800:]}
print(json.dumps(out, indent=1))
shutil.rmtree(d, ignore_errors=True)
