"""Checks for the engine properties decided by the contract WalrusAPI on executions of the real
engine (C01, C02, C03, C04, C06, C12, C13, C15, C16, C17)."""
import glob
import json
import os
import time

from . import common as C
from . import engine as E
from . import gen as G

MAX_DIAG = 25


def contract_mc(tier):
    """TLC on the contract itself (cached: it does not depend on /repo)."""
    cfgname = "MC_WalrusAPI_%s.cfg" % ("thorough" if tier == "thorough" else "quick")
    spec = os.path.join(C.SPEC, "MC_WalrusAPI.tla")
    cfg = os.path.join(C.SPEC, cfgname)
    key = C.hash_files([spec, cfg, os.path.join(C.SPEC, "WalrusAPI.tla")])
    cache = os.path.join(C.ensure_dir(os.path.join(C.BUILD, "cache")), "mc_api_%s.json" % key)
    if os.path.exists(cache):
        with open(cache) as f:
            return json.load(f)
    with C.FileLock(os.path.join(C.BUILD, "tlc-mc-api.lock")):
        if os.path.exists(cache):
            with open(cache) as f:
                return json.load(f)
        rc, out, wall = C.tlc(spec, cfg, os.path.join(C.BUILD, "runs", "mc_api_%d" % os.getpid()), workers=8,
                              extra=["-coverage", "1"], timeout=1500)
        gen, dist = C.tlc_stats(out)
        cov = C.tlc_coverage(out)
        if rc != 0 or "Error" in out or dist == 0:
            raise C.ToolError("MC_WalrusAPI failed:\n" + out[-3000:])
        # vacuity: every action except the state-preserving offset read must produce states
        for a, (d, t) in cov.items():
            if a.startswith("MC") and a not in ("MCORead", "MCInit") and d == 0:
                raise C.ToolError("MC_WalrusAPI: action %s never produced a new state (vacuous)" % a)
        res = {"states": dist, "transitions": gen, "wall_s": round(wall, 1), "cfg": cfgname,
               "coverage": {a: list(v) for a, v in cov.items() if a.startswith("MC")}}
        with open(cache, "w") as f:
            json.dump(res, f)
        return res


def load_corpus_files(pid):
    """Committed regression behaviours: /verif/corpus/*.ndjson, lines tagged with "props"."""
    out = []
    for p in sorted(glob.glob(os.path.join(C.VERIF, "corpus", "*.ndjson"))):
        with open(p) as f:
            for line in f:
                line = line.strip()
                if not line or line.startswith("#"):
                    continue
                b = json.loads(line)
                if pid in b.get("props", []):
                    out.append(b)
    return out


def op_signature(beh):
    return json.dumps([{k: v for k, v in o.items() if k not in ("id",)} for o in beh["ops"]], sort_keys=True)


def summarize_behaviour(beh, limit=14):
    ops = []
    for o in beh["ops"][:limit]:
        k = o["op"]
        if k == "append":
            ops.append("append(%s,%d%s)" % (o["t"], o["size"], ",tlen=%d" % o["tlen"] if "tlen" in o else ""))
        elif k == "batch":
            ops.append("batch(%s,%s)" % (o["t"], [e[1] for e in o["es"]]))
        elif k == "read":
            ops.append("read(%s,%s)" % (o["t"], "ck" if o.get("ckpt", True) else "peek"))
        elif k == "bread":
            ops.append("bread(%s,b=%s,%s%s)" % (o["t"], o.get("budget"), "ck" if o.get("ckpt", True) else "peek",
                                                ",off=%d" % o["off"] if o.get("off", -1) >= 0 else ""))
        elif k == "reopen":
            ops.append("reopen(%s%s)" % (o.get("proc"), ",clock%+d" % o["clock"] if "clock" in o else ""))
        else:
            ops.append(k + (("(%s)" % o["t"]) if "t" in o else ""))
    return {"cfg": {k: beh["cfg"].get(k) for k in ("backend", "mode", "pe", "fsync")}, "ops": ops,
            "n_ops": len(beh["ops"])}


class EngineCheck:
    def __init__(self, pid, tier):
        self.pid = pid
        self.tier = tier
        self.t0 = time.time()
        self.findings = C.load_findings()
        self.known_seen = {}
        self.violations = []
        self.unattributed = 0
        self.notes = []
        self.extra_violations = 0

    # -- running -------------------------------------------------------------------------------
    def run_and_validate(self, behs, geom="tiny", batch_atomic=False, chunk=None, drop=("reclaim",)):
        old = E.CHUNK
        if chunk:
            E.CHUNK = chunk
        try:
            traces = E.run_behaviours(behs, geom, tag=self.pid.lower())
        finally:
            E.CHUNK = old
        missing = [b["id"] for b in behs if b["id"] not in traces]
        if missing:
            raise C.ToolError("%d behaviours produced no trace (driver failure), e.g. %s" % (len(missing), missing[:3]))
        verd, stats = E.validate(traces, batch_atomic=batch_atomic, tag=self.pid.lower() + "v", drop=drop)
        if drop:
            # indexes in verdicts refer to the filtered event lists
            traces = {g: [e for e in evs if e.get("ev") not in drop] for g, evs in traces.items()}
        return traces, verd, stats

    def diagnose(self, beh, events, v, batch_atomic=False):
        states = E.contract_state_at(events, v["index"], batch_atomic=batch_atomic)
        d = E.classify(events, v["index"], states)
        d["mode"] = beh["cfg"].get("mode")
        d["backend"] = beh["cfg"].get("backend")
        return d, states

    def report(self, beh, events, v, div, states, geom="tiny", extra=None):
        """Known finding or violation."""
        f = C.match_finding(self.findings, self.pid, div)
        if f is not None:
            self.known_seen.setdefault(f["id"], {"finding": f, "count": 0})
            self.known_seen[f["id"]]["count"] += 1
            return "known"
        name = "%s_%s_%s" % (self.pid, beh["id"], div.get("kind"))
        path = C.save_replay(self.pid, name, {
            "property": self.pid, "geom": geom, "behaviour": beh, "divergence": div,
            "first_unmatched_event": {k: x for k, x in v["first_unmatched"].items() if k != "proj"},
            "proj_before": v["first_unmatched"].get("proj"),
            "contract_state_before": states[:2], "matched_events": v["matched"], "extra": extra})
        self.violations.append((path, div))
        return "violation"

    def finish(self, level, coverage, assumptions):
        for fid, rec in sorted(self.known_seen.items()):
            print("KNOWN-FINDING: property=%s %s [%s, seen %d time(s)]" % (self.pid, rec["finding"]["what_fails"], fid, rec["count"]))
        for path, div in self.violations[:20]:
            print("VIOLATION property=%s replay=%s" % (self.pid, path))
            C.log("  divergence: %s" % json.dumps(div))
        coverage = dict(coverage)
        coverage["known_findings_seen"] = {k: v["count"] for k, v in self.known_seen.items()}
        coverage["unattributed_failures"] = self.unattributed
        if self.notes:
            coverage["notes"] = self.notes
        nviol = len(self.violations) + self.extra_violations
        C.write_evidence(self.pid, self.tier, level, coverage, time.time() - self.t0, assumptions=assumptions,
                         violations=nviol)
        return C.EXIT_VIOLATION if nviol else C.EXIT_OK

    def merge_blocks(self, view_name, coverage, rule=None):
        """Adds the WalrusBlocks design-model pipeline (TLC refinement check of the block-level design
        + replay of TLC-generated behaviours on the real engine) to this check."""
        from . import props_blocks as PB
        rc, cov, lines = getattr(PB, view_name)(self.tier)
        for l in lines:
            print(l)
        self.extra_violations += sum(1 for l in lines if l.startswith("VIOLATION"))
        coverage["contract_states"] = coverage.get("states", 0)
        coverage["states"] = coverage.get("states", 0) + cov.get("states", 0)
        coverage["transitions"] = coverage.get("transitions", 0) + cov.get("transitions", 0)
        coverage["random_traces"] = coverage.get("traces_validated_against_impl", 0)
        coverage["traces_validated_against_impl"] = coverage.get("traces_validated_against_impl", 0) + cov.get("traces_validated_against_impl", 0)
        coverage["evaluations"] = coverage.get("evaluations", 0) + cov.get("traces_validated_against_impl", 0)
        coverage["distinct_nontrivial"] = coverage.get("distinct_nontrivial", 0) + cov.get("design_behaviours_replayed", 0)
        for k, v in cov.items():
            if k not in ("states", "transitions", "traces_validated_against_impl"):
                coverage[k] = v
        coverage["rule"] = coverage.get("rule", "") + (rule or " PLUS the design model WalrusBlocks (tiny geometry, transcription of writer/reader/"
                                                      "planner/parser/recovery) checked by TLC to refine WalrusAPI; one shortest behaviour per distinct (code path, "
                                                      "design state) is generated by TLC, a stratified selection is replayed on the real engine under fd and mmap with "
                                                      "drain and reopen+drain tails, validated against the contract, and the engine's projected state is compared with "
                                                      "the model's event by event (MODEL-DRIFT, never a violation).")
        return coverage


COMMON_ASSUMPTIONS = [
    "the harness maps payload bytes to entry keys and back; byte identity is checked there",
    "tiny geometry (2 KiB blocks, 4 blocks/file, cap 6) is a cfg(walrus_verif_tiny) build of the same code",
    "TLC's verdict on a trace is the contract WalrusAPI as written in /verif/spec",
]


def generic(pid, tier, *, profiles, own, twin_flag=None, n_quick=400, n_thorough=4000, cfgs=None,
            real_n=0, level="model_checking", extra_assumptions=None, rule=None, chunk=None, gen_kwargs=None,
            blocks_view=None, drop=("reclaim",), extra_stage=None):
    """profiles: list of generator profile names; own(div) -> bool says whether a rejected
    execution is this property's business; twin_flag: ops carrying this flag are removed to
    build the twin execution (the property is blamed only if the twin is accepted)."""
    ck = EngineCheck(pid, tier)
    mc = contract_mc(tier)
    n = n_thorough if tier == "thorough" else n_quick
    behs = load_corpus_files(pid)
    for b in behs:
        b["cfg"].setdefault("proj", True)
    per = max(1, n // len(profiles))
    for p in profiles:
        behs += G.corpus(p, "tiny", per, C.seed(), cfgs=cfgs, prefix="%s_" % p, **(gen_kwargs or {}))
    traces, verd, stats = ck.run_and_validate(behs, "tiny", chunk=chunk, drop=drop)
    byid = {b["id"]: b for b in behs}
    failed = [g for g in verd if not verd[g]["ok"]]
    # twins
    twin_ok = {}
    if twin_flag and failed:
        twins = [G.strip_ops(byid[g], twin_flag, "~tw") for g in failed[:200]]
        ttr, tverd, _ = ck.run_and_validate(twins, "tiny", chunk=chunk, drop=drop)
        for g in failed[:200]:
            twin_ok[g] = tverd[g + "~tw"]["ok"]
    diag = 0
    for g in failed:
        if twin_flag and not twin_ok.get(g, False):
            ck.unattributed += 1
            continue
        if diag >= MAX_DIAG and len(ck.violations) >= 3:
            ck.unattributed += 1
            continue
        diag += 1
        div, states = ck.diagnose(byid[g], traces[g], verd[g])
        if not own(div):
            ck.unattributed += 1
            continue
        ck.report(byid[g], traces[g], verd[g], div, states)
    total_events = sum(len(t) for t in traces.values())
    distinct = len(set(op_signature(b) for b in behs))
    real_cov = {}
    if real_n and tier == "thorough":
        rb = []
        for p in profiles:
            rb += G.corpus(p, "real", real_n, C.seed(), cfgs=cfgs, prefix="R%s_" % p, **(gen_kwargs or {}))
        rtr, rverd, rstats = ck.run_and_validate(rb, "real", chunk=10)
        rby = {b["id"]: b for b in rb}
        for g in [g for g in rverd if not rverd[g]["ok"]][:MAX_DIAG]:
            div, states = ck.diagnose(rby[g], rtr[g], rverd[g])
            if own(div):
                ck.report(rby[g], rtr[g], rverd[g], div, states, geom="real")
            else:
                ck.unattributed += 1
        real_cov = {"real_geometry_behaviours": len(rb), "real_geometry_events": sum(len(t) for t in rtr.values())}
    samples = [summarize_behaviour(b) for b in behs[:3]]
    coverage = {
        "states": mc["states"], "transitions": mc["transitions"],
        "traces_validated_against_impl": len(traces),
        "samples": samples,
        "evaluations": len(traces), "distinct_nontrivial": distinct,
        "rule": rule or ("behaviours = committed regression corpus + seeded random operation sequences (profiles %s) "
                         "executed on the real engine under fd/mmap x strict/alo; distinct = distinct operation "
                         "sequences; each trace validated event by event by TLC against WalrusAPI" % profiles),
        "contract_model": mc, "trace_events": total_events,
        "trace_tlc_states": stats["states_distinct"], "rejected_traces": len(failed),
        "twin_rule": twin_flag,
    }
    coverage.update(real_cov)
    if blocks_view:
        coverage = ck.merge_blocks(blocks_view, coverage)
    if extra_stage:
        coverage = extra_stage(ck, coverage)      # a design-model stage: (EngineCheck, coverage) -> coverage
    return ck.finish(level, coverage, COMMON_ASSUMPTIONS + (extra_assumptions or []))


# ------------------------------------------------------------------------------------------------
# property definitions

READ_KINDS = ("spurious_empty", "redelivered", "extra", "skipped", "skipped_inside", "reordered_or_dup",
              "illegal_result", "read_err", "read_panic", "read_foreign", "hang", "died")


def c01(tier):
    def own(d):
        return d["ev"] in ("read", "bread", "hang", "died") and d["kind"] in READ_KINDS and d.get("off", -1) < 0
    return generic("C01", tier, profiles=["seq"], own=own, n_quick=600, n_thorough=6000, real_n=12, blocks_view="c01_blocks")


def c03(tier):
    def own(d):
        return d["ev"] == "bread" and d["kind"] in ("over_cap", "over_budget", "spurious_empty", "read_panic", "hang")
    return generic("C03", tier, profiles=["seq", "peek", "cap"], own=own, n_quick=750, n_thorough=6000, real_n=8, blocks_view="c03_blocks")


def c15(tier):
    def own(d):
        return d["ev"] == "counts"
    return generic("C15", tier, profiles=["seq", "peek", "restart"], own=own, n_quick=750, n_thorough=6000,
                   cfgs=[c for c in G.CFGS_ALL if c["mode"] == "strict"] + [G.CFGS_ALL[2]], blocks_view="c15_blocks")


def c02(tier):
    def own(d):
        return True  # anything that the execution without the non-consuming calls does not show
    return generic("C02", tier, profiles=["peek", "peekfill", "oreclaim"], own=own, twin_flag="nc", n_quick=800, n_thorough=6000, drop=(),
                   extra_assumptions=["blame rule: a rejected execution counts against C02 only if the same execution "
                                      "without its peeks and offset-addressed reads is accepted"])


def _norm_event(e):
    """What C16 compares: results, error kinds, entries, counts (not texts, not internals)."""
    return {k: v for k, v in e.items() if k not in ("proj", "backend", "file", "g", "fsync", "geom")}


def c16(tier):
    ck = EngineCheck("C16", tier)
    mc = contract_mc(tier)
    n = 3000 if tier == "thorough" else 400
    profiles = ["seq", "peek", "reject_safe", "restart_safe"]
    base = []
    per = n // len(profiles)
    for p in profiles:
        prof = p.replace("_safe", "")
        for b in G.corpus(prof, "tiny", per, C.seed(), cfgs=[{"backend": "fd", "mode": "strict", "pe": 1},
                                                             {"backend": "fd", "mode": "alo", "pe": 2}], prefix="%s_" % p):
            if p == "reject_safe":
                # injected completion faults exist on the io_uring path only
                b["ops"] = [o for o in b["ops"] if o.get("op") not in ("fault", "clear_fault") and not o.get("maybe")]
            base.append(b)
    behs = []
    for b in base + load_corpus_files("C16"):
        for be in ("fd", "mmap"):
            c = dict(b["cfg"])
            c["backend"] = be
            c["proj"] = False
            behs.append({"id": b["id"] + "@" + be, "cfg": c, "ops": b["ops"]})
    traces, verd, stats = ck.run_and_validate(behs, "tiny")
    byid = {b["id"]: b for b in behs}
    diffs = 0
    for b in base:
        a, m = traces[b["id"] + "@fd"], traces[b["id"] + "@mmap"]
        na, nm = [_norm_event(e) for e in a], [_norm_event(e) for e in m]
        if na != nm:
            diffs += 1
            k = next((i for i in range(min(len(na), len(nm))) if na[i] != nm[i]), min(len(na), len(nm)))
            div = {"ev": (na[k] if k < len(na) else {"ev": "end"}).get("ev"), "kind": "backend_mismatch", "index": k,
                   "mode": b["cfg"].get("mode")}
            v = {"first_unmatched": (na[k] if k < len(na) else {"ev": "end"}), "matched": k}
            ck.report(byid[b["id"] + "@fd"], a, v, div, [], extra={"fd": na[k] if k < len(na) else None,
                                                                 "mmap": nm[k] if k < len(nm) else None})
    rejected = [g for g in verd if not verd[g]["ok"]]
    ck.unattributed = len(rejected)
    coverage = {
        "states": mc["states"], "transitions": mc["transitions"],
        "traces_validated_against_impl": len(traces),
        "samples": [summarize_behaviour(b) for b in base[:3]],
        "evaluations": len(base), "distinct_nontrivial": len(set(op_signature(b) for b in base)),
        "rule": "each behaviour is executed once per backend (fd with io_uring, mmap) in separate processes; the two "
                "API traces (results, error kinds, entries, counts after every call) must be equal; both are also "
                "validated against WalrusAPI (rejections there belong to other properties unless the backends differ)",
        "backend_pairs": len(base), "pairs_that_differ": diffs, "contract_model": mc,
        "trace_tlc_states": stats["states_distinct"], "rejected_traces": len(rejected),
    }
    return ck.finish("model_checking", coverage, COMMON_ASSUMPTIONS + ["error texts are not compared, only ErrorKind"])
