"""C17, design stage: the marker persistence protocol (spec/MarkerStore.tla, a statement-by-statement
transcription of src/wal/runtime/topic_clean.rs + Walrus::drop / with_paths) is model-checked by TLC and
bound to the code by replaying TLC-generated behaviours through the real engine.

  verify   every interleaving of the client with the persister threads of up to three successive instances
           (update and snapshot as two steps each, so torn snapshots exist), switches at the values of the
           current code: C17 + design invariants, -coverage 1 (every action must fire);
  guards   MC_MarkerStore_defect_*.cfg: a deviation switch at a historical value (before 9b001f2, before
           547d40c, the variant of 547d40c) - TLC must find a C17 counterexample; MC_MarkerStore_torn_*.cfg:
           torn snapshots must exist and reach the marker file;
  emit     "prompt snapshot" scheduler (a persister takes its snapshot right after the notifying call; only
           WHEN a parked persister writes is free - what the harness controls through the gates
           tc_before_persist / tc_after_persist): one shortest behaviour per distinct state in which a freshly
           opened instance is at rest, with the model's prediction for every observation;
  replay   a stratified selection on the real engine (tiny geometry): every is_clean result, the decoded marker
           file after every shutdown flush and every persister write, the gate arrivals, and the state
           reported after a final shutdown + reopen are compared with the prediction - a difference is
           MODEL-DRIFT (never a violation); the recorded trace is validated, independently, against the
           contract WalrusAPI, which alone decides VIOLATION.  The counterexamples of the defect configurations
           (prompt scheduler) are replayed too: on the current engine they must satisfy the contract
           (regression for 9b001f2 / 547d40c / 1c297e0); they are kept in corpus/markerstore_c17.ndjson.
"""
import hashlib
import json
import os
import random
import re
import shutil

from . import common as C

MC = os.path.join(C.SPEC, "MC_MarkerStore.tla")
SPEC_FILES = [MC, os.path.join(C.SPEC, "MarkerStore.tla")]
CORPUS = os.path.join(C.VERIF, "corpus", "markerstore_c17.ndjson")
CURRENT = dict(fl=True, lr=False, gg=True, cl=True)          # the switches of the code as it is
DESIGN_INVARIANTS = "TypeOK C17Cex FileAfterDrop GenNotAhead ClosedMeansGone SingleWriter"
ACTIONS = ["Call", "CallEnd", "IsClean", "Drop", "Open", "PWake", "PDisc", "PUpgrade", "PLoadGen", "PLoadClean",
           "PPersist", "PLoop"]


def write_cfg(path, topics=("a",), inst=3, calls=4, fl=True, lr=False, gg=True, cl=True, prompt=False, keep=False,
              inv=DESIGN_INVARIANTS):
    b = lambda x: "TRUE" if x else "FALSE"   # noqa: E731
    lines = ["SPECIFICATION Spec", "CONSTANTS",
             "  Topics = {%s}" % ", ".join('"%s"' % t for t in topics),
             "  MaxInst = %d" % inst, "  MaxCalls = %d" % calls,
             "  FlushOnDrop = %s" % b(fl), "  FlushByLastRef = %s" % b(lr), "  GenGuard = %s" % b(gg),
             "  CloseOnFinalFlush = %s" % b(cl), "  Prompt = %s" % b(prompt), "  KeepHist = %s" % b(keep),
             "VIEW View", "INVARIANTS %s" % inv, "CHECK_DEADLOCK FALSE"]
    with open(path, "w") as f:
        f.write("\n".join(lines) + "\n")
    return path


# name -> (switches, what it is)
DEFECTS = {
    "noclose": (dict(cl=False), "before 9b001f2: the final flush does not close the store"),
    "noflush": (dict(fl=False, gg=False, cl=False), "before 547d40c: no flush on shutdown"),
    "lastref": (dict(lr=True, gg=False, cl=False), "547d40c (before 1c297e0): flush by whichever thread drops the last "
                                                    "tracker reference, no generation guard"),
}
TORN = {"torn_exists": "NoTorn", "torn_in_file": "NoTornInFile"}
TIERS = {
    # verify: (topics, calls) checked with every interleaving; emit: the same for the prompt scheduler
    "quick": {"verify": [(("a", "b"), 3), (("a",), 4)], "emit": [(("a", "b"), 3), (("a",), 5)], "replay": 320},
    "thorough": {"verify": [(("a", "b"), 4), (("a",), 6), (("a", "b"), 5)], "emit": [(("a", "b"), 5), (("a",), 6)],
                 "replay": 6000},
}
COMMITTED = {
    "MC_MarkerStore_quick.cfg": dict(topics=("a", "b"), calls=3),
    "MC_MarkerStore_thorough.cfg": dict(topics=("a", "b"), calls=4),
    "MC_MarkerStore_emit_quick.cfg": dict(topics=("a", "b"), calls=3, prompt=True, keep=True, inv=DESIGN_INVARIANTS + " Emit"),
    "MC_MarkerStore_emit_thorough.cfg": dict(topics=("a", "b"), calls=5, prompt=True, keep=True, inv=DESIGN_INVARIANTS + " Emit"),
    "MC_MarkerStore_noguard.cfg": dict(topics=("a",), calls=4, gg=False),
}
for _n, (_sw, _what) in DEFECTS.items():
    COMMITTED["MC_MarkerStore_defect_%s.cfg" % _n] = dict(keep=True, inv="TypeOK C17Cex", **_sw)
for _n, _inv in TORN.items():
    COMMITTED["MC_MarkerStore_%s.cfg" % _n] = dict(inv=_inv)


def write_committed_cfgs():
    for name, kw in COMMITTED.items():
        write_cfg(os.path.join(C.SPEC, name), **kw)


def check_committed_cfgs(workdir):
    for name, kw in COMMITTED.items():
        tmp = write_cfg(os.path.join(workdir, "cmp.cfg"), **kw)
        p = os.path.join(C.SPEC, name)
        if not os.path.exists(p) or open(p).read() != open(tmp).read():
            raise C.ToolError("%s differs from the generated configuration (python3 -m vlib.props_marker --write-cfgs)" % name)


def parse_printed(out, tag):
    res = []
    for m in re.finditer(r'<<"%s", "((?:[^"\\]|\\.)*)">>' % tag, out):
        res.append(json.loads(json.loads('"' + m.group(1) + '"')))
    return res


def violated(out):
    m = re.search(r"Invariant (\w+) is violated", out)
    if m:
        return m.group(1), len(re.findall(r"^State \d+:", out, re.M))
    return None, 0


def tlc_cached(workroot, name, cfgkw, coverage=False, workers=2, timeout=1500):
    """One TLC run, cached by spec + configuration (it does not depend on /repo)."""
    d = C.ensure_dir(os.path.join(workroot, name))
    cfg = write_cfg(os.path.join(d, "m.cfg"), **cfgkw)
    key = hashlib.sha256((C.hash_files(SPEC_FILES) + open(cfg).read() + json.dumps([coverage, workers == 1])).encode()).hexdigest()[:20]
    cache = os.path.join(C.ensure_dir(os.path.join(C.BUILD, "cache")), "marker_%s.json" % key)
    if os.path.exists(cache):
        with open(cache) as f:
            r = json.load(f)
        r["cached"] = True
        r["name"] = name
        return r
    rc, out, wall = C.tlc(MC, cfg, d, workers=workers, extra=(["-coverage", "1"] if coverage else []), timeout=timeout)
    gen, dist = C.tlc_stats(out)
    inv, length = violated(out)
    if dist == 0 or (inv is None and (rc != 0 or "Error:" in out)):
        raise C.ToolError("TLC (MC_MarkerStore, %s) failed:\n%s" % (name, out[-3000:]))
    depth = re.findall(r"depth of the complete state graph search is (\d+)", out)
    r = {"name": name, "states": dist, "transitions": gen, "wall_s": round(wall, 1), "violated": inv, "cex_len": length,
         "depth": int(depth[-1]) if depth else 0,
         "coverage": {a: list(v) for a, v in C.tlc_coverage(out).items()},
         "emitted": parse_printed(out, "BEH"), "cex": parse_printed(out, "CEX"), "cached": False}
    tmp = cache + ".%d.tmp" % os.getpid()
    with open(tmp, "w") as f:
        json.dump(r, f)
    os.replace(tmp, cache)
    shutil.rmtree(d, ignore_errors=True)
    return r


# ------------------------------------------------------------------------------------------------
# model behaviour -> driver behaviour + expected observations

def _map(m):
    """A model map {topic: {g, c}} (TLC prints the empty one as []) as {topic: [g, c]}."""
    if not isinstance(m, dict):
        return {}
    return {t: [r["g"], r["c"]] for t, r in m.items()}


def translate(s, bid, backend="fd", topics=("a", "b"), compare_file=True, tail=True):
    """s: a printed Summary (h = history, want, ...).  Returns (behaviour for `engine-driver run`, expected
    observations in trace order)."""
    ops = [{"op": "hold_persister", "all": True}]
    exp = []
    n, ticket, nid = 0, {}, 0

    def probe(rep):
        for t in topics:
            ops.append({"op": "is_clean", "t": t})
            exp.append(("is_clean", t, rep.get(t, True)))

    def mfile(m):
        if compare_file:
            ops.append({"op": "marker_file"})
            exp.append(("file", _map(m)))

    for e in s["h"]:
        k = e[0]
        if k == "append":
            nid += 1
            ops.append({"op": "append", "t": e[1], "id": nid, "size": 8 + 4 * (nid % 3)})
            probe(e[3])
        elif k == "mark":
            ops.append({"op": "mark", "t": e[1], "v": e[2]})
            probe(e[3])
        elif k == "is_clean":
            ops.append({"op": "is_clean", "t": e[1]})
            exp.append(("is_clean", e[1], e[2]))
        elif k == "arrive":
            n += 1
            ticket[e[1]] = n - 1
            ops.append({"op": "await_persister", "n": n, "ms": 3000})
            exp.append(("parked", n))
        elif k == "persist":
            ops.append({"op": "release_persister", "ticket": ticket[e[1]], "ms": 3000})
            exp.append(("released", ticket[e[1]]))
            mfile(e[2])
        elif k == "drop":
            ops.append({"op": "close"})
            mfile(e[1])
        elif k == "open":
            ops.append({"op": "reopen", "i": 0, "proc": "same"})
            probe(e[1])
        elif k in ("exit", "lateflush"):
            pass
        else:
            raise C.ToolError("MarkerStore history: unknown event %s" % e)
    ops.append({"op": "gate_stats"})
    exp.append(("arrived", n))
    if tail:
        # shutdown, every parked persister runs, reopen: by the verified invariants FileAfterDrop / C17 the
        # successor reports `want` whatever the late persisters do
        ops.append({"op": "close"})
        ops.append({"op": "release_persister", "ms": 30})
        ops.append({"op": "reopen", "i": 0, "proc": "same"})
        probe(s["want"])
    else:
        ops.append({"op": "release_persister", "ms": 30})
    beh = {"id": bid, "cfg": {"backend": backend, "mode": "strict", "pe": 1, "topics": list(topics), "proj": False},
           "ops": ops}
    return beh, exp


def compare(exp, events):
    """Expected observations against the recorded events: (drift descriptions, kind of the first difference:
    None | "is_clean" | "file" | "gate" | "incomplete")."""
    if any(e.get("ev") in ("hang", "died") for e in events):
        return ["engine run did not complete"], "incomplete"
    obs = []
    for e in events:
        ev = e.get("ev")
        if ev == "is_clean":
            obs.append(("is_clean", e["t"], e["v"]))
        elif ev == "note":
            w = e.get("what")
            if w == "marker_file":
                obs.append(("file", {t: list(v) for t, v in e.get("m", {}).items()}))
            elif w == "persister_parked":
                obs.append(("parked", e.get("n") if e.get("ok") and e.get("arrived") == e.get("n") else ("timeout", e.get("arrived"))))
            elif w == "persister_released":
                obs.append(("released", e.get("ticket") if e.get("ok") else ("timeout", e.get("ticket"))))
            elif w == "gate_stats":
                obs.append(("arrived", e.get("arrived")))
    drift, kind = [], None
    for i, x in enumerate(exp):
        if i >= len(obs):
            drift.append("observation %d (%s) missing" % (i, x[0]))
            kind = "incomplete"
            break
        if json.dumps(obs[i], sort_keys=True) != json.dumps(x, sort_keys=True):
            kind = "gate" if x[0] in ("parked", "released", "arrived") else x[0]
            drift.append("observation %d: model %s, engine %s" % (i, json.dumps(x), json.dumps(obs[i])))
            break
    if not drift and len(obs) != len(exp):
        drift.append("engine produced %d observations, model %d" % (len(obs), len(exp)))
        kind = "incomplete"
    return drift, kind


def shape(s):
    h = s["h"]
    kinds = [e[0] for e in h]
    late = 0          # persister writes of an instance that was already shut down
    dropped = 0
    for e in h:
        if e[0] == "drop":
            dropped += 1
        elif e[0] == "persist" and e[1] <= dropped:
            late += 1
    return (s["cur"], len(s.get("parked", [])), min(late, 3), min(kinds.count("persist"), 4), len(s["want"]))


def select(emitted, budget, rng):
    strata = {}
    for s in emitted:
        strata.setdefault(shape(s), []).append(s)
    for v in strata.values():
        rng.shuffle(v)
    keys = sorted(strata, key=lambda k: (-k[2], -k[3], -k[0], k))
    chosen = []
    while len(chosen) < budget:
        progress = False
        for k in keys:
            if len(chosen) >= budget:
                break
            if strata[k]:
                chosen.append(strata[k].pop())
                progress = True
        if not progress:
            break
    return chosen, len(strata)


# ------------------------------------------------------------------------------------------------
# TLC part

def prepare(tier):
    tname = "thorough" if tier == "thorough" else "quick"
    t = TIERS[tname]
    root = C.ensure_dir(os.path.join(C.BUILD, "runs", "marker-%d" % os.getpid()))
    check_committed_cfgs(root)
    tasks = []
    for i, (topics, calls) in enumerate(t["verify"]):
        tasks.append(("v%d" % i, dict(topics=topics, calls=calls, **CURRENT), True, 2))
    for i, (topics, calls) in enumerate(t["emit"]):
        tasks.append(("e%d" % i, dict(topics=topics, calls=calls, prompt=True, keep=True, inv=DESIGN_INVARIANTS + " Emit", **CURRENT), False, 1))
    for name, (sw, _what) in DEFECTS.items():
        # one worker: breadth-first search returns a shortest counterexample
        tasks.append(("d_" + name, dict(COMMITTED["MC_MarkerStore_defect_%s.cfg" % name]), False, 1))
        tasks.append(("dp_" + name, dict(COMMITTED["MC_MarkerStore_defect_%s.cfg" % name], prompt=True), False, 1))
    for name in TORN:
        tasks.append(("t_" + name, dict(COMMITTED["MC_MarkerStore_%s.cfg" % name]), False, 1))
    tasks.append(("noguard", dict(COMMITTED["MC_MarkerStore_noguard.cfg"]), False, 1))
    # at most 6 TLC workers at a time (two verification runs with 2 workers each + single-worker runs)
    results = C.parallel_map(lambda x: tlc_cached(root, x[0], x[1], coverage=x[2], workers=x[3]), tasks,
                             workers=4 if len(t["verify"]) <= 2 else 3)
    by = {x[0]: r for x, r in zip(tasks, results)}
    shutil.rmtree(root, ignore_errors=True)

    # 1. the current protocol: nothing violated, every action fires
    verify = []
    for i, (topics, calls) in enumerate(t["verify"]):
        r = by["v%d" % i]
        if r["violated"]:
            raise C.ToolError("MarkerStore (%s topics, %d calls): %s violated with the switches of the current code - a model "
                              "error or a defect of the protocol: run TLC on spec/MC_MarkerStore_%s.cfg" % (len(topics), calls, r["violated"], tname))
        never = [a for a in ACTIONS if r["coverage"].get(a, [0, 0])[1] == 0]
        if never:
            raise C.ToolError("MarkerStore: actions never taken (vacuous): %s" % ", ".join(never))
        verify.append({"topics": len(topics), "calls": calls, "instances": 3, "states": r["states"], "transitions": r["transitions"],
                       "depth": r["depth"], "wall_s": r["wall_s"]})
    # 2. vacuity guards
    guards, cex = {}, {}
    for name, (sw, what) in DEFECTS.items():
        r, rp = by["d_" + name], by["dp_" + name]
        for x in (r, rp):
            if x["violated"] != "C17Cex" or not x["cex"]:
                raise C.ToolError("MarkerStore: deviation '%s' must make TLC report C17 violated, got %s (vacuity guard)" % (name, x["violated"]))
        guards[name] = {"what": what, "switches": {k: v for k, v in sw.items()}, "violated": "C17",
                        "counterexample_states": r["cex_len"], "counterexample_states_prompt_scheduler": rp["cex_len"],
                        "counterexample": [e[:3] if e[0] in ("append", "mark") else e[:2] for e in r["cex"][0]["h"]]}
        cex[name] = rp["cex"][0]
    torn = {}
    for name, inv in TORN.items():
        r = by["t_" + name]
        if r["violated"] != inv:
            raise C.ToolError("MarkerStore: %s must be violated (torn snapshots exist / reach the file), got %s" % (inv, r["violated"]))
        torn[name] = {"violated": inv, "counterexample_states": r["cex_len"]}
    ng = by["noguard"]
    # 3. emission
    emitted, emit_states = [], 0
    for i, (topics, calls) in enumerate(t["emit"]):
        r = by["e%d" % i]
        if r["violated"]:
            raise C.ToolError("MarkerStore (emission %d): %s violated" % (i, r["violated"]))
        emit_states += r["states"]
        for s in r["emitted"]:
            s = dict(s)
            s["topics"] = list(topics)
            emitted.append(s)
    if not emitted:
        raise C.ToolError("MarkerStore: no behaviour emitted")
    rng = random.Random("c17-marker/%d" % C.seed())
    chosen, nstrata = select(emitted, t["replay"], rng)
    cov = {"marker_design_verify": verify,
           "marker_design_states": sum(v["states"] for v in verify), "marker_design_transitions": sum(v["transitions"] for v in verify),
           "marker_design_emission_states": emit_states,
           "marker_design_tlc_wall_s": {r["name"]: r["wall_s"] for r in results},
           "marker_design_tlc_cached": all(r.get("cached") for r in results),
           "marker_design_actions_fired": {a: by["v0"]["coverage"].get(a, [0, 0])[1] for a in ACTIONS},
           "marker_design_defect_configs": guards, "marker_design_torn_snapshots": dict(torn, harmless_in_current_protocol=True),
           "marker_design_without_generation_guard": {"states": ng["states"], "violated": ng["violated"]},
           "marker_behaviours_emitted": len(emitted), "marker_behaviour_strata": nstrata}
    return {"chosen": chosen, "cex": cex, "coverage": cov}


def corpus_entries(cex):
    out = []
    for name in sorted(cex):
        beh, _exp = translate(cex[name], "ms_defect_%s" % name, compare_file=False, topics=("a",))
        beh["cfg"]["topics"] = ["a", "b"]
        out.append(dict(beh, props=["C17"], origin="TLC counterexample of spec/MC_MarkerStore_defect_%s.cfg under the prompt-snapshot "
                                                   "scheduler (%s); the current engine must satisfy the contract on it" % (name, DEFECTS[name][1])))
    return out


def check_corpus(cex):
    want = [json.dumps(b, sort_keys=True) for b in corpus_entries(cex)]
    have = []
    if os.path.exists(CORPUS):
        with open(CORPUS) as f:
            have = [json.dumps(json.loads(l), sort_keys=True) for l in f if l.strip() and not l.startswith("#")]
    if want != have:
        raise C.ToolError("corpus/markerstore_c17.ndjson is not what the defect configurations produce "
                          "(python3 -m vlib.props_marker --write-corpus)")


# ------------------------------------------------------------------------------------------------
# the stage (called from props_engine2.c17 with its EngineCheck)

def stage(ck, coverage):
    prep = prepare(ck.tier)
    check_corpus(prep["cex"])
    behs, model = [], {}
    for i, s in enumerate(prep["chosen"]):
        bid = "ms%d" % i
        beh, exp = translate(s, bid, backend="fd" if i % 2 == 0 else "mmap", topics=tuple(s["topics"]))
        behs.append(beh)
        model[bid] = (s, exp, beh)
    # defect counterexamples: contract only (their predictions are those of the deviating protocol), and the
    # engine must NOT show the deviating model's final observation
    dbehs = {}
    for name, s in prep["cex"].items():
        beh, exp = translate(s, "msd_%s" % name, topics=("a",), tail=False, compare_file=False)
        dbehs[beh["id"]] = (name, s, exp, beh)
    traces, verd, stats = ck.run_and_validate(behs + [x[3] for x in dbehs.values()], "tiny", chunk=20, drop=("reclaim",))

    def drift_of(bid):
        s, exp, beh = model[bid]
        return compare(exp, traces[bid])
    drifts = {bid: drift_of(bid) for bid in model}
    # gate timeouts (a loaded machine): run those once more, alone
    again = [bid for bid, (d, kind) in drifts.items() if d and kind in ("gate", "incomplete")]
    retried = len(again)
    if again:
        tr2, verd2, _ = ck.run_and_validate([model[b][2] for b in again[:40]], "tiny", chunk=1, drop=("reclaim",))
        for b in again[:40]:
            traces[b], verd[b] = tr2[b], verd2[b]
            drifts[b] = compare(model[b][1], tr2[b])
    lines, ndrift, kinds, samples = [], 0, {}, []
    nobs = 0
    for bid, (s, exp, beh) in model.items():
        d, kind = drifts[bid]
        nobs += len(exp)
        if d:
            ndrift += 1
            kinds[kind] = kinds.get(kind, 0) + 1
            if len(lines) < 10:
                lines.append("MODEL-DRIFT: property=C17 MarkerStore %s (history %s): %s%s" % (
                    bid, json.dumps([e[:3] for e in s["h"]]), d[0],
                    "" if verd[bid]["ok"] else " [trace also rejected by the contract]"))
        elif len(samples) < 2 and len(s["h"]) >= 8:
            samples.append({"history": [e[:3] if e[0] in ("append", "mark") else e[:2] for e in s["h"]], "predicted_final": s["want"],
                            "predicted_file": _map(s["file"])})
    # contract verdicts (the only source of violations)
    for bid in list(model) + list(dbehs):
        if not verd[bid]["ok"]:
            beh = model[bid][2] if bid in model else dbehs[bid][3]
            div, states = ck.diagnose(beh, traces[bid], verd[bid])
            div["stage"] = "MarkerStore"
            ck.report(beh, traces[bid], verd[bid], div, states)
    # the defect counterexamples on the current engine: the deviating model's last prediction must not come true
    defect_replay = {}
    for bid, (name, s, exp, beh) in dbehs.items():
        d, kind = compare(exp, traces[bid])
        defect_replay[name] = {"contract_ok": verd[bid]["ok"], "engine_deviates_from_defect_model": kind == "is_clean"}
        if not d:
            ck.notes.append("MarkerStore: the engine behaves like the deviating model '%s' on its counterexample" % name)
    # self-test of the comparison: a wrong prediction must be noticed
    probe = next((bid for bid in model if not drifts[bid][0]), None)
    if probe is not None:
        s, exp, beh = model[probe]
        k = next(i for i, x in enumerate(exp) if x[0] == "is_clean")
        bad = list(exp)
        bad[k] = ("is_clean", exp[k][1], not exp[k][2])
        if not compare(bad, traces[probe])[0]:
            raise C.ToolError("MarkerStore stage self-test: a wrong prediction was not noticed by the comparison")
    if len(model) and ndrift > len(model) // 2:
        ck.notes.append("MarkerStore: more than half of the replayed behaviours drift - the model needs an update")
    for l in lines:
        print(l)
    cov = dict(prep["coverage"])
    late = sum(1 for (s, _e, _b) in model.values() if shape(s)[2] > 0)
    cov.update({"marker_behaviours_replayed": len(model), "marker_behaviours_with_late_persister_write": late,
                "marker_observations_compared": nobs, "marker_model_drift": ndrift, "marker_model_drift_kinds": kinds,
                "marker_gate_retries": retried, "marker_defect_counterexamples_replayed": defect_replay,
                "marker_samples": samples})
    coverage = dict(coverage)
    coverage["contract_states"] = coverage.get("states", 0)
    coverage["states"] = coverage.get("states", 0) + cov["marker_design_states"]
    coverage["transitions"] = coverage.get("transitions", 0) + cov["marker_design_transitions"]
    coverage["random_traces"] = coverage.get("traces_validated_against_impl", 0)
    coverage["traces_validated_against_impl"] = coverage.get("traces_validated_against_impl", 0) + len(model) + len(dbehs)
    coverage["evaluations"] = coverage.get("evaluations", 0) + len(model) + len(dbehs)
    coverage["distinct_nontrivial"] = coverage.get("distinct_nontrivial", 0) + len(set(json.dumps(s["h"]) for s, _e, _b in model.values()))
    coverage.update(cov)
    coverage["rule"] = coverage.get("rule", "") + (
        " PLUS the design model MarkerStore (topic_clean.rs transcribed: two atomics per topic with two-step update and two-step "
        "snapshot, store map + closed flag + marker file, one persister thread per instance that may outlive it, Walrus::drop's "
        "final flush, open = load + hydrate; up to 3 successive instances) checked by TLC over every interleaving for C17 and the "
        "design invariants; the historical deviations (no close, no flush, flush by last reference) must each yield a C17 "
        "counterexample; TLC emits one shortest behaviour per distinct at-rest state under the prompt-snapshot scheduler; a "
        "stratified selection is replayed on the real engine through the persister gates (tickets), every is_clean result, the "
        "decoded marker file after every flush and persister write, the gate arrivals and the state after a final shutdown+reopen "
        "are compared with the model (MODEL-DRIFT, never a violation) and the trace is validated against the contract.")
    return coverage


if __name__ == "__main__":
    import sys
    if "--write-cfgs" in sys.argv:
        write_committed_cfgs()
        print("written: " + " ".join(sorted(COMMITTED)))
    if "--write-corpus" in sys.argv:
        root = C.ensure_dir(os.path.join(C.BUILD, "runs", "marker-corpus-%d" % os.getpid()))
        cex = {}
        for name in DEFECTS:
            r = tlc_cached(root, "dp_" + name, dict(COMMITTED["MC_MarkerStore_defect_%s.cfg" % name], prompt=True), workers=1)
            cex[name] = r["cex"][0]
        with open(CORPUS, "w") as f:
            for b in corpus_entries(cex):
                f.write(json.dumps(b, sort_keys=True) + "\n")
        shutil.rmtree(root, ignore_errors=True)
        print("written: %s" % CORPUS)
