"""Checks for the distributed-layer properties whose code is pure enough to bind directly:
C25 (wal key codec), C18 (metadata state machine), C20 state-machine half (snapshot/restore),
C24 (client framing). Specs: WalKey, Metadata, ClientProto (+ MC_*/Trace_*); the real code is the
unmodified metadata.rs / controller/types.rs / controller/internal.rs / client.rs / rpc.rs compiled
into /verif/harness/dwpure against shim crates (DESIGN.md 4.4).

Pattern of every check: build harness -> TLC model checking (states, transitions, coverage; an
action that never fires is a tool error) -> TLC emits the enumerated cases with the values the
spec expects -> the harness evaluates the REAL code on each case and compares -> seeded random
cases -> evidence. Only the contract (the property as stated) raises VIOLATION."""
import json
import os
import random
import re
import shutil
import time

from . import common as C

CRATE = os.path.join(C.VERIF, "harness", "dwpure")
TARGET = os.path.join(C.BUILD, "target-dwpure")
CACHE = os.path.join(C.BUILD, "cache")
MAX_VIOL_LINES = 20


# ------------------------------------------------------------------------------------------------
# plumbing

def dw_src():
    return os.environ.get("DW_SRC", os.path.join(C.REPO, "distributed-walrus", "src"))


def build_dwpure():
    """Builds the dwpure harness from the current working tree of /repo (cargo is incremental)."""
    with C.FileLock(os.path.join(C.BUILD, "cargo-dwpure.lock")):
        t0 = time.time()
        rc, out = C.sh(["cargo", "build", "--offline", "--quiet"], cwd=CRATE,
                       env={"CARGO_TARGET_DIR": TARGET, "CARGO_NET_OFFLINE": "true", "DW_SRC": dw_src(),
                            "RUSTFLAGS": os.environ.get("DWPURE_RUSTFLAGS", "")},
                       timeout=1800)
        if rc != 0:
            raise C.ToolError("dwpure build failed:\n" + out[-6000:])
        C.log("[build] dwpure ok (%.0fs, DW_SRC=%s)" % (time.time() - t0, dw_src()))
    binp = os.path.join(TARGET, "debug", "dwpure")
    rc, out = C.sh([binp, "info"], timeout=60)
    if rc != 0:
        raise C.ToolError("dwpure info failed:\n" + out[-2000:])
    try:
        info = json.loads(out.strip().splitlines()[-1])
    except Exception:
        raise C.ToolError("dwpure info unparsable: " + out[-500:])
    return binp, info


def rundir(tag):
    d = os.path.join(C.BUILD, "runs", "%s-%d" % (tag, os.getpid()))
    shutil.rmtree(d, ignore_errors=True)
    return C.ensure_dir(d)


def run_harness(binp, sub, cases, d, extra=None, timeout=3600):
    """cases -> results (same order; the walkey subcommand appends a summary line)."""
    inp = os.path.join(d, sub + "_in.ndjson")
    outp = os.path.join(d, sub + "_out.ndjson")
    with open(inp, "w") as f:
        for c in cases:
            f.write(json.dumps(c) + "\n")
    rc, out = C.sh([binp, sub, "--in", inp, "--out", outp] + (extra or []), timeout=timeout)
    if rc != 0:
        raise C.ToolError("dwpure %s failed (rc=%d): %s" % (sub, rc, out[-3000:]))
    res = []
    with open(outp) as f:
        for line in f:
            line = line.strip()
            if line:
                res.append(json.loads(line))
    return res


def run_tlc(spec, cfg, workdir, env=None, **kw):
    """C.tlc with the JVM's temp directory under the (scratch) work directory: TLC unpacks its standard
    modules into java.io.tmpdir and leaves them there; nothing of ours may stay under /tmp."""
    tmp = C.ensure_dir(os.path.join(workdir, "jtmp"))
    e = {"JAVA_TOOL_OPTIONS": "-Djava.io.tmpdir=" + tmp}
    if env:
        e.update(env)
    try:
        return C.tlc(spec, cfg, workdir, env=e, **kw)
    finally:
        shutil.rmtree(tmp, ignore_errors=True)


_CASE_RE = re.compile(r'^<<"(\w+)", "(.*)">>$')


def tlc_printed(out, tag):
    """JSON objects printed by an always-true invariant as <<"TAG", ToJson(..)>>."""
    res = []
    for line in out.splitlines():
        if not line.startswith('<<"' + tag + '"'):
            continue
        m = _CASE_RE.match(line.strip())
        if not m or m.group(1) != tag:
            continue
        s = m.group(2).replace('\\"', '"').replace("\\\\", "\\")
        res.append(json.loads(s))
    return res


def tlc_failed(rc, out):
    return rc != 0 or "Error:" in out or "Model checking completed. No error has been found." not in out


def model_check(name, tier, workers=8, timeout=1500, cfg=None, deps=(), tag="CASE", need_actions=(),
                allow_zero=()):
    """Runs TLC on spec/MC_<name>.tla with MC_<name>_<tier>.cfg. Result (cached by the hash of the
    spec files: it does not depend on /repo): stats, coverage and the printed cases."""
    spec = os.path.join(C.SPEC, "MC_%s.tla" % name)
    cfg = cfg or os.path.join(C.SPEC, "MC_%s_%s.cfg" % (name, "thorough" if tier == "thorough" else "quick"))
    files = [spec, cfg, os.path.join(C.SPEC, name + ".tla")] + [os.path.join(C.SPEC, x) for x in deps]
    key = C.hash_files(files)
    C.ensure_dir(CACHE)
    meta_p = os.path.join(CACHE, "pure_%s_%s.json" % (name, key))
    cases_p = os.path.join(CACHE, "pure_%s_%s.ndjson" % (name, key))

    def load():
        with open(meta_p) as f:
            meta = json.load(f)
        with open(cases_p) as f:
            cases = [json.loads(x) for x in f if x.strip()]
        meta["cached"] = True
        return meta, cases

    if os.path.exists(meta_p) and os.path.exists(cases_p) and not os.environ.get("VERIF_NO_CACHE"):
        return load()
    with C.FileLock(os.path.join(C.BUILD, "tlc-pure-%s.lock" % name)):
        if os.path.exists(meta_p) and os.path.exists(cases_p) and not os.environ.get("VERIF_NO_CACHE"):
            return load()
        wd = os.path.join(C.BUILD, "runs", "mc_%s_%d" % (name, os.getpid()))
        rc, out, wall = run_tlc(spec, cfg, wd, workers=workers, extra=["-coverage", "1"], timeout=timeout)
        shutil.rmtree(wd, ignore_errors=True)
        gen, dist = C.tlc_stats(out)
        cov = C.tlc_coverage(out)
        if tlc_failed(rc, out) or dist == 0:
            keep = [x for x in out.splitlines() if not x.startswith('<<"')]
            raise C.ToolError("TLC on MC_%s (%s) failed (rc=%d):\n%s" % (name, os.path.basename(cfg), rc, "\n".join(keep[-60:])))
        for a in need_actions:
            if a not in cov:
                raise C.ToolError("MC_%s: no coverage record for action %s" % (name, a))
        for a, (d, t) in cov.items():
            if a in need_actions and a not in allow_zero and t == 0:
                raise C.ToolError("MC_%s: action %s never fired (vacuous)" % (name, a))
        cases = tlc_printed(out, tag)
        meta = {"states": dist, "transitions": gen, "wall_s": round(wall, 1), "cfg": os.path.basename(cfg),
                "coverage": {a: list(v) for a, v in cov.items()}, "cached": False}
        tmp = cases_p + ".tmp"
        with open(tmp, "w") as f:
            for c in cases:
                f.write(json.dumps(c) + "\n")
        os.replace(tmp, cases_p)
        with open(meta_p, "w") as f:
            json.dump(meta, f)
        return meta, cases


class Verdicts:
    """Collects violations / known findings / drift for one property run."""

    def __init__(self, pid, tier, evidence_id=None):
        self.pid, self.tier = pid, tier
        self.evidence_id = evidence_id or pid     # file name under /verif/evidence
        self.t0 = time.time()
        self.findings = C.load_findings()
        self.known = {}
        self.violations = []
        self.drift = []

    def report(self, name, div, replay):
        f = C.match_finding(self.findings, self.pid, div)
        if f is not None:
            k = self.known.setdefault(f["id"], {"finding": f, "count": 0})
            k["count"] += 1
            return "known"
        if len(self.violations) < 200:
            safe = re.sub(r"[^A-Za-z0-9_.-]", "_", name)[:80]
            path = C.save_replay(self.pid, "%s_%s" % (self.pid, safe), dict(replay, property=self.pid, divergence=div))
            self.violations.append((path, div))
        else:
            self.violations.append((None, div))
        return "violation"

    def finish(self, level, coverage, assumptions):
        for fid, rec in sorted(self.known.items()):
            print("KNOWN-FINDING: property=%s %s [%s, seen %d time(s)]" % (self.pid, rec["finding"]["what_fails"], fid, rec["count"]))
        for msg in self.drift[:10]:
            print("MODEL-DRIFT: property=%s %s" % (self.pid, msg))
        shown = 0
        for path, div in self.violations:
            if path is None or shown >= MAX_VIOL_LINES:
                continue
            shown += 1
            print("VIOLATION property=%s replay=%s" % (self.pid, path))
            C.log("  divergence: %s" % json.dumps(div)[:600])
        coverage = dict(coverage)
        coverage["known_findings_seen"] = {k: v["count"] for k, v in self.known.items()}
        coverage["drift"] = len(self.drift)
        C.write_evidence(self.evidence_id, self.tier, level, coverage, time.time() - self.t0, assumptions=assumptions,
                         violations=len(self.violations), extra={"property_id": self.pid})
        return C.EXIT_VIOLATION if self.violations else C.EXIT_OK


SHIM_ASSUMPTIONS = [
    "the repository files are compiled unmodified via #[path] against local shim crates (bincode layout shim, "
    "octopii::StateMachineTrait copy, deterministic tokio shim); the shims are not the real crates",
    "TLC's verdict is about the specs as written in /verif/spec; the binding replays every case TLC enumerated "
    "on the real functions and compares the values",
]


# ------------------------------------------------------------------------------------------------
# C25

_WK_FRAGS = ["_s_", "t_", "_s", "s_", "_", "t", "s", "x", "0", "1", "9", "42", "18446744073709551615", "_s_0",
             "_s_18446744073709551616", "t__s_", "t_t_", " ", "\t", "\n", "+", "-", "+1", "é", "日本",
             "\U0001d11e", "\u0000", "_S_", "T_", "١", "＿", "%", "/", "..", "\"", "\\"]
_WK_SEGS = [0, 1, 9, 10, 11, 99, 100, 2**31 - 1, 2**31, 2**32 - 1, 2**32, 2**53, 2**63 - 1, 2**63, 2**64 - 2, 2**64 - 1,
            10**19, 9999999999999999999]


def walkey_random_cases(n, rng):
    cases = []

    def add(topic, seg, why):
        cases.append({"id": "r%d" % len(cases), "topic": topic, "seg": seg, "src": why})

    # fixed edge cases first
    for t in ["", "_s_", "t_", "_s_1", "a_s_1", "t_a_s_1", "_s", "s_", "_", "t__s_0", "a_s_1_s_2", "_s__s_", "1", "0_s_0"]:
        for s in (0, 1, 2**64 - 1):
            add(t, s, "edge")
    while len(cases) < n:
        mode = rng.random()
        if mode < 0.55:
            k = rng.choice([1, 2, 3, 5, 8, 20, 60]) if rng.random() < 0.97 else 3000
            topic = "".join(rng.choice(_WK_FRAGS) for _ in range(rng.randint(0, k)))
            seg = rng.choice(_WK_SEGS) if rng.random() < 0.6 else rng.getrandbits(rng.choice([8, 16, 32, 63, 64]))
            add(topic, seg, "frag")
        elif mode < 0.85:
            # confusable families: (b, s1) / (b + "_s_" + str(s1), s2) / ("t_" + b, s) / (b + "_s", s) ...
            b = "".join(rng.choice(_WK_FRAGS[:12]) for _ in range(rng.randint(0, 4)))
            s1 = rng.choice(_WK_SEGS)
            s2 = rng.choice(_WK_SEGS)
            for t, s in [(b, s1), (b, s2), ("%s_s_%d" % (b, s1), s2), ("t_" + b, s1), (b + "_s", s1), (b + "_", s1),
                         (b + "_s_", s1), ("%s_s_%d_s" % (b, s1), s2), (b + "_s_" + str(s1)[:-1], int(str(s1)[-1:] or "0"))]:
                add(t, s, "family")
        else:
            topic = "".join(chr(rng.choice([rng.randint(0x20, 0x7e), rng.randint(0xa0, 0x2fff), rng.randint(0x10000, 0x1ffff)]))
                            for _ in range(rng.randint(0, 40)))
            add(topic, rng.getrandbits(64), "unicode")
    return cases


def walkey_nontrivial(topic):
    return topic == "" or "_s_" in topic or topic.startswith("t_") or any(ch.isdigit() for ch in topic) or "_s" in topic


def walkey_cases_from_tlc(printed):
    cases = []
    for i, c in enumerate(printed):
        parsed = None
        if c["parsed"]:
            parsed = ["".join(c["parsed"][0]), c["pseg"]]
        cases.append({"id": "m%d" % i, "topic": "".join(c["topic"]), "seg": c["seg"], "key": "".join(c["key"]),
                      "parsed": parsed, "src": "tlc"})
    return cases


def walkey_judge(cases, results):
    """-> (violations [(case, result, div)], drift [str], summary)"""
    summary = results[-1] if results and results[-1].get("summary") else None
    if summary is None or len(results) - 1 != len(cases):
        raise C.ToolError("dwpure walkey: %d results for %d cases" % (len(results) - 1, len(cases)))
    viol, drift = [], []
    for c, r in zip(cases, results[:-1]):
        if r.get("id") != c["id"]:
            raise C.ToolError("dwpure walkey: result order mismatch at %s" % c["id"])
        if r["ok"]:
            continue
        if r.get("kind") == "spec_mismatch":
            drift.append("wal_key/parse_wal_key differ from the spec WalKey on %r: %s" % ((c["topic"], c["seg"]), r["why"][0]))
            continue
        div = {"kind": r.get("kind", "round_trip"), "src": c.get("src"), "topic_has_sep": "_s_" in c["topic"],
               "topic_empty": c["topic"] == ""}
        viol.append((c, r, div))
    return viol, drift, summary


def c25(tier):
    v = Verdicts("C25", tier)
    if tier == "thorough":
        selftest()
    binp, info = build_dwpure()
    d = rundir("c25")
    mc, printed = model_check("WalKey", tier, need_actions=("Init", "Encode", "Decode"))
    cases = walkey_cases_from_tlc(printed)
    n_spec = len(cases)
    if n_spec == 0:
        raise C.ToolError("MC_WalKey printed no cases")
    corp = corpus_cases("C25", tier)
    rng = random.Random(C.seed() * 7919 + 25)
    rnd = walkey_random_cases(60000 if tier == "thorough" else 6000, rng)
    cases += corp + rnd
    results = run_harness(binp, "walkey", cases, d)
    viol, drift, summary = walkey_judge(cases, results)
    v.drift += drift
    for c, r, div in viol:
        v.report(c["id"], div, {"case": c, "result": r, "how": "dwpure walkey on this one case line"})
    pairs = set((c["topic"], c["seg"]) for c in cases)
    if summary["distinct_pairs"] != len(pairs):
        raise C.ToolError("dwpure walkey counted %d distinct pairs, runner %d" % (summary["distinct_pairs"], len(pairs)))
    if summary["distinct_keys"] != summary["distinct_pairs"] and not viol:
        raise C.ToolError("distinct keys %d != distinct pairs %d but no collision was reported" % (summary["distinct_keys"], summary["distinct_pairs"]))
    cov = {
        "states": mc["states"], "transitions": mc["transitions"], "tlc_wall_s": mc["wall_s"], "tlc_cfg": mc["cfg"],
        "tlc_cached": mc["cached"], "tlc_coverage": {a: mc["coverage"][a] for a in ("Init", "Encode", "Decode")},
        "traces_validated_against_impl": n_spec,
        "random_cases": len(rnd), "corpus_cases": len(corp),
        "evaluations": len(cases),
        "distinct_pairs": summary["distinct_pairs"], "distinct_keys": summary["distinct_keys"],
        "distinct_nontrivial": len(set(p for p in pairs if walkey_nontrivial(p[0]))),
        "samples": [cases[0], cases[n_spec // 2], rnd[0], rnd[len(rnd) // 2]],
        "rule": "TLC: Parse(Key(t,n)) = <<t,n>> for every enumerated pair and Cardinality(keys) = Cardinality(pairs); "
                "every enumerated (topic, seg, key, parsed) tuple is compared with the real wal_key/parse_wal_key and with "
                "the (topic, segment) the real forward_append hands to the rollover check; random topics and u64 extremes "
                "are checked for round trip and for pairwise distinct keys over the whole run",
        "harness": info,
    }
    shutil.rmtree(d, ignore_errors=True)
    return v.finish("model_checking", cov, SHIM_ASSUMPTIONS + [
        "segment numbers in the TLC model are naturals whose decimal rendering uses the digits 0/1; the u64 range and "
        "other digits are covered by the random cases only"])


# ------------------------------------------------------------------------------------------------
# C18 / C20 (state-machine half)

META_ACTIONS = ("CreateNew", "CreateExists", "RollKnown", "RollOverflow", "RollUnknown", "UpsertNew", "UpsertAgain", "Undecodable")
U64 = 2**64 - 1


def cfg_constant(cfg_path, name):
    with open(cfg_path) as f:
        m = re.search(r"^\s*%s\s*=\s*(\d+)\s*$" % re.escape(name), f.read(), re.M)
    if not m:
        raise C.ToolError("constant %s not found in %s" % (name, cfg_path))
    return int(m.group(1))


def count_unit(max_u64):
    """Counts/offsets of a spec with u64 bound `max_u64` are instantiated as multiples of this unit:
    sum * unit <= u64::MAX  <=>  sum <= max_u64, so the real checked_add fails exactly when the
    spec's Overflows holds."""
    unit = U64 // max_u64
    assert max_u64 * unit <= U64 < (max_u64 + 1) * unit
    return unit


def _scale_topic(t, f):
    return [t[0], t[1], t[2], f(t[3]), [[g, f(c)] for g, c in t[4]], t[5]]


def _scale_state(st, f):
    return {"T": [_scale_topic(t, f) for t in st["T"]], "N": st["N"]}


def _scale_cmd(x, f):
    y = list(x)
    y[3] = f(y[3])
    if len(y) > 6 and y[0] in ("C", "R"):
        y[6] = [_scale_topic(t, f) for t in y[6]]
    return y


def meta_cases_from_tlc(printed, unit):
    f = lambda v: v * unit
    return [{"id": "m%d" % i, "kind": "spec", "path": [_scale_cmd(x, f) for x in c["h"]], "state": _scale_state(c["s"], f),
             "succ": [_scale_cmd(x, f) for x in c["x"]]} for i, c in enumerate(printed)]


def _enc_create(t, n):
    b = t.encode()
    return (0).to_bytes(4, "little") + len(b).to_bytes(8, "little") + b + n.to_bytes(8, "little")


def _enc_roll(t, n, c):
    b = t.encode()
    return (1).to_bytes(4, "little") + len(b).to_bytes(8, "little") + b + n.to_bytes(8, "little") + c.to_bytes(8, "little")


def _enc_upsert(n, a):
    b = a.encode()
    return (2).to_bytes(4, "little") + n.to_bytes(8, "little") + len(b).to_bytes(8, "little") + b


def meta_random_cases(tier, rng, unit):
    """-> (sequences validated by TLC, extreme-value sequences, byte-string cases). The TLC-validated
    sequences are generated in spec units (u64 bound = MaxU64 of Trace_Metadata.cfg) and carry real
    counts c * unit, so they run into the overflow rejection as often as the spec does."""
    thorough = tier == "thorough"
    seqs, extreme, bts = [], [], []
    pool = ["a", "b", "orders", "t_x_s_1", "", "café", "a b", "_s_"]
    nodes_small = [1, 2, 3, 7, 2**31 - 1]
    addrs = ["x", "y", "127.0.0.1:6001", ""]
    for i in range(400 if thorough else 60):
        names = rng.sample(pool, rng.randint(1, 4))
        ln = rng.choice([8, 20, 60, 150]) if not thorough else rng.choice([20, 60, 150, 400])
        path = []
        for _ in range(ln):
            x = rng.random()
            if x < 0.15:
                path.append(["C", rng.choice(names + ["zz"]), rng.choice(nodes_small), 0, ""])
            elif x < 0.70:
                path.append(["R", rng.choice(names + ["zz"]) if rng.random() < 0.9 else "nope", rng.choice(nodes_small),
                             rng.choice([0, 1, 2, 5, 100, 400, 999, 1000]) * unit, ""])
            elif x < 0.90:
                path.append(["U", "", rng.choice(nodes_small), 0, rng.choice(addrs)])
            else:
                path.append(["X", "", 0, 0, ""])
        seqs.append({"id": "s%d" % i, "kind": "seq", "path": path, "trace": True})
    # arbitrary values up to u64::MAX, overflow attempts included
    for i in range(200 if thorough else 40):
        names = [rng.choice(pool) + str(rng.randint(0, 3)) for _ in range(rng.randint(1, 3))]
        path = [["C", t, rng.getrandbits(64), 0, ""] for t in names]
        for _ in range(rng.choice([5, 30, 120])):
            x = rng.random()
            t = rng.choice(names)
            if x < 0.7:
                c = rng.choice([0, 1, U64, U64 // 2, 2**63, rng.getrandbits(rng.choice([8, 32, 62, 64]))])
                path.append(["R", t, rng.choice([0, 1, U64, rng.getrandbits(64)]), c, ""])
            elif x < 0.85:
                path.append(["U", "", rng.choice([0, U64, rng.getrandbits(64)]), 0, rng.choice(addrs + ["☃" * rng.randint(0, 50)])])
            else:
                path.append(["C", t, rng.getrandbits(64), 0, ""])
        extreme.append({"id": "e%d" % i, "kind": "seq", "path": path, "trace": False})
    for i, (c1, c2) in enumerate([(U64, 1), (2**63, 2**63), (U64, U64), (U64 - 5, 3), (2**63, 2**63 - 1)]):
        path = [["C", "a", 1, 0, ""], ["R", "a", 2, c1, ""], ["R", "a", 3, c2, ""], ["R", "a", 1, 1, ""], ["R", "a", 1, 0, ""], ["R", "a", 1, 1, ""]]
        extreme.append({"id": "ovf%d" % i, "kind": "seq", "path": path, "trace": False})
    # arbitrary byte strings after a prefix that creates topics
    for i in range(300 if thorough else 60):
        prefix = [["C", "a", 1, 0, ""], ["C", "b", 2, 0, ""], ["R", "a", 2, 3, ""], ["U", "", 1, 0, "x"]][:rng.randint(0, 4)]
        bl = []
        for _ in range(rng.choice([10, 40, 100])):
            x = rng.random()
            if x < 0.3:
                bs = bytes(rng.getrandbits(8) for _ in range(rng.choice([0, 1, 3, 4, 5, 12, 13, 20, 29, 37, 64])))
            else:
                valid = rng.choice([_enc_create(rng.choice(["a", "b", "c", ""]), rng.getrandbits(rng.choice([2, 64]))),
                                    _enc_roll(rng.choice(["a", "b", "c"]), rng.getrandbits(rng.choice([2, 64])), rng.getrandbits(rng.choice([2, 16, 40, 64]))),
                                    _enc_upsert(rng.getrandbits(rng.choice([2, 64])), rng.choice(addrs))])
                b = bytearray(valid)
                y = rng.random()
                if y < 0.25 and b:
                    b[rng.randrange(len(b))] ^= 1 << rng.randrange(8)
                elif y < 0.45:
                    b = b[:rng.randrange(len(b) + 1)]
                elif y < 0.6:
                    b += bytes(rng.getrandbits(8) for _ in range(rng.randint(1, 9)))
                elif y < 0.75 and len(b) > 4:
                    b[0:4] = rng.choice([3, 255, 2**32 - 1, 2]).to_bytes(4, "little")
                elif y < 0.85 and len(b) >= 12:
                    b[4:12] = rng.choice([U64, 2**40, 0, len(b)]).to_bytes(8, "little")
                bs = bytes(b)
            bl.append(bs.hex())
        bts.append({"id": "b%d" % i, "kind": "bytes", "path": prefix, "bytes": bl})
    return seqs, extreme, bts


def _unscale(v, unit):
    if v % unit:
        raise ValueError("value %d is not a multiple of the count unit" % v)
    return v // unit


def trace_validate_metadata(groups, tag="c18v"):
    """groups: {gid: [(cmd, value, state)]}. TLC checks every step against Metadata!Apply.
    -> ({gid: matched steps or None when fully accepted}, tlc stats)"""
    d = rundir(tag)
    tr = os.path.join(d, "trace.ndjson")
    bounds = []
    line = 0
    with open(tr, "w") as f:
        for g, steps in groups.items():
            first = line + 1
            f.write(json.dumps({"ev": "reset"}) + "\n")
            line += 1
            for c, r, s in steps:
                f.write(json.dumps({"ev": "apply", "c": c, "r": r, "s": s}) + "\n")
                line += 1
            bounds.append((g, first, line))
    rc, out, wall = run_tlc(os.path.join(C.SPEC, "Trace_Metadata.tla"), os.path.join(C.SPEC, "Trace_Metadata.cfg"), d,
                            env={"TRACE": tr}, workers=1, timeout=1800)
    if tlc_failed(rc, out):
        keep = [x for x in out.splitlines() if not x.startswith('<<"')]
        raise C.ToolError("TLC trace validation (Trace_Metadata) failed to run:\n" + "\n".join(keep[-40:]))
    reached = set(int(x) for x in re.findall(r'<<"AT", (\d+)>>', out))
    gen, dist = C.tlc_stats(out)
    verd = {}
    for g, first, last in bounds:
        if (last + 1) in reached:
            verd[g] = None
        else:
            k = max([x for x in reached if first < x <= last + 1] or [first + 1])
            verd[g] = k - first - 1          # number of apply events matched
    shutil.rmtree(d, ignore_errors=True)
    return verd, {"states_generated": gen, "states_distinct": dist, "wall_s": round(wall, 1), "events": line}


def meta_div(viol, case):
    d = {"kind": viol.get("kind"), "case_kind": case.get("kind"), "step": viol.get("step")}
    det = viol.get("detail")
    if isinstance(det, dict):
        p = det.get("panic")
        if p:
            d["panic"] = p[:200]
        if isinstance(det.get("cmd"), list):
            d["cmd"] = det["cmd"][0]
    return d


def apalache_metadata(tier, d):
    """Unbounded-number half of C18 on the specification: ApaMetadata.tla (typed restatement of Metadata.tla)
    is kept in step with Metadata.tla by TLC (Sync_ApaMetadata) and its invariant is shown inductive by Apalache
    (base case always; inductive step in the thorough tier: ~4 min). A failure here says something about the
    specification, not the code: it is a tool error."""
    out = {}
    rc, o, wall = C.tlc(os.path.join(C.SPEC, "Sync_ApaMetadata.tla"), os.path.join(C.SPEC, "Sync_ApaMetadata.cfg"),
                        os.path.join(d, "sync"), workers=4, timeout=900)
    if rc != 0 or "No error has been found" not in o:
        raise C.ToolError("Sync_ApaMetadata: ApaMetadata.tla and Metadata.tla disagree or TLC failed:\n" + o[-1500:])
    out["sync_states"] = C.tlc_stats(o)[1]
    out["sync_wall_s"] = round(wall, 1)
    steps = [("base", ["--init=Init", "--length=0"], 600)]
    if tier == "thorough":
        steps.append(("step", ["--init=IndInit", "--length=1"], 3000))
    for name, args, to in steps:
        t0 = time.time()
        rc, o = C.sh(["timeout", str(to), "apalache-mc", "check", "--cinit=ConstInit", "--inv=IndInv",
                      "--out-dir=" + os.path.join(d, "apalache"), "--run-dir=" + os.path.join(d, "apalache", "run")] + args +
                     [os.path.join(C.SPEC, "ApaMetadata.tla")], cwd=C.SPEC,
                     env={"TMPDIR": C.ensure_dir(os.path.join(d, "jtmp"))})    # the launcher makes its SANY dir with mktemp -t
        if rc != 0 or "The outcome is: NoError" not in o:
            raise C.ToolError("apalache %s case of ApaMetadata!IndInv failed (rc %d):\n%s" % (name, rc, o[-1500:]))
        out["apalache_%s_wall_s" % name] = round(time.time() - t0, 1)
        shutil.rmtree(os.path.join(d, "jtmp"), ignore_errors=True)
    out["apalache_inductive_step_checked"] = tier == "thorough"
    return out


def meta_run(pid, tier, snap):
    """Shared driver of C18 (snap=False) and C20's state-machine half (snap=True)."""
    # the state-machine half of C20 writes its own evidence file; the maintainer's combined C20 merges it
    v = Verdicts(pid, tier, evidence_id="C20_statemachine_half" if snap else None)
    if tier == "thorough":
        selftest()
    binp, info = build_dwpure()
    d = rundir(pid.lower() + ("snap" if snap else ""))
    mc, printed = model_check("Metadata", tier, need_actions=META_ACTIONS, timeout=3000)
    apa = None if snap else apalache_metadata(tier, d)
    tname = "thorough" if tier == "thorough" else "quick"
    unit = count_unit(cfg_constant(os.path.join(C.SPEC, "MC_Metadata_%s.cfg" % tname), "MaxU64"))
    spec_cases = meta_cases_from_tlc(printed, unit)
    if not spec_cases:
        raise C.ToolError("MC_Metadata printed no cases")
    rng = random.Random(C.seed() * 7919 + 18)
    tunit = count_unit(cfg_constant(os.path.join(C.SPEC, "Trace_Metadata.cfg"), "MaxU64"))
    seqs, extreme, bts = meta_random_cases(tier, rng, tunit)
    corp = corpus_cases(pid, tier)
    for b in corp:
        if b.get("units") == "spec":     # counts written in spec units of Trace_Metadata (u64 bound = MaxU64)
            b["path"] = [_scale_cmd(x, lambda v: v * tunit) for x in b["path"]]
            if "state" in b:
                b["state"] = _scale_state(b["state"], lambda v: v * tunit)
    cases = corp + spec_cases + seqs + extreme + bts
    results = run_harness(binp, "meta", cases, d, extra=["--snap"] if snap else None)
    if len(results) != len(cases):
        raise C.ToolError("dwpure meta: %d results for %d cases" % (len(results), len(cases)))
    own = "snap_viol" if snap else "viol"
    n_bad = 0
    for c, r in zip(cases, results):
        if r.get("id") != c["id"]:
            raise C.ToolError("dwpure meta: result order mismatch at %s" % c["id"])
        for vi in r.get(own, [])[:1]:
            n_bad += 1
            small = dict(c)
            v.report(c["id"] + "_" + str(vi.get("kind")), meta_div(vi, c),
                     {"case": small, "violations": r.get(own), "how": "dwpure meta%s on this one case line" % (" --snap" if snap else "")})
    # impl -> spec: the recorded steps of the random sequences must be steps of Metadata!Apply
    tv = None
    if not snap:
        groups = {}
        for c, r in zip(cases, results):
            if c.get("trace") and r.get("trace") is not None:
                # back to spec units (exact: every recorded count/offset is a multiple of the unit)
                try:
                    f = lambda x: _unscale(x, tunit)
                    groups[c["id"]] = [(_scale_cmd(e["c"], f), e["r"], _scale_state(e["s"], f)) for e in r["trace"]]
                except ValueError as ex:
                    v.report(c["id"] + "_unit", {"kind": "state_mismatch", "case_kind": "seq"},
                             {"case": c, "error": str(ex), "how": "a recorded count/offset is not a multiple of the count unit"})
        verd, tv = trace_validate_metadata(groups)
        byid = {c["id"]: c for c in cases}
        rejected = 0
        for g, matched in verd.items():
            if matched is None:
                continue
            rejected += 1
            steps = groups[g]
            bad = steps[matched] if matched < len(steps) else None
            v.report(g + "_trace", {"kind": "trace_rejected", "case_kind": "seq", "step": matched + 1,
                                    "cmd": bad[0][0] if bad else None},
                     {"case": byid[g], "first_unmatched_step": matched + 1,
                      "first_unmatched": {"cmd": bad[0], "value": bad[1], "state_after": bad[2]} if bad else None,
                      "how": "Trace_Metadata.tla rejects this step of the real Metadata::apply"})
        tv["groups"] = len(groups)
        tv["rejected"] = rejected
    n_apply = sum(r.get("n_apply", 0) for r in results)
    n_cmp = sum(r.get("n_compare", 0) for r in results)
    n_snap = sum(r.get("n_snap", 0) for r in results)
    rolled = sum(1 for c in spec_cases if any(x[0] == "R" and x[5] == "ROLLED" for x in c["path"]))
    overflow_spec = sum(1 for c in spec_cases for x in c["succ"] if x[5] == "ERR_OVERFLOW")
    overflow_real = sum(1 for r in results for e in (r.get("trace") or []) if e.get("r") == "ERR_OVERFLOW")
    sample = dict(spec_cases[len(spec_cases) // 2])
    sample["succ"] = sample["succ"][:4]
    cov = {
        "states": mc["states"], "transitions": mc["transitions"], "tlc_wall_s": mc["wall_s"], "tlc_cfg": mc["cfg"],
        "tlc_cached": mc["cached"], "tlc_coverage": {a: mc["coverage"].get(a) for a in META_ACTIONS},
        "traces_validated_against_impl": len(spec_cases),
        "spec_transitions_replayed": sum(len(c["succ"]) for c in spec_cases),
        "random_sequences": len(seqs), "extreme_value_sequences": len(extreme), "byte_string_cases": len(bts), "corpus_cases": len(corp),
        "byte_strings": sum(len(c["bytes"]) for c in bts),
        "evaluations": n_apply, "state_comparisons": n_cmp,
        "count_unit": unit, "overflow_rejections_replayed_from_spec": overflow_spec,
        "overflow_rejections_in_validated_random_sequences": overflow_real,
        "distinct_nontrivial": rolled + len(seqs) + len(extreme),
        "samples": [sample, {k: (x[:6] if isinstance(x, list) else x) for k, x in seqs[0].items()}],
        "harness": info,
    }
    if snap:
        cov["snapshot_restore_checks"] = n_snap
        cov["rule"] = ("TLC: Restore(Snapshot(st)) = st in every reachable state; real code: at every prefix of every TLC path and "
                       "at sampled prefixes of the random sequences the real snapshot() is restored into a fresh Metadata, the full "
                       "state compared (decoded snapshot and accessor API), and the remaining commands (and every command of the "
                       "bounded alphabet) are applied to both with value and state compared after each")
    else:
        cov["trace_validation"] = tv
        cov["apalache"] = apa
        cov["rule"] = ("TLC: invariants InvSegments/InvTotal/InvFrame and the action property SealedStable on every reachable state "
                       "of the bounded space; every (state, command) pair TLC enumerated below EmitDepth is replayed on the real "
                       "Metadata::apply with returned value and full state compared; the property's invariants are also evaluated "
                       "directly on the real state after every command; random long sequences are validated step by step by TLC "
                       "(Trace_Metadata, overflow rejections included); extreme values and arbitrary byte strings: no panic, "
                       "invariants hold, a rejected command leaves the state unchanged")
    shutil.rmtree(d, ignore_errors=True)
    assumptions = SHIM_ASSUMPTIONS + [
        "undecodable commands exercise the shim's decoder plus the real error path of apply, not the real bincode crate",
        "full state is observed through the machine's own snapshot decoded as ClusterState and cross-checked with "
        "get_topic_state/all_node_addrs/sealed_count/segment_leader/get_node_addr",
    ]
    assumptions.append("the bounded models use a small u64 bound (MaxU64); counts and offsets are instantiated as multiples of "
                       "floor(u64::MAX / MaxU64), so the real checked_add overflows exactly when the spec's does")
    if not info.get("overflow_checks"):
        assumptions.append("harness built without overflow checks")
    return v.finish("model_checking", cov, assumptions)


def c18(tier):
    return meta_run("C18", tier, snap=False)


def c20_statemachine_half(tier):
    return meta_run("C20", tier, snap=True)


# ------------------------------------------------------------------------------------------------
# C24

CP_ACTIONS = ("ReadLen", "RejectLen", "DiscardBody", "ReadBody", "RejectUtf8", "Dispatch", "Respond")
SP, PP, GG, XX, BAD = 0, 1, 2, 3, 4
MAX_FRAME_LEN = 64 * 1024
# Unicode White_Space (what str::trim_end removes)
RUST_WS = ["\t", "\n", "\x0b", "\x0c", "\r", " ", "\u0085", " ", " ", " ", " ", " ", " ",
           " ", " ", " ", " ", " ", " ", " ", " ", " ", " ", " ", "　"]
_RUST_WS_SET = set(RUST_WS)
# characters that look like space but are NOT trimmed (and so belong to the payload)
NOT_WS = ["​", "﻿", "᠎", "\x1c", "\x1f", "\x00", "⁠", "\x7f"]
_ORD_POOL = list("abcXYZ019_-./:{}[]\"'\\%") + ["é", "ß", "日", "本", "\U0001d11e", "\U0001f600", "ا", "́"] + NOT_WS
BAD_CHUNKS = [b"\xff", b"\xfe\xff", b"\xc3\x28", b"\xe2\x82", b"\xed\xa0\x80", b"\xf8\x88\x80\x80\x80", b"\xc0\xaf", b"\x80",
              b"\xf0\x9f\x98", b"\xc3"]
UNKNOWN_WORDS = ["FOO!", "put!", "PUT!", "Get!", "PUTS!", "PING!", " PUT!", "REGISTE!", "get!", "Ｐ!", "!"]
CP_TOPICS = ["t", "orders", "t_x_s_1", "ü", "a\tb", "T", "0"]


def _ws_chunk(rng):
    return "".join(rng.choice(RUST_WS) for _ in range(rng.choice([1, 1, 1, 2, 3, 7])))


# ordinary text that looks like a command: as payload it is payload, after leading white space it is
# still not a command
_CMD_LIKE = ["PUT t z", "GET t", "REGISTER q", "PUT", "STATE t", "METRICS", "ERR", "OK", "EMPTY", "OK x"]


def _ord_chunk(rng, big=0):
    if not big and rng.random() < 0.12:
        return rng.choice(_CMD_LIKE)
    n = big or rng.choice([1, 1, 2, 3, 5, 12, 40])
    cs = [rng.choice(_ORD_POOL) for _ in range(n)]
    if n > 2 and rng.random() < 0.5:     # white space inside a payload is payload
        cs[rng.randrange(1, n - 1)] = rng.choice(RUST_WS)
    for k in (0, -1):
        while cs[k] in _RUST_WS_SET:
            cs[k] = rng.choice(_ORD_POOL)
    return "".join(cs)


def _chunk(sym, rng):
    if sym == SP:
        return _ws_chunk(rng).encode()
    if sym == BAD:
        return rng.choice(BAD_CHUNKS)
    return _ord_chunk(rng).encode()


def _is_utf8(b):
    try:
        b.decode("utf-8")
        return True
    except UnicodeDecodeError:
        return False


def cp_body(syms, lo, topic, rng, conc):
    """Concrete bytes of a frame body whose symbols are syms (stream positions lo..); fills conc[pos]
    for the non-leading positions (the positions a PUT payload can cover)."""
    for _ in range(50):
        lead = syms[0]
        rest = [_chunk(x, rng) for x in syms[1:]]
        if lead == PP:
            head = b"PUT " + topic
            if not rest and rng.random() < 0.3:
                head = rng.choice([b"PUT", b"PUT ", b"PUT " + topic + b" "])
            sep = b" " if rest else b""
        elif lead == GG:
            head = b"GET " + topic
            sep = b" " if rest else b""
        elif lead == XX:
            head = rng.choice(UNKNOWN_WORDS).encode()
            sep = rng.choice([b"", b" "]) if rest else b""
        elif lead == SP:
            head, sep = _ws_chunk(rng).encode(), b""
        else:
            head, sep = rng.choice(BAD_CHUNKS), b""
        body = head + sep + b"".join(rest)
        if _is_utf8(body) == (BAD not in syms) and 0 < len(body) <= MAX_FRAME_LEN:
            for k, ch in enumerate(rest):
                conc[lo + 1 + k] = ch
            return body
    raise C.ToolError("cp_body: could not instantiate symbols %r" % (syms,))


def _le32(n):
    return int(n).to_bytes(4, "little")


def _frame(body):
    return _le32(len(body)) + body


def cp_oversized_fill(need, topic, rng):
    """`need` bytes that complete an oversized frame's body, as run-length parts; what the server
    makes of them if it (wrongly) reads them as frames differs per strategy."""
    strat = rng.choice(["zeros", "x", "inject", "swallow", "mixed"])
    if need <= 0:
        return [], strat
    if strat == "zeros":
        return [{"rep": "00", "n": need}], strat
    if strat == "x":
        return [{"rep": "78", "n": need}], strat
    if strat == "inject":
        unit = _frame(b"PUT " + topic + b" evil")
        k = need // len(unit)
        parts = [{"rep": unit.hex(), "n": k}] if k else []
        if need - k * len(unit):
            parts.append({"rep": "00", "n": need - k * len(unit)})
        return parts, strat
    if strat == "swallow":
        if need >= 8:
            return [_le32(min(MAX_FRAME_LEN, need + 5)).hex(), {"rep": "61", "n": need - 4}], strat
        return [{"rep": "61", "n": need}], strat
    unit = _frame(b"GET " + topic) + b"\0\0\0\0" + _frame(b"\xff")
    k = need // len(unit)
    parts = [{"rep": unit.hex(), "n": k}] if k else []
    if need - k * len(unit):
        parts.append({"rep": "20", "n": need - k * len(unit)})
    return parts, strat


def cp_concretise(c, cid, rng, src):
    """One TLC-emitted stream (symbols, frames, expected responses) -> a case for `dwpure proto`."""
    s, frames, exp = c["s"], c["f"], c["e"]
    topic_s = rng.choice(CP_TOPICS)
    topic = topic_s.encode()
    conc = {}
    parts = []          # list of (bytes | run-length parts list)
    meta = [{"cls": "register", "ri": 0}]
    parts.append(_frame(b"REGISTER " + topic))
    ri = 1
    fills = []
    for kind, cls, n, lo, hi in frames:
        syms = s[lo - 1:hi]
        if kind == "zero":
            parts.append(b"\0\0\0\0")
            meta.append({"cls": "zero", "ri": ri})
            ri += 1
        elif kind == "ok":
            body = cp_body(syms, lo, topic, rng, conc)
            if cls == "put" and rng.random() < 0.02:
                # a body of exactly MAX_FRAME_LEN bytes is still valid
                pad = MAX_FRAME_LEN - len(body)
                last = max(k for k in conc if lo < k <= hi and s[k - 1] != SP)
                extra = b"z" * pad
                cut = sum(len(conc[k]) for k in range(last + 1, hi + 1))
                body = body[:len(body) - cut] + extra + body[len(body) - cut:]
                conc[last] = conc[last] + extra
            parts.append(_frame(body))
            meta.append({"cls": cls, "ri": ri})
            ri += 1
        elif kind == "over":
            present = b"".join(_chunk(x, rng) for x in syms)
            total = rng.choice([MAX_FRAME_LEN + 1, MAX_FRAME_LEN + 1, MAX_FRAME_LEN + 2, 70000, 131072])
            fill, strat = cp_oversized_fill(total - len(present), topic, rng)
            fills.append(strat)
            if rng.random() < 0.5:
                parts.append(_le32(total) + present)
                parts.append(fill)
            else:
                parts.append(_le32(total))
                parts.append(fill)
                parts.append(present)
            meta.append({"cls": "over", "ri": ri, "body": True, "len": total, "fill": strat})
            ri += 1
        else:  # partial trailing frame: announced n symbols, hi - lo + 1 present
            present = b"".join(_chunk(x, rng) for x in syms)
            if cls == "over":
                total = max(MAX_FRAME_LEN + 1, len(present) + 1) + rng.choice([0, 1, 1000, 2**31, 2**32 - 1 - MAX_FRAME_LEN - 1 - len(present) - 1])
                total = min(total, 2**32 - 1)
                if not syms and rng.random() < 0.3:
                    parts.append(_le32(total)[:rng.randint(1, 3)])
                    meta.append({"cls": "over", "partial": True, "body": False, "prefix_cut": True})
                else:
                    parts.append(_le32(total) + present)
                    meta.append({"cls": "over", "partial": True, "body": bool(syms), "len": total})
            else:
                total = min(MAX_FRAME_LEN, len(present) + rng.choice([1, 1, 2, 100, MAX_FRAME_LEN]))
                if total <= len(present):
                    present = present[:total - 1]
                if not syms and rng.random() < 0.4:
                    parts.append(_le32(total)[:rng.randint(1, 3)])
                else:
                    parts.append(_le32(total) + present)
                meta.append({"cls": "partial", "partial": True})
    expect = [{"k": "OK"}]
    for k, lo, hi in exp:
        if k == "VAL":
            expect.append({"k": "VAL", "p": b"".join(conc[i] for i in range(lo, hi + 1)).hex()})
        else:
            expect.append({"k": k})
    # delivery: one chunk / per part / random cuts (small streams only)
    small = all(isinstance(p, bytes) for p in parts) and sum(len(p) for p in parts) < 400
    mode = rng.choice(["one", "parts", "cuts", "bytes"]) if small else rng.choice(["one", "parts"])
    if mode == "one":
        chunks = [[p.hex() if isinstance(p, bytes) else p for p in parts]]
    elif mode == "parts":
        chunks = [p.hex() if isinstance(p, bytes) else p for p in parts]
    else:
        whole = b"".join(parts)
        if mode == "bytes":
            chunks = [whole[i:i + 1].hex() for i in range(len(whole))]
        else:
            cuts = sorted(set(rng.randrange(1, len(whole)) for _ in range(rng.randint(1, 6)))) if len(whole) > 1 else []
            chunks = [whole[a:b].hex() for a, b in zip([0] + cuts, cuts + [len(whole)])]
    chunks = [x for x in chunks if x != "" and x != []]
    return {"id": cid, "chunks": chunks, "expect": expect, "slack": bool(c["t"]), "src": src, "symbols": s, "topic": topic_s,
            "frames": meta, "design_ok": bool(c["ok"]), "delivery": mode}


def cp_random_streams(n, rng):
    out = []
    for _ in range(n):
        ln = rng.choice([3, 6, 10, 16, 24, 40])
        s = []
        while len(s) < ln:
            x = rng.random()
            if x < 0.62:     # a well-formed frame
                k = rng.randint(1, 3)
                lead = rng.choice([PP, PP, PP, GG, GG, XX, SP, BAD])
                s += [k, lead] + [rng.choice([SP, PP, GG, XX, XX, BAD] if rng.random() < 0.15 else [SP, PP, GG, XX, XX]) for _ in range(k - 1)]
            elif x < 0.72:
                s.append(0)
            elif x < 0.80:   # oversized frame with its body
                s += [4] + [rng.randint(0, 4) for _ in range(4)]
            else:
                s.append(rng.randint(0, 4))
        if rng.random() < 0.3:
            s = s[:rng.randint(0, len(s))]
        out.append(s)
    return out


def cp_div(case, r):
    d = r.get("diverge_at", -1)
    fr = case.get("frames", [])
    over_before = False
    for f in fr:
        if f.get("cls") == "over" and f.get("body"):
            if f.get("partial"):
                over_before = over_before or d >= len(case["expect"]) or r.get("kind") in ("panic", "hang")
            elif f.get("ri", 10**9) < d:
                over_before = True
    at = next((f.get("cls") for f in fr if f.get("ri") == d), "none")
    prev = next((f.get("cls") for f in fr if f.get("ri") == d - 1), "none")
    return {"kind": r.get("kind"), "diverge_at": d, "frame_class": at, "prev_frame_class": prev,
            "oversized_before_divergence": over_before, "design_ok": case.get("design_ok"), "src": case.get("src")}


def cp_tlc_random(streams, tag="c24r"):
    """Expected responses for random long streams, computed by TLC (Trace_ClientProto)."""
    d = rundir(tag)
    tr = os.path.join(d, "streams.ndjson")
    uniq = []
    seen = set()
    for s in streams:
        if tuple(s) not in seen:
            seen.add(tuple(s))
            uniq.append(s)
    with open(tr, "w") as f:
        for s in uniq:
            f.write(json.dumps({"s": s}) + "\n")
    rc, out, wall = run_tlc(os.path.join(C.SPEC, "Trace_ClientProto.tla"), os.path.join(C.SPEC, "Trace_ClientProto.cfg"), d,
                            env={"TRACE": tr}, workers=4, timeout=1800)
    if tlc_failed(rc, out):
        keep = [x for x in out.splitlines() if not x.startswith('<<"')]
        raise C.ToolError("TLC on Trace_ClientProto failed:\n" + "\n".join(keep[-40:]))
    printed = tlc_printed(out, "CASE")
    gen, dist = C.tlc_stats(out)
    shutil.rmtree(d, ignore_errors=True)
    if len(printed) != len(uniq):
        raise C.ToolError("Trace_ClientProto printed %d cases for %d streams" % (len(printed), len(uniq)))
    return printed, {"states_generated": gen, "states_distinct": dist, "wall_s": round(wall, 1), "streams": len(uniq)}


def cp_boundary_cases():
    """Long command lines in which a multi-byte character straddles (or ends at) a typical buffer/preview size:
    any byte-indexed slicing of the command line (log previews, fixed read buffers) shows here."""
    out = []
    for B in (16, 32, 64, 128, 255, 256, 257, 512, 1000, 1024, 4096, 8192, 32768):
        for ch in ("\u00e9", "\u65e5", "\U0001f600"):
            enc = ch.encode()
            for shift in range(1, len(enc) + 1):          # the character starts `shift` bytes before offset B
                head = b"PUT t "
                pad = B - shift - len(head)
                if pad < 0:
                    continue
                payload = b"a" * pad + enc + b"zz"
                line = head + payload
                if len(line) > MAX_FRAME_LEN:
                    continue
                chunks = [[_frame(b"REGISTER t").hex(), _frame(line).hex(), _frame(b"GET t").hex(), _frame(b"NOPE").hex()]]
                out.append({"id": "bnd_%d_%d_%d" % (B, len(enc), shift), "chunks": chunks,
                            "expect": [{"k": "OK"}, {"k": "OK"}, {"k": "VAL", "p": payload.hex()}, {"k": "ERR"}],
                            "slack": False, "src": "boundary", "topic": "t", "design_ok": True, "delivery": "one",
                            "frames": [{"cls": "register", "ri": 0}, {"cls": "put", "ri": 1}, {"cls": "get", "ri": 2}, {"cls": "unknown", "ri": 3}]})
    return out


def c24(tier):
    v = Verdicts("C24", tier)
    if tier == "thorough":
        selftest()
    binp, info = build_dwpure()
    d = rundir("c24")
    tname = "thorough" if tier == "thorough" else "quick"
    # the design-level server as client.rs is written, on all streams, against the contract
    mc, printed = model_check("ClientProto", tier, cfg=os.path.join(C.SPEC, "MC_ClientProto_%s_code.cfg" % tname),
                              need_actions=CP_ACTIONS, timeout=3000)
    if not printed:
        raise C.ToolError("MC_ClientProto printed no cases")
    rng = random.Random(C.seed() * 7919 + 24)
    corp = corpus_cases("C24", tier)
    cases = [cp_concretise(c, "m%d" % i, rng, "tlc") for i, c in enumerate(printed)]
    n_spec = len(cases)
    rstreams = cp_random_streams(3000 if tier == "thorough" else 300, rng)
    rprinted, rstats = cp_tlc_random(rstreams)
    reps = 3 if tier == "thorough" else 2
    for i, c in enumerate(rprinted):
        for k in range(reps):
            cases.append(cp_concretise(c, "r%d_%d" % (i, k), rng, "random"))
    cases = corp + cp_boundary_cases() + cases
    results = run_harness(binp, "proto", cases, d)
    if len(results) != len(cases):
        raise C.ToolError("dwpure proto: %d results for %d cases" % (len(results), len(cases)))
    design_bad = sum(1 for c in cases if not c.get("design_ok", True))
    both_bad = design_only = code_only = 0
    kinds = {}
    for c, r in zip(cases, results):
        if r.get("id") != c["id"]:
            raise C.ToolError("dwpure proto: result order mismatch at %s" % c["id"])
        if r["ok"]:
            if not c.get("design_ok", True):
                design_only += 1
            continue
        kinds[r["kind"]] = kinds.get(r["kind"], 0) + 1
        if c.get("design_ok", True):
            code_only += 1
        else:
            both_bad += 1
        v.report(c["id"] + "_" + str(r["kind"]), cp_div(c, r),
                 {"case": c, "result": r, "how": "dwpure proto on this one case line (chunks = client bytes in delivery order)"})
    if design_bad:
        v.drift.append("the design-level server of ClientProto violates the contract on %d stream(s) (%d of them conform on the real "
                       "code): the design spec no longer describes client.rs" % (design_bad, design_only))
    if code_only:
        v.drift.append("%d stream(s) on which the design-level server of ClientProto conforms but client.rs does not: the design "
                       "spec no longer describes the code" % code_only)
    classes = {}
    for c in cases:
        for f in c.get("frames", []):
            classes[f["cls"]] = classes.get(f["cls"], 0) + 1
    sample = dict(cases[len(corp) + n_spec // 3])
    cov = {
        "states": mc["states"], "transitions": mc["transitions"], "tlc_wall_s": mc["wall_s"], "tlc_cfg": mc["cfg"],
        "tlc_cached": mc["cached"], "tlc_coverage": {a: mc["coverage"].get(a) for a in CP_ACTIONS},
        "corpus_cases": len(corp),
        "tlc_random": rstats,
        "traces_validated_against_impl": n_spec,
        "random_cases": len(cases) - n_spec - len(corp),
        "evaluations": len(cases),
        "frames_sent": sum(classes.values()), "frame_classes": classes,
        "distinct_nontrivial": len(set(tuple(c.get("symbols", [])) for c in cases if len(c.get("frames", [])) >= 3)),
        "design_level_counterexamples": design_bad,
        "design_and_code_violate": both_bad, "design_only_violates_in_this_instantiation": design_only, "code_only_violates": code_only,
        "divergence_kinds": kinds,
        "samples": [sample],
        "rule": "TLC runs the design-level server loop of client.rs on every stream of <= MaxLen symbols and checks it against the "
                "contract (one response per complete frame, in order, right kind, GET returns the PUT byte range); every stream is "
                "instantiated as concrete bytes (random UTF-8 of each symbol's class, random delivery chunking) and sent to the real "
                "start_client_listener over the shim's in-memory TCP; the real responses must equal the contract's list",
        "harness": info,
    }
    shutil.rmtree(d, ignore_errors=True)
    return v.finish("model_checking", cov, SHIM_ASSUMPTIONS + [
        "the data plane behind client.rs is a test double (per-topic FIFO); PUT still goes through the real wal_key and forward_append",
        "one symbol of the model stands for the 4-byte length prefix or for a byte string of its class; a length above MaxFrame "
        "stands for a length above MAX_FRAME_LEN (instantiated as 65537..131072 with the announced body present, filled with "
        "zero bytes, text, well-formed PUT frames or a swallowing length prefix)",
        "one connection per stream; the in-memory TCP delivers bytes in the chosen chunks and never fails",
    ])


# ------------------------------------------------------------------------------------------------
# committed regression cases, binding self-test, replay

def corpus_cases(pid, tier):
    """/verif/corpus/pure_*.ndjson: one case per line, tagged {"props": [...], "tier": "quick"|"thorough"}."""
    import glob
    out = []
    for p in sorted(glob.glob(os.path.join(C.VERIF, "corpus", "pure_*.ndjson"))):
        with open(p) as f:
            for line in f:
                line = line.strip()
                if not line or line.startswith("#"):
                    continue
                b = json.loads(line)
                if pid in b.get("props", []) and (tier == "thorough" or b.get("tier", "quick") == "quick"):
                    out.append(b)
    return out


_SELFTEST_DONE = False


def selftest():
    """Binding self-test: a corrupted expected value must be rejected by every comparison the checks
    rely on (otherwise a green run would mean nothing). Failure -> ToolError."""
    global _SELFTEST_DONE
    if _SELFTEST_DONE:
        return
    binp, _ = build_dwpure()
    d = rundir("selftest")
    fails = []
    # ---- C25: corrupt the spec's key, the spec's parse result, and collide two pairs
    _, printed = model_check("WalKey", "quick", need_actions=("Init", "Encode", "Decode"))
    wk = walkey_cases_from_tlc(printed)
    good = next(c for c in wk if len(c["topic"]) >= 2)
    bad_key = dict(good, id="st_key", key=good["key"][:-1] + ("0" if good["key"][-1] != "0" else "1"))
    bad_parse = dict(good, id="st_parse", parsed=[good["topic"] + "x", good["seg"]])
    cases = [dict(good, id="st_good"), bad_key, bad_parse]
    res = run_harness(binp, "walkey", cases, d)
    if not res[0]["ok"]:
        fails.append("C25: the unmodified case is rejected: %s" % res[0])
    if res[1]["ok"] or res[2]["ok"]:
        fails.append("C25: a corrupted spec key / parse result was accepted")
    viol, drift, _ = walkey_judge(cases, res)
    if len(viol) + len(drift) != 2:
        fails.append("C25: judge found %d+%d problems in 2 corrupted cases" % (len(viol), len(drift)))
    # ---- C18: corrupt an expected sealed count, an expected returned value, a successor patch
    _, mprinted = model_check("Metadata", "quick", need_actions=META_ACTIONS, timeout=3000)
    mcases = meta_cases_from_tlc(mprinted, count_unit(cfg_constant(os.path.join(C.SPEC, "MC_Metadata_quick.cfg"), "MaxU64")))
    tunit = count_unit(cfg_constant(os.path.join(C.SPEC, "Trace_Metadata.cfg"), "MaxU64"))
    base = next(c for c in mcases if any(t[4] for t in c["state"]["T"]) and len(c["path"]) >= 2)
    c_state = json.loads(json.dumps(base))
    c_state["id"] = "st_state"
    for t in c_state["state"]["T"]:
        if t[4]:
            t[4][0][1] += 1          # change a sealed count
            break
    c_res = json.loads(json.dumps(base))
    c_res["id"] = "st_res"
    c_res["path"][0][5] = "EXISTS" if c_res["path"][0][5] != "EXISTS" else "CREATED"
    c_succ = json.loads(json.dumps(base))
    c_succ["id"] = "st_succ"
    for x in c_succ["succ"]:
        if x[0] == "R" and x[5] == "ROLLED":
            x[6][0][2] = x[6][0][2] % 3 + 1      # leader of the rolled topic
            break
    c_lead = json.loads(json.dumps(base))
    c_lead["id"] = "st_segl"
    for t in c_lead["state"]["T"]:
        t[5][0][1] = t[5][0][1] % 3 + 1          # leader of segment 1
        break
    mres = run_harness(binp, "meta", [dict(base, id="st_good"), c_state, c_res, c_succ, c_lead], d)
    if mres[0]["viol"]:
        fails.append("C18: the unmodified case is rejected: %s" % mres[0]["viol"][:1])
    for r, want in zip(mres[1:], ("state_mismatch", "result_mismatch", "state_mismatch", "state_mismatch")):
        if not any(x["kind"] == want for x in r["viol"]):
            fails.append("C18: corrupted case %s not rejected with %s (got %s)" % (r["id"], want, [x["kind"] for x in r["viol"]]))
    # trace validation: a corrupted recorded state must be rejected at that step
    seq = {"id": "st_seq", "kind": "seq", "trace": True,
           "path": [["C", "a", 1, 0, ""], ["R", "a", 2, 5 * tunit, ""], ["U", "", 3, 0, "x"], ["R", "a", 3, 7 * tunit, ""], ["X", "", 0, 0, ""],
                    ["R", "a", 1, 990 * tunit, ""]]}
    tr = run_harness(binp, "meta", [seq], d)[0]["trace"]
    if tr[-1]["r"] != "ERR_OVERFLOW":
        fails.append("C18: a rollover past u64::MAX returned %s, self-test expects the rejection" % tr[-1]["r"])
    good_steps = [(_scale_cmd(e["c"], lambda x: _unscale(x, tunit)), e["r"], _scale_state(e["s"], lambda x: _unscale(x, tunit))) for e in tr]
    bad_steps = json.loads(json.dumps(good_steps))
    bad_steps[3][2]["T"][0][3] += 1          # cumulative offset after the 4th command
    verd, _ = trace_validate_metadata({"good": good_steps, "bad": [tuple(x) for x in bad_steps]}, tag="selftest-tv")
    if verd["good"] is not None:
        fails.append("C18: Trace_Metadata rejects an unmodified trace at step %s" % verd["good"])
    if verd["bad"] != 3:
        fails.append("C18: Trace_Metadata did not reject the corrupted step (matched %s, expected 3)" % verd["bad"])
    # ---- C20: a snapshot corrupted between snapshot() and restore() must be noticed
    sres = run_harness(binp, "meta", [dict(base, id="st_snap_good"), dict(base, id="st_snap_bad", selftest_corrupt_snapshot=True)], d,
                       extra=["--snap"])
    if sres[0]["snap_viol"]:
        fails.append("C20: the unmodified case is rejected: %s" % sres[0]["snap_viol"][:1])
    if not sres[1]["snap_viol"]:
        fails.append("C20: a corrupted snapshot was not noticed")
    # ---- C24: swap two expected responses, corrupt an expected payload
    rng = random.Random(4242)
    pc = {"s": [2, 1, 3, 1, 2, 1, 2], "f": [["ok", "put", 2, 2, 3], ["ok", "get", 1, 5, 5], ["ok", "get", 1, 7, 7]],
          "e": [["OK", 0, 0], ["VAL", 3, 3], ["EMPTY", 0, 0]], "t": False, "ok": True, "nr": 3}
    g = cp_concretise(pc, "st_good", rng, "selftest")
    sw = json.loads(json.dumps(g))
    sw["id"] = "st_swap"
    sw["expect"][2], sw["expect"][3] = sw["expect"][3], sw["expect"][2]
    pl = json.loads(json.dumps(g))
    pl["id"] = "st_payload"
    pl["expect"][2]["p"] = pl["expect"][2]["p"] + "20"
    ms = json.loads(json.dumps(g))
    ms["id"] = "st_missing"
    ms["expect"] = ms["expect"][:-1]
    pres = run_harness(binp, "proto", [g, sw, pl, ms], d)
    if not pres[0]["ok"]:
        fails.append("C24: the unmodified case is rejected: %s" % pres[0])
    for r, want in zip(pres[1:], ("wrong_response", "payload_mismatch", "extra_responses")):
        if r["ok"] or r["kind"] != want:
            fails.append("C24: corrupted case %s not rejected with %s (got %s)" % (r["id"], want, r["kind"]))
    # ---- C24 vacuity guard: the contract must reject the server that leaves an oversized body in the socket
    wd = os.path.join(d, "mutant")
    rc, out, _ = run_tlc(os.path.join(C.SPEC, "MC_ClientProto.tla"), os.path.join(C.SPEC, "MC_ClientProto_mutant_nodiscard.cfg"), wd,
                         workers=4, timeout=900)
    if not re.search(r"Error: Invariant (InvConforms|InvPrefix) is violated", out):
        fails.append("C24: TLC does not reject the non-discarding server (MC_ClientProto_mutant_nodiscard.cfg): the contract is vacuous\n"
                     + "\n".join(x for x in out.splitlines()[-15:] if not x.startswith('<<"')))
    shutil.rmtree(d, ignore_errors=True)
    if fails:
        raise C.ToolError("binding self-test failed:\n  " + "\n  ".join(fails))
    _SELFTEST_DONE = True
    C.log("[selftest] binding self-test ok (C25, C18 incl. trace validation, C20, C24 incl. mutant server rejected by TLC)")


def replay(pid, path):
    """Re-runs the case stored in a replay file on the real code and prints the harness verdict."""
    with open(path) as f:
        rp = json.load(f)
    case = rp["case"]
    binp, _ = build_dwpure()
    d = rundir("replay")
    sub, extra = {"C25": ("walkey", None), "C18": ("meta", None), "C20": ("meta", ["--snap"]), "C24": ("proto", None)}[pid]
    res = run_harness(binp, sub, [case], d, extra=extra)[0]
    shutil.rmtree(d, ignore_errors=True)
    print(json.dumps(res, indent=1)[:6000])
    bad = (res.get("snap_viol") if pid == "C20" else res.get("viol")) if sub == "meta" else (not res.get("ok"))
    if bad:
        print("VIOLATION property=%s replay=%s" % (pid, path))
        return C.EXIT_VIOLATION
    return C.EXIT_OK


REGISTRY = {"C18": c18, "C24": c24, "C25": c25}
PARTIAL = {"C20": c20_statemachine_half}
