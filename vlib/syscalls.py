"""Binding of the cfg(walrus_verif) I/O hook events to the system calls the process really makes.

The durability checks (C10) reason over the hook's I/O event stream.  A hook event is emitted next to the
call it describes, so a change to the call itself (an fsync turned into nothing, a flush made asynchronous,
O_SYNC dropped from an open, a write that is skipped) would leave the event stream looking right.  Here the
workload is run under `strace`, the caller thread's system calls on files of the data directory are aligned
with the caller thread's hook events, and

  * a hook event without its system call is REMOVED from the stream the power-loss model is driven with
    (so the model decides, soundly, whether the missing step mattered: a redundant fsync that goes away is no
    alarm, a necessary one is);
  * writes carry the O_SYNC/O_DSYNC status of the descriptor they really went through;
  * msync only counts when it is MS_SYNC;
  * a system call without a hook event (a durable mutation the model would not know about) is reported back
    to the caller, which treats it as a tool error (hook incomplete), never as a violation.
"""
import difflib
import os
import re
import shutil
import subprocess

TRACE = ("pwrite64,pwritev,pwritev2,write,writev,fsync,fdatasync,sync_file_range,syncfs,sync,msync,mmap,rename,renameat,renameat2,"
         "unlink,unlinkat,ftruncate,truncate,fallocate,io_uring_enter,openat,open,creat")

_avail = None


def available():
    """strace present and ptrace permitted."""
    global _avail
    if _avail is None:
        ok = False
        if shutil.which("strace"):
            try:
                p = subprocess.run(["strace", "-f", "-qq", "-e", "trace=fsync", "-o", "/dev/null", "true"],
                                   stdout=subprocess.PIPE, stderr=subprocess.STDOUT, timeout=20)
                ok = p.returncode == 0
            except Exception:
                ok = False
        _avail = ok
    return _avail


def wrap(cmd, stfile):
    return ["strace", "-f", "-y", "-qq", "-s", "0", "-e", "trace=" + TRACE, "-o", stfile] + list(cmd)


_LINE = re.compile(r"^(\d+)\s+(.*)$")
_FDP = re.compile(r"(\d+)<([^>]*)>")


def _merge(path):
    """strace -f lines with <unfinished ...>/<... resumed> stitched together: [(tid, text)] in completion order."""
    pend, out = {}, []
    for raw in open(path, errors="replace"):
        m = _LINE.match(raw.rstrip("\n"))
        if not m:
            continue
        tid, txt = int(m.group(1)), m.group(2)
        if txt.endswith("<unfinished ...>"):
            pend[tid] = txt[:-len("<unfinished ...>")]
            continue
        r = re.match(r"^<\.\.\. (\w+) resumed>(.*)$", txt)
        if r:
            txt = pend.pop(tid, r.group(1) + "(") + r.group(2)
        out.append((tid, txt))
    return out


def _ret(txt):
    m = re.search(r"\)\s*=\s*(0x[0-9a-f]+|-?\d+)(<([^>]*)>)?", txt)
    if not m:
        return None, None
    v = m.group(1)
    return (int(v, 16) if v.startswith("0x") else int(v)), m.group(3)


def _strs(txt):
    return re.findall(r'"((?:[^"\\]|\\.)*)"', txt)


def parse(stfile, cwd, datadir):
    """-> (main_tid, {tid: [rec]}) with rec = dict(kind, path, [path2, off, len, osync]); only successful calls on
    paths under datadir (absolute)."""
    datadir = os.path.abspath(datadir)
    fdflags = {}
    path_osync = {}
    maps = []          # (start, end, path)
    per, main = {}, None

    def under(p):
        return p is not None and (p == datadir or p.startswith(datadir + os.sep))

    def ab(p):
        return os.path.abspath(os.path.join(cwd, p))

    for tid, txt in _merge(stfile):
        if main is None:
            main = tid
        name = txt.split("(", 1)[0]
        ret, retpath = _ret(txt)
        if ret is None or ret < 0:
            continue
        args = txt[len(name) + 1:]
        fds = _FDP.findall(args.split(")")[0] if name in ("mmap",) else args)
        rec = None
        if name in ("openat", "open", "creat"):
            flags = set(re.findall(r"O_[A-Z_]+", args))
            if retpath is not None:
                fdflags[ret] = flags
                sync = bool(flags & {"O_SYNC", "O_DSYNC"})
                if flags & {"O_RDWR", "O_WRONLY"}:
                    path_osync[retpath] = sync
        elif name in ("pwrite64", "pwritev", "pwritev2", "write", "writev"):
            if fds and under(fds[0][1]):
                fd, p = int(fds[0][0]), fds[0][1]
                osync = bool(fdflags.get(fd, set()) & {"O_SYNC", "O_DSYNC"})
                if name == "pwrite64":
                    nums = re.findall(r",\s*(\d+)", args.rsplit(")", 1)[0])
                    off = int(nums[-1]) if nums else -1
                    rec = {"kind": "write", "path": p, "off": off, "len": ret, "osync": osync}
                elif name in ("write", "writev"):
                    rec = {"kind": "write_file", "path": p, "len": ret, "osync": osync}
                else:
                    rec = {"kind": "write", "path": p, "off": -1, "len": ret, "osync": osync}
        elif name in ("fsync", "fdatasync"):
            if fds and under(fds[0][1]):
                p = fds[0][1]
                isdir = p == datadir or os.path.isdir(p) or "O_DIRECTORY" in fdflags.get(int(fds[0][0]), set())
                rec = {"kind": "dirsync" if isdir else "fsync", "path": p}
        elif name in ("syncfs", "sync", "sync_file_range"):
            rec = {"kind": name, "path": fds[0][1] if fds else ""}
        elif name == "mmap":
            if "MAP_SHARED" in args and fds and under(fds[-1][1]):
                ln = re.match(r"\s*\w+,\s*(\d+)", args)
                if ln:
                    maps.append((ret, ret + int(ln.group(1)), fds[-1][1]))
        elif name == "msync":
            m = re.match(r"\s*(0x[0-9a-f]+),\s*(\d+),\s*([A-Z_|]+)", args)
            if m:
                addr = int(m.group(1), 16)
                hit = [mp for mp in maps if mp[0] <= addr < mp[1]]
                if hit and under(hit[-1][2]):
                    rec = {"kind": "fsync" if "MS_SYNC" in m.group(3) else "msync_async", "path": hit[-1][2]}
        elif name in ("rename", "renameat", "renameat2"):
            s = _strs(args)
            if len(s) >= 2 and (under(ab(s[0])) or under(ab(s[1]))):
                rec = {"kind": "rename", "path": ab(s[0]), "path2": ab(s[1])}
        elif name in ("unlink", "unlinkat"):
            s = _strs(args)
            if s and under(ab(s[0])):
                rec = {"kind": "unlink", "path": ab(s[0])}
        elif name in ("ftruncate",):
            if fds and under(fds[0][1]):
                n = re.findall(r",\s*(\d+)", args)
                rec = {"kind": "set_len", "path": fds[0][1], "len": int(n[-1]) if n else -1}
        elif name in ("truncate", "fallocate"):
            rec = {"kind": name, "path": fds[0][1] if fds else (ab(_strs(args)[0]) if _strs(args) else "")}
            if not under(rec["path"]):
                rec = None
        elif name == "io_uring_enter":
            n = re.match(r"\s*\d+<[^>]*>,\s*(\d+)", args)
            if n and int(n.group(1)) > 0:
                rec = {"kind": "uring_submit", "path": "", "len": ret}
        if rec is not None:
            per.setdefault(tid, []).append(rec)
    return main, per, path_osync


def _key(e, backend_fd):
    k = e["kind"]
    if k == "write":
        return (k, e["path"], e["off"], e["len"])
    if k in ("set_len", "write_file", "uring_submit"):
        return (k, e["path"], e["len"])
    if k == "rename":
        return (k, e["path"], e["path2"])
    return (k, e["path"])


COMPARED = ("write", "write_file", "fsync", "dirsync", "rename", "unlink", "set_len", "uring_submit")


def reconcile(events, marks, stfile, cwd, datadir, backend):
    """Align the caller thread's hook events with its system calls.
    -> (events', marks', report).  events' lacks the hook events that no system call backs; write events get
    `osync` as observed.  report: matched, unbacked (list), unhooked (list), osync_paths."""
    main, per, path_osync = parse(stfile, cwd, datadir)
    sysm = [r for r in per.get(main, []) if r["kind"] != "msync_async"]     # an asynchronous msync makes nothing durable
    fd = backend == "fd"

    def norm(e):
        e = dict(e)
        if e.get("path"):
            e["path"] = os.path.abspath(os.path.join(cwd, e["path"]))
        if e.get("path2"):
            e["path2"] = os.path.abspath(os.path.join(cwd, e["path2"]))
        return e

    hook_ix = [i for i, e in enumerate(events)
               if e.get("counted") and e["kind"] in COMPARED and not (e["kind"] == "write" and not fd)]
    hk = [_key(norm(events[i]), fd) for i in hook_ix]
    sk = [_key(r, fd) for r in sysm]
    sm = difflib.SequenceMatcher(a=hk, b=sk, autojunk=False)
    unbacked, unhooked, matched = [], [], 0
    osync_of = {}
    for tag, a0, a1, b0, b1 in sm.get_opcodes():
        if tag == "equal":
            matched += a1 - a0
            for j in range(a1 - a0):
                if sysm[b0 + j]["kind"] == "write":
                    osync_of[hook_ix[a0 + j]] = sysm[b0 + j]["osync"]
        else:
            unbacked += hook_ix[a0:a1]
            # io_uring_enter is also used for reads: an extra one is not an unannounced mutation
            unhooked += [sysm[j] for j in range(b0, b1) if sysm[j]["kind"] != "uring_submit"]
    # background threads: every system call must at least be announced by some uncounted hook event
    bg_hooks = {}
    for e in events:
        if not e.get("counted") and e["kind"] in COMPARED:
            k = _key(norm(e), fd)
            bg_hooks[k] = bg_hooks.get(k, 0) + 1
    bg_unhooked = []
    for tid, recs in per.items():
        if tid == main:
            continue
        for r in recs:
            if r["kind"] == "uring_submit":
                continue
            k = _key(r, fd)
            if bg_hooks.get(k, 0) > 0:
                bg_hooks[k] -= 1
            else:
                bg_unhooked.append(r)
    drop = set(unbacked)
    for i in unbacked:      # a submission that never happened: its writes did not happen either
        if events[i]["kind"] == "uring_submit":
            j = i + 1
            while j < len(events) and events[j]["kind"] == "uring_write":
                drop.add(j)
                j += 1
    ev2 = []
    for i, e in enumerate(events):
        if i in drop:
            continue
        e2 = e
        if e["kind"] == "write" and i in osync_of:
            e2 = dict(e, osync=osync_of[i])
        elif e["kind"] == "uring_write":
            p = os.path.abspath(os.path.join(cwd, e["path"]))
            if p in path_osync:
                e2 = dict(e, osync=path_osync[p])
        ev2.append(e2)
    marks2 = [m - sum(1 for i in drop if i < m) for m in marks]
    rep = {"matched": matched, "hook_events_compared": len(hk), "syscalls_compared": len(sk),
           "unbacked": [{k: v for k, v in events[i].items() if k != "data"} for i in unbacked],
           "unhooked": unhooked, "background_unhooked": bg_unhooked,
           "osync_writes": sum(1 for v in osync_of.values() if v), "plain_writes": sum(1 for v in osync_of.values() if not v)}
    return ev2, marks2, rep
