"""MANIFEST.setup_cmd: build the harness binaries from files on disk, warm the TLC caches."""
from . import common as C


def main():
    try:
        C.build_engine("tiny")
        C.build_engine("real")
        from . import props_engine as PE
        PE.contract_mc("quick")
    except C.ToolError as e:
        print("TOOL-ERROR: %s" % e)
        return C.EXIT_TOOL
    print("setup ok")
    return C.EXIT_OK
