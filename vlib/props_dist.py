"""Checks bound through the shim world of /verif/harness/logstore (DESIGN.md 4.4):

C21  Raft log store and peer address book survive any number of restarts
     contract LogStore.tla, design layer MC_LogStore.tla, trace validation Trace_LogStore.tla,
     real WalLogStore / WriteAheadLog / vendored engine / sliced peer-address functions.
C20  (adapter half, exported as PARTIAL) snapshot build/install through the real state-machine
     adapter of octopii/src/openraft/storage.rs with the real Metadata as application;
     RaftSM.tla / MC_RaftSM.tla.

Only the contract raises VIOLATION. The python models in this file (contract and design of the
log store) are used for three things only: generating well-formed random histories, deciding the
avoidance guard, and describing a divergence for reports / known-finding matchers. The verdict on
every execution is TLC's (Trace_LogStore against LogStore)."""
import copy
import glob
import json
import os
import random
import re
import shutil
import time

from . import common as C

CRATE = os.path.join(C.VERIF, "harness", "logstore")
MAX_VIOLATION_LINES = 20
DRIVER_PROCS = 8
CHUNK = 40              # histories per driver process
TLC_EVENTS = 40000      # events per TLC validation run
CHILD_TIMEOUT_S = 20    # watchdog per process lifetime of a history (a normal one takes ~0.1 s)
ALL_HI = 1000000
REOPEN_FLAVOURS = [("clean", "same"), ("clean", "new"), ("killed", "new")]
OBS = ("read_vote", "read_committed", "get_log_state", "get_entries", "load_peers")
MUT = ("append", "truncate", "purge", "save_vote", "save_committed", "record_peer")


# ------------------------------------------------------------------------------------------------
# build

def build_driver():
    """Builds logstore-driver from /repo's working tree (files included unmodified via #[path]).
    LOGSTORE_OCTOPII_SRC / LOGSTORE_DW_SRC point the same harness at a scratch copy (detection-power
    experiments); a separate target directory is used then."""
    o_src = os.environ.get("LOGSTORE_OCTOPII_SRC", "")
    d_src = os.environ.get("LOGSTORE_DW_SRC", "")
    target = os.path.join(C.BUILD, "target-logstore" + ("-mut" if (o_src or d_src) else ""))
    env = {"CARGO_TARGET_DIR": target, "CARGO_NET_OFFLINE": "true", "VERIF_REPO": C.REPO,
           "OCTOPII_SRC": o_src, "DW_SRC": d_src}
    with C.FileLock(os.path.join(C.BUILD, "cargo-logstore.lock")):
        t0 = time.time()
        rc, out = C.sh(["cargo", "build", "--offline", "--quiet"], cwd=CRATE, env=env, timeout=1800)
        if rc != 0:
            raise C.ToolError("logstore-driver build failed (slice markers missing count as this):\n" + out[-6000:])
        C.log("[build] logstore-driver ok (%.0fs)%s" % (time.time() - t0, " [src override %s]" % o_src if o_src else ""))
    binp = os.path.join(target, "debug", "logstore-driver")
    rc, out = C.sh([binp, "info"], timeout=60)
    try:
        info = json.loads(out.strip().splitlines()[-1])
    except Exception:
        raise C.ToolError("logstore-driver info failed:\n" + out[-2000:])
    return binp, info


# ------------------------------------------------------------------------------------------------
# TLC helpers

def _unescape(s):
    return s.encode().decode("unicode_escape")


def _spec(name):
    return os.path.join(C.SPEC, name)


def _cache_path(prefix, files):
    key = C.hash_files(files)
    return os.path.join(C.ensure_dir(os.path.join(C.BUILD, "cache")), "%s_%s.json" % (prefix, key))


def mc_check(module, cfg, deps, tag, workers=8, expect="ok", stutter_actions=(), timeout=1500):
    """Runs a model-checking configuration with -coverage 1 (cached: nothing here depends on /repo).
    expect = "ok": no error, every MC action fires (an action listed in stutter_actions only needs to
    be enabled); expect = "violation": an invariant must be violated and a CEX line printed."""
    files = [_spec(module), _spec(cfg)] + [_spec(d) for d in deps]
    cache = _cache_path("mc_%s" % tag, files)
    if os.path.exists(cache):
        with open(cache) as f:
            return json.load(f)
    with C.FileLock(os.path.join(C.BUILD, "tlc-%s.lock" % tag)):
        if os.path.exists(cache):
            with open(cache) as f:
                return json.load(f)
        wd = os.path.join(C.BUILD, "runs", "mc_%s_%d" % (tag, os.getpid()))
        rc, out, wall = C.tlc(_spec(module), _spec(cfg), wd, workers=workers, extra=["-coverage", "1"], timeout=timeout)
        shutil.rmtree(wd, ignore_errors=True)
        gen, dist = C.tlc_stats(out)
        res = {"cfg": cfg, "states": dist, "transitions": gen, "wall_s": round(wall, 1)}
        if expect == "ok":
            if rc != 0 or "Error" in out or dist == 0:
                raise C.ToolError("%s / %s failed:\n%s" % (module, cfg, out[-3000:]))
            cov = {a: v for a, v in C.tlc_coverage(out).items() if a.startswith("MC") and a != "MCInit"}
            if not cov:
                raise C.ToolError("%s / %s: no coverage output" % (module, cfg))
            for a, (d, t) in cov.items():
                if (t == 0) if a in stutter_actions else (d == 0):
                    raise C.ToolError("%s / %s: action %s never fired (vacuous)" % (module, cfg, a))
            res["coverage"] = {a: list(v) for a, v in cov.items()}
        else:
            cex = re.findall(r'<<"CEX", "(.*)">>', out)
            m = re.search(r"Invariant (\w+) is violated", out)
            if rc == 0 or not cex or not m:
                raise C.ToolError("%s / %s: expected an invariant violation with a CEX line, got rc=%d:\n%s"
                                  % (module, cfg, rc, out[-3000:]))
            res["violated"] = m.group(1)
            res["cex"] = json.loads(_unescape(cex[0]))
            d = re.search(r"depth of the complete state graph search is (\d+)", out)
            res["depth"] = int(d.group(1)) if d else None
        with open(cache, "w") as f:
            json.dump(res, f)
        return res


def tlc_histories(module, cfg, deps, tag, workers=8, simulate=None, timeout=1500):
    """HIST lines of a generation configuration (cached by hash of spec + cfg [+ simulate args])."""
    files = [_spec(module), _spec(cfg)] + [_spec(d) for d in deps]
    cache = _cache_path("gen_%s%s" % (tag, "_sim%s" % re.sub(r"\W", "", simulate) if simulate else ""), files)
    cache = cache[:-5] + ".ndjson"
    meta = cache + ".meta"
    if os.path.exists(cache) and os.path.exists(meta):
        with open(cache) as f:
            hs = [json.loads(x) for x in f]
        with open(meta) as f:
            return hs, json.load(f)
    with C.FileLock(os.path.join(C.BUILD, "tlc-%s.lock" % tag)):
        wd = os.path.join(C.BUILD, "runs", "gen_%s_%d" % (tag, os.getpid()))
        extra = ["-simulate", simulate, "-depth", "10"] if simulate else None
        rc, out, wall = C.tlc(_spec(module), _spec(cfg), wd, workers=workers, extra=extra, timeout=timeout)
        shutil.rmtree(wd, ignore_errors=True)
        if "Error:" in out and not simulate:
            raise C.ToolError("%s / %s (generation) failed:\n%s" % (module, cfg, out[-3000:]))
        seen, hs = set(), []
        for m in re.finditer(r'<<"HIST", "(.*)">>', out):
            s = _unescape(m.group(1))
            if s not in seen:
                seen.add(s)
                hs.append(json.loads(s))
        gen, dist = C.tlc_stats(out)
        if not hs:
            raise C.ToolError("%s / %s generated no history:\n%s" % (module, cfg, out[-2000:]))
        info = {"cfg": cfg, "states": dist, "transitions": gen, "histories": len(hs), "wall_s": round(wall, 1),
                "simulate": simulate}
        with open(cache, "w") as f:
            for h in hs:
                f.write(json.dumps(h) + "\n")
        with open(meta, "w") as f:
            json.dump(info, f)
        return hs, info


# ------------------------------------------------------------------------------------------------
# python models of the log store (generation, guard, diagnosis; never an oracle)

def lid(e):
    return {"t": e["t"], "n": e["n"], "i": e["i"]}


class Mirror:
    def __init__(self):
        self.vote, self.committed, self.purged, self.log = [], [], [], {}

    def apply(self, r):
        k, x = r
        if k == "entry":
            self.log[x["i"]] = x
        elif k == "vote":
            self.vote = [x]
        elif k == "committed":
            self.committed = list(x)
        elif k == "purged":
            self.log = {i: e for i, e in self.log.items() if i > x["i"]}
            self.purged = [x]
        elif k == "trunc":
            self.log = {i: e for i, e in self.log.items() if i < x["i"]}

    def last(self):
        if self.log:
            return [lid(self.log[max(self.log)])]
        return list(self.purged)


def records(op):
    k = op.get("op") or op.get("ev")
    if k == "append":
        return [("entry", e) for e in op["es"]]
    if k == "truncate":
        return [("trunc", op["at"])]
    if k == "purge":
        return [("purged", op["at"])]
    if k == "save_vote":
        return [("vote", op["v"])]
    if k == "save_committed":
        return [("committed", op["c"])]
    return []


class StoreModel:
    """consuming=False: the contract (a restart changes nothing = replay of everything);
    consuming=True: the design of the code (replay of the records after the persisted read cursor)."""

    def __init__(self, consuming):
        self.consuming = consuming
        self.wal, self.cur, self.mirror = [], 0, Mirror()
        self.pwal, self.pcur, self.loaded, self.peers = [], 0, {}, {}

    def do(self, op):
        k = op.get("op") or op.get("ev")
        if k == "record_peer":
            self.pwal.append((op["id"], op["addr"]))
            self.peers[op["id"]] = op["addr"]
            return
        for r in records(op):
            self.wal.append(r)
            self.mirror.apply(r)

    def reopen(self):
        start = self.cur if self.consuming else 0
        self.mirror = Mirror()
        for r in self.wal[start:]:
            self.mirror.apply(r)
        self.cur = len(self.wal)
        pstart = self.pcur if self.consuming else 0
        self.loaded = {}
        for i, a in self.pwal[pstart:]:
            self.loaded[i] = a
        self.pcur = len(self.pwal)

    def predict(self, ev):
        k = ev.get("op") or ev.get("ev")
        m = self.mirror
        if k == "read_vote":
            return {"v": list(m.vote)}
        if k == "read_committed":
            return {"c": list(m.committed)}
        if k == "get_log_state":
            return {"purged": list(m.purged), "last": m.last()}
        if k == "get_entries":
            lo, hi = ev.get("lo", 0), ev.get("hi", ALL_HI)
            return {"es": [m.log[i] for i in sorted(m.log) if lo <= i < hi]}
        if k == "load_peers":
            return {"m": [[i, self.loaded[i]] for i in sorted(self.loaded)]}
        return {}

    def state(self):
        m = self.mirror
        return {"vote": m.vote, "committed": m.committed, "purged": m.purged,
                "log": [m.log[i] for i in sorted(m.log)], "peers": [[i, self.peers[i]] for i in sorted(self.peers)]}


def design_predicts_divergence(ops):
    """True iff the design model (consuming replay) reports, after some reopen of this history,
    something else than the contract: the trigger of the known defect (the avoidance guard is its
    negation)."""
    a, d = StoreModel(False), StoreModel(True)
    for o in ops:
        if o["op"] == "reopen":
            a.reopen()
            d.reopen()
            if a.mirror.__dict__ != d.mirror.__dict__ or a.loaded != d.loaded:
                return True
        elif o["op"] in MUT:
            a.do(o)
            d.do(o)
    return False


# ------------------------------------------------------------------------------------------------
# histories

def concretize(hist, rng):
    """TLC history -> driver operations: the reopen flavour (same / new process, clean / killed) is
    chosen here (the models do not distinguish them); a final `observe` checks the in-memory state."""
    ops = []
    for o in hist:
        o = dict(o)
        if o["op"] == "reopen":
            kind, proc = rng.choice(REOPEN_FLAVOURS)
            o = {"op": "reopen", "kind": kind, "proc": proc}
        ops.append(o)
    if not ops or ops[-1]["op"] != "reopen":
        ops.append({"op": "observe"})
    return ops


VOTES = [{"t": 1, "n": 1, "c": False}, {"t": 2, "n": 2, "c": True}, {"t": 3, "n": 1, "c": False}, {"t": 3, "n": 1, "c": True}]
ADDRS = ["127.0.0.1:7002", "[::1]:7003", "10.0.0.3:7003", "127.0.0.1:65535"]


def random_history(rng, max_ops=8, max_reopens=4, guard=False):
    """Well-formed use of the store API (indexes consecutive after the last one, truncate / purge at
    existing entries, purge monotone) with 1..max_reopens reopens."""
    for _ in range(200):
        a = StoreModel(False)
        ops, nd, term = [], 1, 1
        n_ops = rng.randint(2, max_ops)
        n_re = rng.randint(1, max_reopens)
        slots = sorted(rng.sample(range(1, n_ops + n_re + 1), n_re))
        pos = 0
        for step in range(1, n_ops + n_re + 1):
            if step in slots:
                kind, proc = rng.choice(REOPEN_FLAVOURS)
                ops.append({"op": "reopen", "kind": kind, "proc": proc})
                a.reopen()
                continue
            pos += 1
            m = a.mirror
            last = max(m.log) if m.log else (m.purged[0]["i"] if m.purged else 0)
            choice = rng.choice(["append", "append", "append", "truncate", "purge", "save_vote", "save_committed",
                                 "record_peer", "get_entries"])
            o = None
            if choice == "append":
                if rng.random() < 0.25:
                    term += 1
                es = []
                for j in range(rng.randint(1, 3)):
                    k = rng.choice(["normal", "normal", "blank", "membership"])
                    d = 0 if k == "blank" else (rng.randint(1, 4) if k == "membership" else nd)
                    if k == "normal":
                        nd += 1
                    es.append({"t": term, "n": 1, "i": last + 1 + j, "k": k, "d": d})
                o = {"op": "append", "es": es}
            elif choice == "truncate" and m.log:
                o = {"op": "truncate", "at": lid(m.log[rng.choice(sorted(m.log))])}
            elif choice == "purge" and m.log:
                o = {"op": "purge", "at": lid(m.log[rng.choice(sorted(m.log))])}
            elif choice == "save_vote":
                o = {"op": "save_vote", "v": rng.choice(VOTES)}
            elif choice == "save_committed":
                o = {"op": "save_committed", "c": [lid(m.log[rng.choice(sorted(m.log))])] if m.log and rng.random() < 0.8 else []}
            elif choice == "record_peer":
                o = {"op": "record_peer", "id": rng.choice([2, 3, 4]), "addr": rng.choice(ADDRS)}
            elif choice == "get_entries":
                lo = rng.randint(0, last + 1)
                o = {"op": "get_entries", "lo": lo, "hi": lo + rng.randint(0, 3)}
            if o is None:
                o = {"op": "save_vote", "v": rng.choice(VOTES)}
            ops.append(o)
            if o["op"] in MUT:
                a.do(o)
        if ops[-1]["op"] != "reopen":
            ops.append({"op": "observe"})
        if guard and design_predicts_divergence(ops):
            continue
        return ops
    # fallback for the guarded corpus: one reopen at the end
    return [{"op": "save_vote", "v": VOTES[0]}, {"op": "reopen", "kind": "clean", "proc": "same"}]


def midkill_history(rng):
    """One lifetime whose LAST call (a mutation, preferably a multi-entry append) is running when the
    process is killed, then a reopen. One reopen only: outside the known defect's trigger."""
    for _ in range(50):
        ops = [o for o in random_history(rng, max_ops=5, max_reopens=1, guard=True) if o["op"] not in ("reopen", "observe")]
        a = StoreModel(False)
        for o in ops:
            if o["op"] in MUT:
                a.do(o)
        m = a.mirror
        last = max(m.log) if m.log else (m.purged[0]["i"] if m.purged else 0)
        r = rng.random()
        if r < 0.6:
            n = rng.randint(2, 4)
            fin = {"op": "append", "es": [{"t": 3, "n": 1, "i": last + 1 + j, "k": "normal", "d": 900 + j} for j in range(n)]}
        elif r < 0.7 and m.log:
            fin = {"op": "purge", "at": lid(m.log[min(m.log)])}
        elif r < 0.8 and m.log:
            fin = {"op": "truncate", "at": lid(m.log[max(m.log)])}
        elif r < 0.9:
            fin = {"op": "save_vote", "v": rng.choice(VOTES)}
        else:
            fin = {"op": "record_peer", "id": rng.choice([2, 3]), "addr": rng.choice(ADDRS)}
        return ops + [fin, {"op": "reopen", "kind": "killed", "proc": "new", "mid": True, "delay_us": rng.choice([0, 2, 5, 10, 20, 40, 80, 160, 320])}]
    return []


def load_corpus(tag):
    out = []
    for p in sorted(glob.glob(os.path.join(C.VERIF, "corpus", "*.ndjson"))):
        with open(p) as f:
            for line in f:
                line = line.strip()
                if not line or line.startswith("#"):
                    continue
                try:
                    b = json.loads(line)
                except ValueError:
                    continue
                if isinstance(b, dict) and tag in b.get("props", []) and b.get("world") in ("logstore", "raftsm"):
                    out.append(b)
    return out


def signature(ops):
    return json.dumps(ops, sort_keys=True)


def n_reopens(ops):
    return sum(1 for o in ops if o["op"] == "reopen")


def summarize(beh):
    out = []
    for o in beh["ops"]:
        k = o["op"]
        if k == "append":
            out.append("append(%s)" % ",".join("%d:%s%s@t%d" % (e["i"], e["k"][0], e["d"] or "", e["t"]) for e in o["es"]))
        elif k in ("truncate", "purge"):
            out.append("%s(%d)" % (k, o["at"]["i"]))
        elif k == "save_vote":
            out.append("save_vote(t%d,n%d,%s)" % (o["v"]["t"], o["v"]["n"], "c" if o["v"]["c"] else "-"))
        elif k == "save_committed":
            out.append("save_committed(%s)" % (o["c"][0]["i"] if o["c"] else "none"))
        elif k == "record_peer":
            out.append("record_peer(%d,%s)" % (o["id"], o["addr"]))
        elif k == "reopen":
            out.append("reopen(%s,%s%s)" % (o["kind"], o["proc"], ",mid-call" if o.get("mid") else ""))
        else:
            out.append(k)
    return {"id": beh["id"], "ops": out}


# ------------------------------------------------------------------------------------------------
# execution on the real code

def run_histories(binp, behs, tag="c21"):
    """{beh id: [events]} (first event = reset). Scratch: /verif/build/run-logstore-<pid>/ (removed)."""
    root = os.path.join(C.BUILD, "run-logstore-%d" % os.getpid(), tag)
    shutil.rmtree(root, ignore_errors=True)
    C.ensure_dir(root)
    jobs = [(i // CHUNK, behs[i:i + CHUNK]) for i in range(0, len(behs), CHUNK)]

    def job(j):
        idx, chunk = j
        d = C.ensure_dir(os.path.join(root, "j%d" % idx))
        inp, out = os.path.join(d, "in.ndjson"), os.path.join(d, "out.ndjson")
        with open(inp, "w") as f:
            for b in chunk:
                f.write(json.dumps({"id": b["id"], "ops": b["ops"]}) + "\n")
        rc, o = C.sh([binp, "run", "--in", inp, "--out", out, "--dir", os.path.join(d, "data"), "--timeout-s", str(CHILD_TIMEOUT_S)],
                     timeout=3600, env={"WALRUS_QUIET": "1"})
        if rc != 0:
            raise C.ToolError("logstore-driver run failed (rc=%d):\n%s" % (rc, o[-2000:]))
        evs, cur = {}, None
        with open(out) as f:
            for line in f:
                line = line.strip()
                if not line:
                    continue
                e = json.loads(line)
                if e.get("ev") == "reset":
                    cur = e["g"]
                    evs[cur] = [e]
                elif cur is not None:
                    evs[cur].append(e)
        shutil.rmtree(d, ignore_errors=True)
        return evs

    res = {}
    try:
        for evs in C.parallel_map(job, jobs, workers=DRIVER_PROCS):
            res.update(evs)
    finally:
        shutil.rmtree(os.path.join(C.BUILD, "run-logstore-%d" % os.getpid()), ignore_errors=True)
    missing = [b["id"] for b in behs if b["id"] not in res]
    if missing:
        raise C.ToolError("%d histories produced no trace (driver failure), e.g. %s" % (len(missing), missing[:3]))
    return res


def _strip(e):
    return {k: v for k, v in e.items() if k not in ("err", "msg", "fl", "seg", "rc", "in", "us")}


def validate(groups, tag="c21v", workers=6, report="Report"):
    """TLC (Trace_LogStore against LogStore) on every group.
    {gid: {"ok", "matched", "index", "first_unmatched"}} and TLC totals."""
    root = C.ensure_dir(os.path.join(C.BUILD, "runs", "%s-%d" % (tag, os.getpid())))
    gids = list(groups.keys())
    parts, cur, cnt = [], [], 0
    for g in gids:
        n = len(groups[g])
        if cur and cnt + n > TLC_EVENTS:
            parts.append(cur)
            cur, cnt = [], 0
        cur.append(g)
        cnt += n
    if cur:
        parts.append(cur)
    cfg = os.path.join(root, "trace.cfg")
    with open(cfg, "w") as f:
        f.write("SPECIFICATION TSpec\nINVARIANTS %s TypeOK\nCHECK_DEADLOCK FALSE\n" % report)

    def run(pi):
        part = parts[pi]
        d = C.ensure_dir(os.path.join(root, "p%d" % pi))
        tr = os.path.join(d, "trace.ndjson")
        bounds, line = [], 0
        with open(tr, "w") as f:
            for g in part:
                first = line + 1
                for e in groups[g]:
                    f.write(json.dumps(_strip(e)) + "\n")
                    line += 1
                bounds.append((g, first, line))
        rc, out, wall = C.tlc(_spec("Trace_LogStore.tla"), cfg, d, env={"TRACE": tr}, workers=1, timeout=1800)
        if "Error:" in out or rc != 0:
            raise C.ToolError("TLC trace validation (Trace_LogStore) failed to run:\n" + out[-3000:])
        reached = set(int(x) for x in re.findall(r'<<"AT", (\d+)>>', out))
        gen, dist = C.tlc_stats(out)
        verd = {}
        for g, first, last in bounds:
            if (last + 1) in reached:
                verd[g] = {"ok": True, "matched": last - first + 1, "first_unmatched": None}
            else:
                k = max([x for x in reached if first <= x <= last + 1] or [first])
                verd[g] = {"ok": False, "matched": k - first, "index": k - first, "first_unmatched": groups[g][k - first]}
        shutil.rmtree(d, ignore_errors=True)
        return verd, gen, dist

    verdicts, tg, td = {}, 0, 0
    for verd, gen, dist in C.parallel_map(run, list(range(len(parts))), workers=workers):
        verdicts.update(verd)
        tg += gen
        td += dist
    shutil.rmtree(root, ignore_errors=True)
    return verdicts, {"states_generated": tg, "states_distinct": td}


# ------------------------------------------------------------------------------------------------
# divergence description (reports / known-finding matchers; never an oracle)

def _variants(e):
    """Possible effects of a call that was in flight when the process was killed."""
    if e["call"] == "append":
        return [{"op": "append", "es": e["es"][:k]} for k in range(len(e["es"]) + 1)]
    return [None, dict({k: v for k, v in e.items() if k not in ("ev", "call")}, op=e["call"])]


def _walk(events, upto):
    """Candidate (contract, design) model pairs after events[:upto] (one pair unless a call was in
    flight at a kill); also the number of reopens seen."""
    cands = [(StoreModel(False), StoreModel(True))]
    reopens, failed, inflight = 0, False, False
    for e in events[:upto]:
        k = e.get("ev")
        if k == "reopen" and e.get("res") == "ok":
            for a, d in cands:
                a.reopen()
                d.reopen()
            reopens += 1
        elif k in MUT:
            if e.get("res") == "ok":
                for a, d in cands:
                    a.do(e)
                    d.do(e)
            else:
                failed = True
        elif k == "inflight":
            inflight = True
            new = []
            for a, d in cands:
                for var in _variants(e):
                    a2, d2 = copy.deepcopy(a), copy.deepcopy(d)
                    if var:
                        a2.do(var)
                        d2.do(var)
                    new.append((a2, d2))
            cands = new
    return cands, reopens, failed, inflight


def _subset(kind, got, exp):
    if kind in ("read_vote", "read_committed"):
        f = "v" if kind == "read_vote" else "c"
        return got[f] == [] and exp[f] != []
    if kind == "get_log_state":
        return all(got[f] == exp[f] or got[f] == [] for f in ("purged", "last"))
    if kind == "get_entries":
        ge = [json.dumps(x, sort_keys=True) for x in got["es"]]
        ee = [json.dumps(x, sort_keys=True) for x in exp["es"]]
        return set(ge) < set(ee) or (set(ge) <= set(ee) and len(ge) < len(ee))
    if kind == "load_peers":
        gm = [json.dumps(x) for x in got["m"]]
        em = [json.dumps(x) for x in exp["m"]]
        return set(gm) < set(em)
    return False


def classify(events, index):
    e = events[index]
    ev = e.get("ev")
    cands, reopens, failed, inflight = _walk(events, index)
    a, d = cands[-1]
    div = {"ev": ev, "first_bad": ev, "kind": "unmatched", "reopens": reopens, "reopens_ge2": reopens >= 2,
           "after_failed_op": failed, "after_midcall_kill": inflight, "index": index,
           "last_reopen_kind": next((x.get("kind") + "/" + x.get("proc", "?") for x in reversed(events[:index])
                                     if x.get("ev") == "reopen"), None)}
    expected, predicted = None, None
    if ev in ("panic", "hang", "died"):
        div["kind"] = ev
        opens = sum(1 for x in events[:index] if x.get("ev") == "open" or (x.get("ev") == "reopen" and x.get("proc") == "new"))
        if ev == "panic":
            div["during"] = e.get("in")
        elif e.get("seg") is not None and opens == e.get("seg"):
            div["during"] = "open"      # the process lifetime never got past opening the store
        else:
            div["during"] = "call"
    elif ev in ("open", "reopen"):
        div["kind"] = "reopen_failed" if e.get("res") != "ok" else "reopen_unmatched"
    elif ev in OBS:
        if e.get("st", "ok") != "ok":
            div["kind"] = "observation_error"
        else:
            expected, predicted = a.predict(e), d.predict(e)
            got = {k: e.get(k) for k in expected}
            if any(x.get("k") == "foreign" for x in e.get("es", [])):
                div["kind"] = "foreign_payload"
            elif inflight:
                # several outcomes are acceptable; TLC additionally demands one consistent outcome
                ok_some = any(got == ca.predict(e) for ca, _ in cands)
                div["kind"] = "inconsistent_after_midcall_kill" if ok_some else "state_wrong_after_midcall_kill"
                expected = [ca.predict(e) for ca, _ in cands]
            elif got == expected:
                div["kind"] = "unmatched"   # TLC rejected what the python contract model accepts: tool problem
            elif reopens == 0:
                div["kind"] = "state_wrong_before_reopen"
            elif _subset(ev, got, expected):
                div["kind"] = "state_lost_after_reopen"
            else:
                div["kind"] = "state_wrong_after_reopen"
            if not inflight:
                div["explained_by_consumed_replay"] = (got == predicted and got != expected)
                div["lost"] = [k for k in expected if got.get(k) != expected[k]]
    elif ev in MUT:
        div["kind"] = "mutation_unmatched"
    return div, {"expected_by_contract": expected, "predicted_by_design": predicted, "contract_state_before": a.state()}


def design_drift(events):
    """Observations of an execution that differ from what the design model (consuming replay)
    predicts: 0 when the design spec describes the code."""
    a, d = StoreModel(False), StoreModel(True)
    n = 0
    if any(e.get("ev") == "inflight" for e in events):
        return 0
    for e in events:
        k = e.get("ev")
        if k == "reopen" and e.get("res") == "ok":
            a.reopen()
            d.reopen()
        elif k in MUT and e.get("res") == "ok":
            a.do(e)
            d.do(e)
        elif k in OBS and e.get("st", "ok") == "ok":
            p = d.predict(e)
            if {x: e.get(x) for x in p} != p:
                n += 1
    return n


# ------------------------------------------------------------------------------------------------
# binding self-test

def synth_trace(gid, ops):
    """The trace a store that satisfies the contract would produce for these operations."""
    a = StoreModel(False)
    evs = [{"ev": "reset", "g": gid}, {"ev": "open", "res": "ok"}]

    def observe():
        for k in ("load_peers",):
            evs.append(dict({"ev": k}, **a.predict({"ev": k})))
        for k in ("read_vote", "read_committed", "get_log_state"):
            evs.append(dict({"ev": k, "st": "ok"}, **a.predict({"ev": k})))
        evs.append(dict({"ev": "get_entries", "lo": 0, "hi": ALL_HI, "st": "ok"}, **a.predict({"ev": "get_entries"})))

    a.reopen()
    observe()
    for o in ops:
        k = o["op"]
        if k == "reopen":
            a.reopen()
            evs.append({"ev": "reopen", "kind": o["kind"], "proc": o.get("proc", "new"), "res": "ok"})
            observe()
        elif k in MUT:
            a.do(o)
            e = {kk: v for kk, v in o.items() if kk != "op"}
            e.update({"ev": k, "res": "ok"})
            evs.append(e)
    return evs


def selftest():
    """Corrupts one recorded field of a conforming trace at a time and requires TLC to reject each
    corrupted trace at that event, and to accept the uncorrupted one. Failure => ToolError."""
    e1 = {"t": 1, "n": 1, "i": 1, "k": "normal", "d": 1}
    e2 = {"t": 1, "n": 1, "i": 2, "k": "blank", "d": 0}
    e3 = {"t": 2, "n": 1, "i": 3, "k": "membership", "d": 2}
    ops = [{"op": "save_vote", "v": VOTES[0]}, {"op": "append", "es": [e1, e2, e3]},
           {"op": "save_committed", "c": [lid(e2)]}, {"op": "record_peer", "id": 2, "addr": ADDRS[0]},
           {"op": "record_peer", "id": 3, "addr": ADDRS[1]}, {"op": "reopen", "kind": "killed", "proc": "new"},
           {"op": "purge", "at": lid(e1)}, {"op": "truncate", "at": lid(e3)},
           {"op": "reopen", "kind": "clean", "proc": "same"}]
    base = synth_trace("base", ops)
    groups = {"base": base}
    expect = {}
    must_pass = []

    def last_index(pred):
        return max(i for i, e in enumerate(base) if pred(e))

    def mutant(name, idx, fn):
        t = copy.deepcopy(base)
        t[0]["g"] = name
        fn(t, idx)
        groups[name] = t
        expect[name] = idx

    i_vote = last_index(lambda e: e["ev"] == "read_vote")
    mutant("vote_changed", i_vote, lambda t, i: t[i].__setitem__("v", [VOTES[1]]))
    mutant("vote_lost", i_vote, lambda t, i: t[i].__setitem__("v", []))
    i_ent = last_index(lambda e: e["ev"] == "get_entries")
    mutant("entry_dropped", i_ent, lambda t, i: t[i].__setitem__("es", t[i]["es"][:-1]))
    # a get_entries result that still holds the purged entry (the one before the last reopen had 3 entries)
    i_ent_mid = [i for i, e in enumerate(base) if e["ev"] == "get_entries"][-2]
    mutant("entry_payload_changed", i_ent_mid,
           lambda t, i: t[i]["es"].__setitem__(0, dict(t[i]["es"][0], d=7)))
    mutant("entries_reordered", i_ent_mid, lambda t, i: t[i].__setitem__("es", list(reversed(t[i]["es"]))))
    i_ls = last_index(lambda e: e["ev"] == "get_log_state")
    mutant("purged_lost", i_ls, lambda t, i: t[i].__setitem__("purged", []))
    mutant("last_changed", i_ls, lambda t, i: t[i].__setitem__("last", [lid(e3)]))
    i_com = last_index(lambda e: e["ev"] == "read_committed")
    mutant("committed_lost", i_com, lambda t, i: t[i].__setitem__("c", []))
    i_peers = last_index(lambda e: e["ev"] == "load_peers")
    mutant("peer_dropped", i_peers, lambda t, i: t[i].__setitem__("m", t[i]["m"][:1]))
    mutant("peer_addr_changed", i_peers, lambda t, i: t[i]["m"].__setitem__(0, [2, ADDRS[2]]))
    # dropping a mutating event makes the next observation (after the following reopen) unmatched
    i_purge = last_index(lambda e: e["ev"] == "purge")
    t = copy.deepcopy(base)
    t[0]["g"] = "purge_event_dropped"
    del t[i_purge]
    groups["purge_event_dropped"] = t
    expect["purge_event_dropped"] = None
    t = copy.deepcopy(base)
    t[0]["g"] = "panic_event"
    t.insert(5, {"ev": "panic", "in": "append"})
    groups["panic_event"] = t
    expect["panic_event"] = 5
    # a call in flight at a kill: any prefix of its entries may survive, nothing else
    e4 = {"t": 2, "n": 1, "i": 3, "k": "normal", "d": 8}
    e5 = {"t": 2, "n": 1, "i": 4, "k": "normal", "d": 9}
    for name, survivors, okk in (("inflight_prefix", [e4], True), ("inflight_none", [], True), ("inflight_all", [e4, e5], True),
                                 ("inflight_nonprefix", [e5], False)):
        t = copy.deepcopy(base)
        t[0]["g"] = name
        a = StoreModel(False)
        for o in ops:
            if o["op"] in MUT:
                a.do(o)
        a.do({"op": "append", "es": survivors})
        a.reopen()
        t.append({"ev": "inflight", "call": "append", "es": [e4, e5]})
        t.append({"ev": "reopen", "kind": "killed", "proc": "new", "res": "ok"})
        t.append(dict({"ev": "load_peers"}, **a.predict({"ev": "load_peers"})))
        for k in ("read_vote", "read_committed", "get_log_state"):
            t.append(dict({"ev": k, "st": "ok"}, **a.predict({"ev": k})))
        t.append(dict({"ev": "get_entries", "lo": 0, "hi": ALL_HI, "st": "ok"}, **a.predict({"ev": "get_entries"})))
        groups[name] = t
        if okk:
            must_pass.append(name)
        else:
            expect[name] = None
    verd, _ = validate(groups, tag="c21self")
    for name in must_pass:
        if not verd[name]["ok"]:
            raise C.ToolError("C21 self-test: conforming trace '%s' was rejected at event %d" % (name, verd[name]["index"]))
    if not verd["base"]["ok"]:
        raise C.ToolError("C21 self-test: the conforming trace was rejected at event %d: %s"
                          % (verd["base"]["index"], json.dumps(verd["base"]["first_unmatched"])))
    for name, idx in expect.items():
        v = verd[name]
        if v["ok"]:
            raise C.ToolError("C21 self-test: corrupted trace '%s' was accepted by TLC" % name)
        if idx is not None and v["index"] != idx:
            raise C.ToolError("C21 self-test: corrupted trace '%s' rejected at event %d, expected %d" % (name, v["index"], idx))
    return {"mutants_rejected": len(expect), "names": sorted(expect)}


# ------------------------------------------------------------------------------------------------
# C21

LS_DEPS = ["LogStore.tla"]
C21_ASSUMPTIONS = [
    "openraft, tokio, futures, bincode, quinn are local shims (harness/logstore/shims): octopii's wal/mod.rs, "
    "wal/wal/**, openraft/{types,storage}.rs, error.rs, state_machine.rs are compiled unmodified via #[path]; the "
    "peer-address items are a textual slice of openraft/node.rs (build fails when the markers are missing)",
    "the data plane is octopii's real vendored engine with real files; io-uring 0.7.10 stands in for 0.6",
    "killed = the process _exit()s between two calls (no destructor, background threads die); power loss is not modelled",
    "a kill in the middle of a store call is exercised by a timer thread (_exit after 0-200 us, not reproducible by seed): "
    "the call then counts as unacknowledged and the contract allows either outcome (any prefix of a multi-entry append), "
    "as for calls that returned an error; crash points inside the engine are not enumerated (no hook in octopii)",
    "payload bytes are mapped to keys and back by the harness; byte identity is checked there",
    "TLC's verdict on a trace is the contract LogStore as written in /verif/spec",
]


def c21_histories(tier, seed):
    rng = random.Random(seed * 7919 + 21)
    thorough = tier == "thorough"
    behs, info = [], {}
    # committed regression / reproducer histories first
    for b in load_corpus("C21"):
        behs.append({"id": "corpus_" + b["id"], "ops": b["ops"], "src": "corpus", "guarded": not design_predicts_divergence(b["ops"])})
    # TLC-generated: unrestricted and guarded (CONSTRAINT ObsEqual)
    hs_u, gi_u = tlc_histories("MC_LogStore.tla", "MC_LogStore_gen.cfg", LS_DEPS, "ls_gen")
    hs_g, gi_g = tlc_histories("MC_LogStore.tla", "MC_LogStore_gen_guard.cfg", LS_DEPS, "ls_gen_guard")
    info["tlc_gen_unrestricted"], info["tlc_gen_guarded"] = gi_u, gi_g
    n_u, n_g = (2500, 2500) if thorough else (260, 260)
    # stratify the unrestricted sample: half with one reopen, half with two or more
    one = [h for h in hs_u if n_reopens(h) == 1]
    more = [h for h in hs_u if n_reopens(h) >= 2]
    pick = rng.sample(one, min(len(one), n_u // 2)) + rng.sample(more, min(len(more), n_u - n_u // 2))
    for i, h in enumerate(pick):
        ops = concretize(h, rng)
        behs.append({"id": "tlcU_%d" % i, "ops": ops, "src": "tlc", "guarded": not design_predicts_divergence(ops)})
    gmore = [h for h in hs_g if n_reopens(h) >= 2]
    gone = [h for h in hs_g if n_reopens(h) == 1]
    pick = rng.sample(gmore, min(len(gmore), n_g // 2))
    pick += rng.sample(gone, min(len(gone), n_g - len(pick)))
    for i, h in enumerate(pick):
        ops = concretize(h, rng)
        if design_predicts_divergence(ops):
            raise C.ToolError("python design model disagrees with MC_LogStore (CONSTRAINT ObsEqual) on %s" % json.dumps(h))
        behs.append({"id": "tlcG_%d" % i, "ops": ops, "src": "tlc_guard", "guarded": True})
    if thorough:
        hs_s, gi_s = tlc_histories("MC_LogStore.tla", "MC_LogStore_gen_deep.cfg", LS_DEPS, "ls_gen_deep",
                                   simulate="num=3000", workers=4)
        info["tlc_gen_simulate"] = gi_s
        # keep maximal behaviours only
        sigs = sorted((json.dumps(h) for h in hs_s), key=len, reverse=True)
        keep = []
        for s in sigs:
            if not any(k.startswith(s[:-1]) for k in keep):
                keep.append(s)
        for i, s in enumerate(rng.sample(keep, min(len(keep), 1500))):
            ops = concretize(json.loads(s), rng)
            behs.append({"id": "tlcS_%d" % i, "ops": ops, "src": "tlc_sim", "guarded": not design_predicts_divergence(ops)})
    # seeded random
    n_r = 1500 if thorough else 140
    for i in range(n_r):
        ops = random_history(rng, max_ops=10 if thorough else 8, max_reopens=4, guard=False)
        behs.append({"id": "rndU_%d" % i, "ops": ops, "src": "random", "guarded": not design_predicts_divergence(ops)})
    for i in range(n_r):
        ops = random_history(rng, max_ops=10 if thorough else 8, max_reopens=4, guard=True)
        behs.append({"id": "rndG_%d" % i, "ops": ops, "src": "random_guard", "guarded": True})
    for i in range(1200 if thorough else 80):
        behs.append({"id": "midkill_%d" % i, "ops": midkill_history(rng), "src": "random_midkill", "guarded": True})
    return behs, info


def c21_run(tier, binp, behs, findings, pid="C21", traces=None):
    traces = dict(traces or {})
    todo = [b for b in behs if b["id"] not in traces]
    if todo:
        traces.update(run_histories(binp, todo))
    verd, stats = validate(traces)
    byid = {b["id"]: b for b in behs}
    known, violations, drift = {}, [], 0
    rejected = [g for g in verd if not verd[g]["ok"]]
    rej_guarded = 0
    for g in traces:
        if verd[g]["ok"]:
            drift += 1 if design_drift(traces[g]) else 0
    for g in rejected:
        v = verd[g]
        div, diag = classify(traces[g], v["index"])
        div["guarded_corpus"] = bool(byid[g].get("guarded"))
        div["n_ops"] = len([o for o in byid[g]["ops"] if o["op"] in MUT or o["op"] == "reopen"])
        if byid[g].get("guarded"):
            rej_guarded += 1
        if not div.get("explained_by_consumed_replay"):
            drift += 1
        if div["kind"] == "unmatched":
            raise C.ToolError("TLC rejected event %d of %s although the python contract model accepts it: %s"
                              % (v["index"], g, json.dumps(v["first_unmatched"])))
        f = C.match_finding(findings, pid, div)
        if f is not None:
            rec = known.setdefault(f["id"], {"finding": f, "count": 0, "example": summarize(byid[g])})
            rec["count"] += 1
        else:
            violations.append((g, div, diag))
    return traces, verd, stats, known, violations, drift, rejected, rej_guarded


def c21(tier):
    t0 = time.time()
    pid = "C21"
    st = selftest()
    binp, binfo = build_driver()
    findings = C.load_findings()
    thorough = tier == "thorough"
    # the design layer against the contract: PersistCursor = FALSE holds, PersistCursor = TRUE (the code, known finding) must not
    mc = mc_check("MC_LogStore.tla", "MC_LogStore_%s.cfg" % ("thorough" if thorough else "quick"), LS_DEPS,
                  "ls_%s" % tier, stutter_actions=("MCObserve",))
    defect = mc_check("MC_LogStore.tla", "MC_LogStore_defect.cfg", LS_DEPS, "ls_defect", workers=1, expect="violation")
    rng = random.Random(C.seed())
    cex_ops = concretize(defect["cex"], rng)
    behs, geninfo = c21_histories(tier, C.seed())
    behs.insert(0, {"id": "tlc_shortest_cex", "ops": cex_ops, "src": "tlc_cex", "guarded": False})
    # probe: the counterexample and the committed corpus first; if the store hangs on most of them the bulk is
    # skipped (every hung process lifetime costs its watchdog), the violations are reported from the probe
    probe = [b for b in behs if b["src"] in ("tlc_cex", "corpus")]
    ptraces = run_histories(binp, probe, tag="c21probe")
    hung = sum(1 for t in ptraces.values() if any(e.get("ev") == "hang" for e in t))
    bulk_skipped = hung * 2 >= len(probe)
    if bulk_skipped:
        C.log("[C21] %d of %d probe histories hang: generated corpus skipped" % (hung, len(probe)))
        behs = probe
    traces, verd, stats, known, violations, drift, rejected, rej_guarded = c21_run(tier, binp, behs, findings, traces=ptraces)
    byid = {b["id"]: b for b in behs}
    cex_confirmed = not verd["tlc_shortest_cex"]["ok"]
    if not cex_confirmed:
        print("MODEL-DRIFT: the design spec MC_LogStore (PersistCursor = TRUE) predicts a C21 violation for %s but the "
              "real store conformed" % json.dumps(summarize(byid["tlc_shortest_cex"])["ops"]))
    if drift:
        print("MODEL-DRIFT: %d execution(s) observed something else than the design model (consuming replay) predicts" % drift)
    # report: minimal failing histories first, one line per distinct (kind, first_bad, reopens)
    violations.sort(key=lambda x: (x[1]["n_ops"], len(traces[x[0]]), x[0]))
    lines, seen_sig = [], set()
    for g, div, diag in violations:
        sig = (div["kind"], div["first_bad"], div["reopens"], div.get("explained_by_consumed_replay"), div.get("during"))
        if sig in seen_sig or len(lines) >= MAX_VIOLATION_LINES:
            continue
        seen_sig.add(sig)
        v = verd[g]
        path = C.save_replay(pid, "%s_%s_%s" % (pid, g, div["kind"]), {
            "property": pid, "behaviour": {"id": g, "ops": byid[g]["ops"]}, "summary": summarize(byid[g])["ops"],
            "divergence": div, "first_unmatched_event": v["first_unmatched"], "matched_events": v["matched"],
            "expected_by_contract": diag["expected_by_contract"], "predicted_by_design_model": diag["predicted_by_design"],
            "contract_state_before (python reference model, diagnostic)": diag["contract_state_before"],
            "trace": traces[g], "octopii_src": binfo.get("octopii_src"),
            "code_location": "octopii/src/wal/mod.rs:138-175 (read_all: batch_read_for_topic(.., checkpoint=true)) with "
                             "octopii/src/wal/mod.rs:82-86 (ReadConsistency::StrictlyAtOnce), replayed by "
                             "octopii/src/openraft/storage.rs:438-478 (recover_from_wal) and "
                             "octopii/src/openraft/node.rs:%s (load_peer_addr_records)" % binfo.get("peer_slice_lines"),
            "rerun": "./check C21 --replay <this file>"})
        lines.append((path, div))
    for fid, rec in sorted(known.items()):
        print("KNOWN-FINDING: property=%s %s [%s, seen %d time(s), e.g. %s]"
              % (pid, rec["finding"]["what_fails"], fid, rec["count"], " ; ".join(rec["example"]["ops"])))
    for path, div in lines:
        print("VIOLATION property=%s replay=%s" % (pid, path))
        C.log("  divergence: %s" % json.dumps(div))
    distinct = len(set(signature(b["ops"]) for b in behs if n_reopens(b["ops"]) >= 1
                       and any(o["op"] in MUT for o in b["ops"])))
    by_src = {}
    for b in behs:
        s = by_src.setdefault(b["src"], {"n": 0, "rejected": 0})
        s["n"] += 1
        s["rejected"] += 0 if verd[b["id"]]["ok"] else 1
    minimal = None
    if violations or known:
        allrej = sorted(rejected, key=lambda g: (len([o for o in byid[g]["ops"] if o["op"] != "observe"]), len(traces[g]), g))
        minimal = summarize(byid[allrej[0]])
    coverage = {
        "states": mc["states"], "transitions": mc["transitions"],
        "traces_validated_against_impl": len(traces),
        "samples": [summarize(b) for b in behs[:4]],
        "evaluations": len(traces), "distinct_nontrivial": distinct,
        "rule": "histories = committed corpus + the shortest counterexample of the design model + TLC-generated histories "
                "(MC_LogStore, one per distinct state reached by a reopen, sampled with VERIF_SEED; unrestricted and "
                "with CONSTRAINT ObsEqual as avoidance guard) + seeded random well-formed histories (unrestricted and "
                "guarded); each is executed on the real WalLogStore/WriteAheadLog/peer-address functions in child processes "
                "(killed = _exit between calls), every call and its result recorded, all observation calls issued after "
                "every (re)open, and the trace validated event by event by TLC against LogStore; distinct = distinct "
                "operation sequences with >= 1 mutation and >= 1 reopen",
        "design_model": mc, "design_model_defect": {k: defect[k] for k in ("cfg", "states", "transitions", "violated", "depth")},
        "design_shortest_counterexample": summarize({"id": "cex", "ops": cex_ops})["ops"],
        "design_counterexample_confirmed_on_real_code": cex_confirmed,
        "generation": geninfo, "by_source": by_src,
        "trace_events": sum(len(t) for t in traces.values()), "trace_tlc_states": stats["states_distinct"],
        "rejected_traces": len(rejected), "rejected_in_guarded_corpus": rej_guarded,
        "guarded_histories": sum(1 for b in behs if b.get("guarded")),
        "histories_with_2plus_reopens": sum(1 for b in behs if n_reopens(b["ops"]) >= 2),
        "midcall_kills_that_hit_a_running_call": sum(1 for t in traces.values() if any(e.get("ev") == "inflight" for e in t)),
        "model_drift": drift, "selftest": st, "generated_corpus_skipped_because_probe_hangs": bulk_skipped,
        "known_findings_seen": {k: v["count"] for k, v in known.items()},
        "minimal_failing_history": minimal,
        "peer_slice_lines": binfo.get("peer_slice_lines"),
    }
    C.write_evidence(pid, tier, "model_checking", coverage, time.time() - t0, assumptions=C21_ASSUMPTIONS,
                     violations=len(violations))
    return C.EXIT_VIOLATION if violations else C.EXIT_OK


def replay_c21(path):
    with open(path) as f:
        r = json.load(f)
    binp, _ = build_driver()
    beh = r["behaviour"]
    traces = run_histories(binp, [beh], tag="replay")
    verd, _ = validate(traces, tag="c21replay")
    v = verd[beh["id"]]
    if v["ok"]:
        print("replay %s: accepted by the contract (%d events)" % (beh["id"], v["matched"]))
        return C.EXIT_OK
    div, diag = classify(traces[beh["id"]], v["index"])
    print("VIOLATION property=C21 replay=%s" % path)
    C.log("  first unmatched event %d: %s\n  expected by the contract: %s\n  divergence: %s"
          % (v["index"], json.dumps(v["first_unmatched"]), json.dumps(diag["expected_by_contract"]), json.dumps(div)))
    return C.EXIT_VIOLATION


# ------------------------------------------------------------------------------------------------
# C20, adapter half

SM_DEPS = ["RaftSM.tla"]
C20_ASSUMPTIONS = [
    "openraft's types and storage traits are shims (harness/logstore/shims/openraft); only the adapter's logic "
    "(octopii/src/openraft/storage.rs MemStateMachine) and the application (distributed-walrus/src/metadata.rs, "
    "octopii's KvStateMachine) are the repository's code, compiled unmodified",
    "bincode is a shim with the bincode-1.3 layout: snapshot bytes and decode errors are the shim's",
    "Raft itself is assumed (C19): both nodes are fed the same committed entries in order",
    "oracle = the application alone applying the same entry prefix (real Metadata as its own reference)",
]
META_CMDS = [
    {"c": "create", "name": "t1", "leader": 1}, {"c": "upsert", "node": 1, "addr": "10.0.0.1:6001"},
    {"c": "rollover", "name": "t1", "leader": 2, "count": 3}, {"c": "create", "name": "t2", "leader": 2},
    {"c": "upsert", "node": 2, "addr": "10.0.0.2:6002"}, {"c": "rollover", "name": "t1", "leader": 1, "count": 0},
    {"c": "create", "name": "t1", "leader": 3}, {"c": "rollover", "name": "t2", "leader": 3, "count": 7},
    # overwrites: install must REPLACE the follower's state, a merge keeps the stale value
    {"c": "upsert", "node": 2, "addr": "10.0.0.9:6002"}, {"c": "upsert", "node": 1, "addr": "10.0.0.7:6001"},
    {"c": "upsert", "node": 2, "addr": "10.0.0.2:6002"},
]
# a pool in which most commands overwrite what an earlier one wrote (half of the cases draw from it)
OVERWRITE_CMDS = [
    {"c": "upsert", "node": 1, "addr": "10.0.0.1:6001"}, {"c": "upsert", "node": 2, "addr": "10.0.0.2:6002"},
    {"c": "upsert", "node": 2, "addr": "10.0.0.9:6002"}, {"c": "upsert", "node": 1, "addr": "10.0.0.7:6001"},
    {"c": "create", "name": "t1", "leader": 1}, {"c": "rollover", "name": "t1", "leader": 2, "count": 3},
    {"c": "upsert", "node": 2, "addr": "10.0.0.2:6002"}, {"c": "rollover", "name": "t1", "leader": 1, "count": 5},
]
KV_CMDS = [{"c": "set", "key": "a", "val": "1"}, {"c": "set", "key": "b", "val": "2"}, {"c": "delete", "key": "a"},
           {"c": "set", "key": "a", "val": "3"}, {"c": "get", "key": "b"}]


def sm_case_from_hist(cid, hist, app, rng):
    """TLC history of MC_RaftSM -> harness case. Command ids become concrete commands (a rollover is
    only used after its topic was created, so every command succeeds, as in the model)."""
    entries, ops, created = [], [], set()
    pool = OVERWRITE_CMDS if rng.random() < 0.5 else META_CMDS
    for o in hist:
        if o["op"] == "commit":
            e = o["e"]
            if e["k"] == "normal":
                if app == "kv":
                    cmd = KV_CMDS[(e["c"] - 1) % len(KV_CMDS)]
                else:
                    cands = [c for c in pool if c["c"] != "rollover" or c["name"] in created]
                    cmd = cands[(e["c"] * 3 + rng.randint(0, 2)) % len(cands)]
                    if cmd["c"] == "create":
                        created.add(cmd["name"])
                entries.append({"k": "normal", "cmd": cmd})
            elif e["k"] == "membership":
                entries.append({"k": "membership", "d": 1 + len(entries) % 3})
            else:
                entries.append({"k": "blank"})
        elif o["op"] == "apply":
            ops.append({"op": "apply", "n": o["n"], "k": o["k"]})
        elif o["op"] == "build":
            ops.append({"op": "build", "n": o["n"]})
        elif o["op"] == "install":
            x = {"op": "install", "m": o["m"], "from": o["from"]}
            if o.get("corrupt"):
                x["corrupt"] = True
            ops.append(x)
    # afterwards: the same subsequent commands on both
    n = len(entries)
    ops += [{"op": "apply", "n": "A", "k": n}, {"op": "apply", "n": "B", "k": n}]
    return {"id": cid, "app": app, "entries": entries, "ops": ops}


def sm_random_case(cid, rng, app):
    n = rng.randint(1, 7)
    rpool = OVERWRITE_CMDS if rng.random() < 0.5 else META_CMDS
    entries, created = [], set()
    for _ in range(n):
        r = rng.random()
        if r < 0.15:
            entries.append({"k": "blank"})
        elif r < 0.3:
            entries.append({"k": "membership", "d": rng.randint(1, 4)})
        elif app == "kv":
            entries.append({"k": "normal", "cmd": rng.choice(KV_CMDS)})
        else:
            cands = [c for c in rpool if c["c"] != "rollover" or c["name"] in created]
            cmd = dict(rng.choice(cands))
            if cmd["c"] == "rollover":
                cmd["count"] = rng.choice([0, 1, 5, 1000])
            if cmd["c"] == "create":
                created.add(cmd["name"])
            entries.append({"k": "normal", "cmd": cmd})
    j = rng.randint(0, n)
    k = rng.randint(0, j)
    ops = []
    if j:
        ops += [{"op": "apply", "n": "A", "k": x} for x in _split(j, rng)]
    if k:
        ops += [{"op": "apply", "n": "B", "k": x} for x in _split(k, rng)]
    ops += [{"op": "build", "n": "A"}]
    if rng.random() < 0.3:
        ops += [{"op": "install", "m": "B", "from": "A", "corrupt": True}]
    ops += [{"op": "install", "m": "B", "from": "A"}]
    ops += [{"op": "apply", "n": "A", "k": n}, {"op": "apply", "n": "B", "k": n}]
    return {"id": cid, "app": app, "entries": entries, "ops": ops}


def _split(n, rng):
    out = []
    while n > 0:
        x = rng.randint(1, n)
        out.append(x)
        n -= x
    return out


def _idx(view):
    la = view["last_applied"]
    return la[0]["i"] if la else 0


def sm_judge(case, res):
    """The contract of the adapter half on one recorded execution. Returns (divergence or None, drift notes)."""
    drift = []
    if "panic" in res:
        return {"kind": "panic", "msg": res["panic"][:200]}, drift
    ref = res["ref"]
    built = {}
    for si, step in enumerate(res["steps"]):
        op, r, views = step["op"], step.get("res"), step["views"]
        if op["op"] == "build":
            if r.get("res") != "ok":
                return {"kind": "build_failed", "step": si, "err": r.get("err")}, drift
            built[op["n"]] = {"view": views[op["n"]], "res": r}
            if not r.get("current_snapshot_matches"):
                drift.append("get_current_snapshot after build_snapshot does not return the built snapshot")
        elif op["op"] == "install":
            if r.get("res") == "skipped":
                continue
            src = built.get(op["from"])
            attrs = {"step": si, "app": res["app"], "snapshot_len": src["res"]["len"] if src else None,
                     "snapshot_is_adapter_map": bool(src) and not src["res"]["equals_app_snapshot"]
                     and src["res"]["bytes_hex"] == "00" * 8,
                     "sender_state_empty": bool(src) and src["view"]["app"] == ref[0]}
            if op.get("corrupt"):
                before = res["steps"][si - 1]["views"][op["m"]] if si > 0 else None
                now = views[op["m"]]
                if r.get("res") == "ok":
                    return dict({"kind": "corrupt_snapshot_accepted"}, **attrs), drift
                if before is not None and any(now[k] != before[k] for k in ("app", "last_applied", "membership")):
                    return dict({"kind": "failed_install_changed_state",
                                 "changed": [k for k in ("app", "last_applied", "membership") if now[k] != before[k]]}, **attrs), drift
                continue
            if r.get("res") != "ok":
                return dict({"kind": "install_failed", "err": (r.get("err") or "")[:120]}, **attrs), drift
            if r.get("sender_current_is_built") is False:
                # what the sender hands out at install time is not the snapshot it built (state or meta moved on)
                return dict({"kind": "sender_snapshot_not_the_built_one"}, **attrs), drift
            got, want = views[op["m"]], src["view"]
            if got["app"] != want["app"]:
                return dict({"kind": "app_state_differs_after_install"}, **attrs), drift
            if got["last_applied"] != want["last_applied"] or got["membership"] != want["membership"]:
                return dict({"kind": "applied_state_differs_after_install"}, **attrs), drift
        elif op["op"] == "apply":
            for call in r or []:
                if call.get("res") == "ok" and call.get("responses") != call["to"] - call["from"] + 1:
                    drift.append("apply forwarded %d responses for entries %d..%d" % (call.get("responses"), call["from"], call["to"]))
        # every node's application state is the one determined by the entries it has applied
        for name, v in views.items():  # (a failed corrupt install changed nothing, checked above)
            i = _idx(v)
            if i < len(ref) and v["app"] != ref[i]:
                return {"kind": "diverged_after_same_commands" if any(s["op"]["op"] == "install" for s in res["steps"][:si + 1])
                        else "app_state_wrong_without_snapshot", "step": si, "node": name, "app": res["app"],
                        "snapshot_is_adapter_map": any(b["res"]["bytes_hex"] == "00" * 8 and not b["res"]["equals_app_snapshot"]
                                                        for b in built.values())}, drift
    final = res["steps"][-1]["views"] if res["steps"] else {}
    if final and final["A"]["app"] != final["B"]["app"] and _idx(final["A"]) == _idx(final["B"]):
        return {"kind": "diverged_after_same_commands", "app": res["app"]}, drift
    return None, drift


def sm_selftest(thorough=False):
    ok_view = {"app": {"x": 1}, "last_applied": [{"t": 1, "n": 1, "i": 1}], "membership": {}}
    empty = {"app": {"x": 0}, "last_applied": [], "membership": {}}
    build = {"res": "ok", "len": 10, "bytes_hex": "aa", "equals_app_snapshot": True, "current_snapshot_matches": True}
    good = {"app": "metadata", "ref": [{"x": 0}, {"x": 1}], "steps": [
        {"op": {"op": "apply", "n": "A", "k": 1}, "res": [{"from": 1, "to": 1, "res": "ok", "responses": 1}], "views": {"A": ok_view, "B": empty}},
        {"op": {"op": "build", "n": "A"}, "res": build, "views": {"A": ok_view, "B": empty}},
        {"op": {"op": "install", "m": "B", "from": "A"}, "res": {"res": "ok"}, "views": {"A": ok_view, "B": ok_view}}]}
    if sm_judge(None, good)[0] is not None:
        raise C.ToolError("C20 adapter self-test: a conforming execution was judged divergent")
    bad = copy.deepcopy(good)
    bad["steps"][2]["views"]["B"] = dict(ok_view, app={"x": 0})
    bad2 = copy.deepcopy(good)
    bad2["steps"][2]["res"] = {"res": "err", "err": "boom"}
    bad3 = copy.deepcopy(good)
    bad3["steps"][2]["views"]["B"] = dict(ok_view, last_applied=[])
    # a damaged snapshot must be refused without touching the node (restore before advance)
    cor = copy.deepcopy(good)
    cor["steps"][2] = {"op": {"op": "install", "m": "B", "from": "A", "corrupt": True}, "res": {"res": "err", "err": "x"},
                       "views": {"A": ok_view, "B": empty}}
    if sm_judge(None, cor)[0] is not None:
        raise C.ToolError("C20 adapter self-test: a refused damaged snapshot was judged divergent")
    bad4 = copy.deepcopy(cor)
    bad4["steps"][2]["views"]["B"] = dict(empty, last_applied=[{"t": 1, "n": 1, "i": 1}])
    bad5 = copy.deepcopy(cor)
    bad5["steps"][2]["res"] = {"res": "ok"}
    for name, b in (("app_changed", bad), ("install_err", bad2), ("last_applied_changed", bad3),
                    ("failed_install_advanced_last_applied", bad4), ("corrupt_accepted", bad5)):
        if sm_judge(None, b)[0] is None:
            raise C.ToolError("C20 adapter self-test: corrupted execution '%s' was accepted" % name)
    out = {"mutants_rejected": 5}
    if thorough:
        # vacuity guard: the model's contract must still reject the defective adapter (the code before /repo c0348bc)
        d1 = mc_check("MC_RaftSM.tla", "MC_RaftSM_defect.cfg", SM_DEPS, "sm_defect", workers=1, expect="violation")
        d2 = mc_check("MC_RaftSM.tla", "MC_RaftSM_defect_kv.cfg", SM_DEPS, "sm_defect_kv", workers=1, expect="violation")
        out["defective_adapter_models_rejected"] = {d1["cfg"]: d1["violated"], d2["cfg"]: d2["violated"]}
        out["defective_adapter_counterexamples"] = {d1["cfg"]: d1["cex"], d2["cfg"]: d2["cex"]}
    return out


def c20_adapter_half_run(tier):
    """Returns (exit code, coverage dict, violations list) so that the state-machine half can be combined."""
    pid = "C20"
    thorough = tier == "thorough"
    st = sm_selftest(thorough)
    binp, binfo = build_driver()
    findings = C.load_findings()
    mc = mc_check("MC_RaftSM.tla", "MC_RaftSM_%s.cfg" % ("thorough" if thorough else "quick"), SM_DEPS,
                  "sm_%s" % tier, stutter_actions=("MCGetSnap",))
    hs, gi = tlc_histories("MC_RaftSM.tla", "MC_RaftSM_gen.cfg", SM_DEPS, "sm_gen")
    rng = random.Random(C.seed() * 104729 + 20)
    # regression: the shortest counterexamples of the defective adapter models (must conform now)
    cases = [sm_case_from_hist("regress_defect_cex_metadata", [{"op": "build", "n": "A"}, {"op": "install", "m": "B", "from": "A"}],
                               "metadata", rng),
             sm_case_from_hist("regress_defect_cex_kv", [{"op": "commit", "e": {"k": "normal", "c": 1}}, {"op": "apply", "n": "A", "k": 1},
                                                         {"op": "build", "n": "A"}, {"op": "install", "m": "B", "from": "A"}], "kv", rng)]
    for b in load_corpus("C20_adapter"):
        cases.append({"id": "corpus_" + b["id"], "app": b.get("app", "metadata"), "entries": b["entries"], "ops": b["ops"]})
    n_t = 3000 if thorough else 400
    for i, h in enumerate(rng.sample(hs, min(len(hs), n_t))):
        cases.append(sm_case_from_hist("tlc_%d" % i, h, "kv" if i % 4 == 3 else "metadata", rng))
    for i in range(2000 if thorough else 300):
        cases.append(sm_random_case("rnd_%d" % i, rng, "kv" if i % 4 == 3 else "metadata"))
    root = C.ensure_dir(os.path.join(C.BUILD, "run-logstore-%d" % os.getpid(), "sm"))
    try:
        inp, outp = os.path.join(root, "cases.ndjson"), os.path.join(root, "results.ndjson")
        with open(inp, "w") as f:
            for c in cases:
                f.write(json.dumps(c) + "\n")
        rc, out = C.sh([binp, "sm", "--in", inp, "--out", outp], timeout=1800, env={"WALRUS_QUIET": "1"})
        if rc != 0:
            raise C.ToolError("logstore-driver sm failed (rc=%d):\n%s" % (rc, out[-2000:]))
        with open(outp) as f:
            results = {r["id"]: r for r in (json.loads(x) for x in f if x.strip())}
    finally:
        shutil.rmtree(os.path.join(C.BUILD, "run-logstore-%d" % os.getpid()), ignore_errors=True)
    if len(results) != len(cases):
        raise C.ToolError("logstore-driver sm returned %d results for %d cases" % (len(results), len(cases)))
    known, violations, drift_notes, with_install, diverged = {}, [], {}, 0, 0
    for c in cases:
        r = results[c["id"]]
        if any(s["op"]["op"] == "install" and (s.get("res") or {}).get("res") != "skipped" for s in r.get("steps", [])):
            with_install += 1
        div, drift = sm_judge(c, r)
        for d in drift:
            drift_notes[d] = drift_notes.get(d, 0) + 1
        if div is None:
            continue
        diverged += 1
        div["n_entries"] = len(c["entries"])
        f = C.match_finding(findings, pid, div)
        if f is not None:
            rec = known.setdefault(f["id"], {"finding": f, "count": 0})
            rec["count"] += 1
        else:
            violations.append((c, r, div))
    for d, n in sorted(drift_notes.items()):
        print("MODEL-DRIFT: %s (%d time(s))" % (d, n))
    violations.sort(key=lambda x: (len(x[0]["entries"]), len(x[0]["ops"]), x[0]["id"]))
    lines, seen = [], set()
    for c, r, div in violations:
        sig = (div["kind"], div.get("app"), div.get("sender_state_empty"))
        if sig in seen or len(lines) >= MAX_VIOLATION_LINES:
            continue
        seen.add(sig)
        path = C.save_replay(pid, "C20_adapter_%s_%s" % (c["id"], div["kind"]), {
            "property": pid, "half": "adapter", "case": c, "divergence": div, "execution": r,
            "code_location": "octopii/src/openraft/storage.rs: build_snapshot / install_snapshot / apply of MemStateMachine",
            "rerun": "./check C20 --replay <this file>"})
        lines.append((path, div))
    for fid, rec in sorted(known.items()):
        print("KNOWN-FINDING: property=%s %s [%s, seen %d time(s)]" % (pid, rec["finding"]["what_fails"], fid, rec["count"]))
    for path, div in lines:
        print("VIOLATION property=%s replay=%s" % (pid, path))
        C.log("  divergence: %s" % json.dumps(div))
    minimal = None
    if violations:
        c = violations[0][0]
        minimal = {"id": c["id"], "app": c["app"], "entries": c["entries"], "ops": c["ops"], "divergence": violations[0][2]}
    coverage = {
        "states": mc["states"], "transitions": mc["transitions"],
        "traces_validated_against_impl": len(cases),
        "samples": [{"id": c["id"], "app": c["app"], "entries": c["entries"], "ops": c["ops"]} for c in cases[:3]],
        "evaluations": len(cases),
        "distinct_nontrivial": len(set(json.dumps([c["app"], c["entries"], c["ops"]], sort_keys=True) for c in cases
                                       if any(o["op"] == "install" for o in c["ops"]) and c["entries"])),
        "rule": "cases = committed regression corpus + TLC-generated histories of MC_RaftSM (one per distinct state reached by an "
                "install, sampled with VERIF_SEED) + seeded random cases (apply prefix on A, fresh or lagging B, build, optionally "
                "a damaged transfer, install, same remaining commands on both); executed on the real MemStateMachine adapter with "
                "the real Metadata (3/4) or KvStateMachine (1/4); after every operation every node's full application state must "
                "equal the state of the application alone after the same entry prefix, install must succeed and carry "
                "lastApplied/membership, a damaged snapshot must be refused without changing the node; "
                "distinct = distinct cases with >= 1 entry and an install",
        "adapter_model": mc,
        "corrupt_installs": sum(1 for c in cases for o in c["ops"] if o.get("corrupt")),
        "generation": gi, "cases_with_install": with_install, "diverged_cases": diverged,
        "model_drift": drift_notes, "selftest": st, "known_findings_seen": {k: v["count"] for k, v in known.items()},
        "minimal_failing_case": minimal,
    }
    return (C.EXIT_VIOLATION if violations else C.EXIT_OK), coverage, [(p, d) for p, d in lines]


def c20_adapter_half(tier, evidence_id="C20_adapter"):
    t0 = time.time()
    rc, coverage, lines = c20_adapter_half_run(tier)
    C.write_evidence(evidence_id, tier, "model_checking", coverage, time.time() - t0, assumptions=C20_ASSUMPTIONS,
                     violations=len(lines))
    return rc


def replay_c20_adapter(path):
    with open(path) as f:
        r = json.load(f)
    binp, _ = build_driver()
    root = C.ensure_dir(os.path.join(C.BUILD, "run-logstore-%d" % os.getpid(), "smreplay"))
    try:
        inp, outp = os.path.join(root, "cases.ndjson"), os.path.join(root, "results.ndjson")
        with open(inp, "w") as f:
            f.write(json.dumps(r["case"]) + "\n")
        rc, out = C.sh([binp, "sm", "--in", inp, "--out", outp], timeout=600)
        if rc != 0:
            raise C.ToolError("logstore-driver sm failed:\n" + out[-2000:])
        with open(outp) as f:
            res = json.loads(f.readline())
    finally:
        shutil.rmtree(os.path.join(C.BUILD, "run-logstore-%d" % os.getpid()), ignore_errors=True)
    div, _ = sm_judge(r["case"], res)
    if div is None:
        print("replay %s: conforms" % r["case"]["id"])
        return C.EXIT_OK
    print("VIOLATION property=C20 replay=%s" % path)
    C.log("  divergence: %s" % json.dumps(div))
    return C.EXIT_VIOLATION


def c20(tier):
    """C20 = state-machine half (props_pure.c20_statemachine_half: Metadata snapshot/restore) + adapter half
    (c20_adapter_half_run: the octopii adapter with the real Metadata). Both halves print their own lines;
    ONE evidence file evidence/C20.json; 1 if either half found a violation, ToolError (exit 2) otherwise."""
    t0 = time.time()
    from . import props_pure as PP
    rc_sm = PP.c20_statemachine_half(tier)          # writes evidence/C20_statemachine_half.json
    if rc_sm not in (C.EXIT_OK, C.EXIT_VIOLATION):
        raise C.ToolError("C20 state-machine half returned %r" % rc_sm)
    sm_path = os.path.join(C.EVID, "C20_statemachine_half.json")
    try:
        with open(sm_path) as f:
            sm_ev = json.load(f)
    except (OSError, ValueError) as e:
        raise C.ToolError("C20: cannot read the state-machine half's evidence %s: %s" % (sm_path, e))
    if sm_ev.get("tier") != tier or sm_ev.get("seed") != C.seed():
        raise C.ToolError("C20: %s is not from this run (tier %s seed %s)" % (sm_path, sm_ev.get("tier"), sm_ev.get("seed")))
    rc_ad, ad_cov, ad_lines = c20_adapter_half_run(tier)
    sm_cov = sm_ev["coverage"]

    def total(k):
        return int(sm_cov.get(k, 0) or 0) + int(ad_cov.get(k, 0) or 0)

    coverage = {
        "states": total("states"), "transitions": total("transitions"),
        "traces_validated_against_impl": total("traces_validated_against_impl"),
        "evaluations": total("evaluations"), "distinct_nontrivial": total("distinct_nontrivial"),
        "samples": list(sm_cov.get("samples", []))[:2] + list(ad_cov.get("samples", []))[:2],
        "rule": "state-machine half: " + str(sm_cov.get("rule")) + " || adapter half: " + str(ad_cov.get("rule"))
                + " || states/transitions = sums over the TLC runs of both halves (MC_Metadata, MC_RaftSM); "
                  "traces/evaluations = totals of both halves",
        "statemachine_half": sm_cov, "adapter_half": ad_cov,
        "violations_by_half": {"statemachine_half": sm_ev.get("violations", 0), "adapter_half": len(ad_lines)},
    }
    assumptions = list(sm_ev.get("assumptions", []))
    for a in C20_ASSUMPTIONS:
        if a not in assumptions:
            assumptions.append(a)
    nviol = int(sm_ev.get("violations", 0) or 0) + len(ad_lines)
    C.write_evidence("C20", tier, "model_checking", coverage, time.time() - t0, assumptions=assumptions, violations=nviol)
    return C.EXIT_VIOLATION if (rc_sm == C.EXIT_VIOLATION or rc_ad == C.EXIT_VIOLATION) else C.EXIT_OK


REGISTRY = {"C21": c21, "C20": c20}
PARTIAL = {"C20": c20_adapter_half}
REPLAY = {"C21": replay_c21, "C20": replay_c20_adapter}
