"""Seeded random behaviour generators over the operation alphabet of the specs.

A behaviour is {"id", "cfg", "ops"}; see harness/engine/src/exec.rs for the op vocabulary.
Sizes and budgets are biased toward the boundaries that matter to the engine: block capacity,
the 128-byte double-peek threshold, the entry cap, multi-unit blocks."""
import random

GEOM = {
    "tiny": {"block": 2048, "bpf": 4, "max_alloc": 8192, "max_batch": 6, "max_batch_bytes": 16 * 1024},
    "real": {"block": 10 * 1024 * 1024, "bpf": 100, "max_alloc": 1 << 30, "max_batch": 2000,
             "max_batch_bytes": 10 * (1 << 30)},
}
PREFIX = 256


class IdGen:
    def __init__(self):
        self.n = 0

    def next(self):
        self.n += 1
        return self.n


class Model:
    """Rough model of writer offsets (only used to aim sizes at block boundaries)."""

    def __init__(self, geom):
        self.g = GEOM[geom]
        self.off = {}
        self.limit = {}

    def room(self, t):
        return self.limit.get(t, self.g["block"]) - self.off.get(t, 0)

    def note(self, t, size):
        need = PREFIX + size
        if need > self.room(t):
            units = (need + self.g["block"] - 1) // self.g["block"]
            self.limit[t] = units * self.g["block"]
            self.off[t] = 0
        self.off[t] = self.off.get(t, 0) + need


def pick_size(r, m, t, geom, allow_big=True):
    g = GEOM[geom]
    blk = g["block"]
    x = r.random()
    # exactly one header's worth of room left in the block: an empty payload ends exactly at the block end
    if m.room(t) == PREFIX and r.random() < 0.7:
        return 0
    if x < 0.30:
        return r.choice([0, 1, 7, 8, 9, 64, 100, 127, 128, 129, 200])
    if x < 0.55:
        return r.choice([300, 400, 500, 700, 900]) if geom == "tiny" else r.choice([300, 4096, 65536, 1 << 20])
    if x < 0.75:
        # aim at the end of the current block
        room = m.room(t) - PREFIX
        cand = room + r.choice([-2, -1, 0, 0, 1, 2, -PREFIX, -PREFIX, -PREFIX - 1, -PREFIX + 1])
        if 0 <= cand <= g["max_alloc"] - PREFIX:
            return cand
        return 100
    if x < 0.90:
        return r.choice([blk - PREFIX - 1, blk - PREFIX, blk - PREFIX + 1, blk // 2, blk - PREFIX - 100])
    if allow_big:
        if geom == "tiny":
            return r.choice([3000, 4096 - PREFIX, 4096 - PREFIX + 1, 5000, 8192 - PREFIX])
        return r.choice([blk + 5, 15 * 1024 * 1024])
    return 1500 if geom == "tiny" else 1 << 20


def pick_budget(r, geom):
    if geom == "tiny":
        return r.choice([0, 0, 1, 99, 100, 101, 127, 128, 255, 256, 257, 400, 600, 1000, 1500, 2000, 5000, -1, -1])
    return r.choice([0, 1, 100, 300, 1000, 4096, 1 << 20, 10 * 1024 * 1024, 11 * 1024 * 1024, -1, -1])


def gen_behaviour(r, profile, geom, bid, cfg, length=None, safe_first=False):
    g = GEOM[geom]
    ids = IdGen()
    m = Model(geom)
    topics = ["a", "b"] if r.random() < 0.5 else ["a"]
    if r.random() < 0.15:
        topics = ["a", "b", "c"]
    n = length or r.randint(5, 26)
    ops = []
    appended = {t: [] for t in topics}   # sizes in order (approximate view for offset reads)
    started = {}
    consumed = {}
    W = {
        "seq":     {"append": 40, "batch": 12, "read": 15, "bread": 30},
        "peek":    {"append": 32, "batch": 8, "read": 8, "bread": 16, "peek": 18, "oread": 18},
        "reject":  {"append": 30, "batch": 10, "read": 10, "bread": 20, "bad": 20, "fault": 6, "reopen": 5},
        "restart": {"append": 34, "batch": 8, "read": 12, "bread": 20, "reopen": 14, "mark": 5, "is_clean": 5},
        "marker":  {"append": 30, "mark": 30, "is_clean": 20, "reopen": 20},
        "drain":   {"append": 50, "batch": 10, "read": 10, "bread": 30},
        "cap":     {"small": 55, "batch6": 15, "bread_big": 20, "read": 5, "bread": 5},
        "crashw":  {"append": 35, "batch": 25, "read": 15, "bread": 20, "fill": 5},
        "reclaim": {"fill": 42, "append": 5, "small": 4, "read": 12, "bread": 16, "peek": 7, "oread": 6, "poll": 6, "reopen": 4},
        "peekfill": {"fill": 40, "small": 8, "read": 10, "bread": 14, "peek": 12, "oread": 16},
    }[profile]
    kinds = list(W.keys())
    weights = [W[k] for k in kinds]

    def one_entry(t, allow_big=True):
        s = pick_size(r, m, t, geom, allow_big)
        s = max(0, min(s, g["max_alloc"] - PREFIX))
        if safe_first and not appended[t] and not started.get(t):
            # avoidance guard for the known finding about an empty initial block
            s = min(s, g["block"] - PREFIX)
        started[t] = True
        return [ids.next(), s]

    for _ in range(n):
        k = r.choices(kinds, weights)[0]
        t = r.choice(topics)
        if k == "append":
            e = one_entry(t)
            ops.append({"op": "append", "t": t, "id": e[0], "size": e[1]})
            m.note(t, e[1])
            appended[t].append(e[1])
        elif k == "batch":
            cnt = r.choice([1, 2, 2, 3, 3, 4, g["max_batch"] if geom == "tiny" else 5])
            es = []
            tot = 0
            big_ok = r.random() < 0.25
            for _j in range(cnt):
                e = one_entry(t, allow_big=big_ok)
                if tot + PREFIX + e[1] > g["max_batch_bytes"]:
                    e[1] = 10
                tot += PREFIX + e[1]
                es.append(e)
            ops.append({"op": "batch", "t": t, "es": es})
            for e in es:
                m.note(t, e[1])
                appended[t].append(e[1])
        elif k == "small":
            e = [ids.next(), r.choice([8, 9, 64, 100, 127, 128, 129])]
            ops.append({"op": "append", "t": t, "id": e[0], "size": e[1]})
            m.note(t, e[1])
            appended[t].append(e[1])
        elif k == "batch6":
            es = [[ids.next(), r.choice([8, 64, 100, 128])] for _ in range(g["max_batch"] if geom == "tiny" else 50)]
            ops.append({"op": "batch", "t": t, "es": es})
            for e in es:
                m.note(t, e[1])
                appended[t].append(e[1])
        elif k == "bread_big":
            ops.append({"op": "bread", "t": t, "budget": r.choice([-1, -1, 5000, 100000]), "ckpt": r.random() < 0.8, "off": -1})
        elif k == "fill":
            # entries that take (almost) a whole block each, so files fill up quickly
            sz = r.choice([g["block"] - PREFIX, g["block"] - PREFIX - 1, g["block"] - PREFIX - 300, g["block"] // 2 + 10])
            e = [ids.next(), sz]
            ops.append({"op": "append", "t": t, "id": e[0], "size": e[1]})
            m.note(t, e[1])
            appended[t].append(e[1])
        elif k == "poll":
            for _ in range(r.choice([2, 3, 5])):
                ops.append(r.choice([{"op": "read", "t": t, "ckpt": True},
                                     {"op": "bread", "t": t, "budget": -1, "ckpt": True, "off": -1}]))
        elif k == "read":
            ops.append({"op": "read", "t": t, "ckpt": True})
            if consumed.get(t, 0) < len(appended[t]):
                consumed[t] = consumed.get(t, 0) + 1
        elif k == "bread":
            b = pick_budget(r, geom)
            un = appended[t][consumed.get(t, 0):]
            if un and r.random() < 0.35:
                # aim the budget at an entry boundary of the unread data (raw bytes or payload bytes)
                kk = min(len(un), r.choice([1, 1, 2, 3]))
                raw = r.random() < 0.6
                b = max(0, sum(x + (PREFIX if raw else 0) for x in un[:kk]) + r.choice([-1, 0, 0, 1]))
            ops.append({"op": "bread", "t": t, "budget": b, "ckpt": True, "off": -1})
            # rough model of what it consumes (only used for aiming later budgets)
            tot, n_ = 0, 0
            for x in un[:g["max_batch"]]:
                if n_ >= 1 and b >= 0 and tot + x > b:
                    break
                tot += x
                n_ += 1
            consumed[t] = consumed.get(t, 0) + n_
        elif k == "peek":
            if r.random() < 0.4:
                ops.append({"op": "read", "t": t, "ckpt": False, "nc": True})
                if r.random() < 0.5:
                    ops.append({"op": "read", "t": t, "ckpt": True})
            else:
                b = pick_budget(r, geom)
                ops.append({"op": "bread", "t": t, "budget": b, "ckpt": False, "off": -1, "nc": True})
                if r.random() < 0.6:
                    ops.append({"op": "bread", "t": t, "budget": b, "ckpt": True, "off": -1})
        elif k == "oread":
            # offsets at entry boundaries +-1, mid payload, beyond the end
            bounds = [0]
            acc = 0
            for s in appended[t]:
                acc += PREFIX + s
                bounds.append(acc)
            base = r.choice(bounds)
            off = max(0, base + r.choice([-1, 0, 0, 1, PREFIX, PREFIX + 1, PREFIX + 5, 300]))
            if r.random() < 0.1:
                off = acc + r.choice([0, 1, 1000])
            ops.append({"op": "bread", "t": t, "budget": pick_budget(r, geom), "ckpt": r.random() < 0.5,
                        "off": off, "nc": True})
        elif k == "bad":
            x = r.random()
            if x < 0.22:
                cnt = g["max_batch"] + r.choice([1, 2])
                ops.append({"op": "batch", "t": t, "es": [[ids.next(), 10] for _ in range(cnt)], "bad": True})
            elif x < 0.31 and geom == "tiny":
                ops.append({"op": "batch", "t": t, "es": [[ids.next(), 7000] for _ in range(3)], "bad": True})
            elif x < 0.40 and geom == "tiny":
                # ONE entry over the allocation limit, standing behind entries that already make the planner rotate
                # (total and count stay within the batch limits): must be rejected before anything is planned
                lead = [[ids.next(), r.choice([1500, 1792, 1000, 300])] for _ in range(r.choice([1, 2, 2, 3]))]
                big = [[ids.next(), g["max_alloc"] - PREFIX + r.choice([1, 2, 100])]]
                trail = [[ids.next(), r.choice([8, 100])]] if r.random() < 0.4 else []
                ops.append({"op": "batch", "t": t, "es": lead + big + trail, "bad": True})
            elif x < 0.62:
                ops.append({"op": "append", "t": t, "id": ids.next(), "size": g["max_alloc"] - PREFIX + r.choice([1, 2, 500]),
                            "bad": True} if geom == "tiny" else
                           {"op": "append", "t": t, "id": ids.next(), "size": 100, "tlen": 300, "bad": True})
            elif x < 0.80:
                ops.append({"op": "append", "t": t, "id": ids.next(), "size": r.choice([10, 300]), "tlen": r.choice([300, 240, 400]),
                            "bad": True})
            elif x < 0.90:
                ops.append({"op": "batch", "t": t, "es": [[ids.next(), 100], [ids.next(), 100]], "tlen": 300, "bad": True})
            else:
                ops.append({"op": "batch", "t": t, "es": [], "bad": True})
        elif k == "fault":
            site = r.choice(["uring_cqe_fail", "uring_cqe_short", "block_write", "flush", "create_file"])
            nth = r.choice([1, 1, 2, 3])
            cnt = r.choice([2, 3, 4])
            es = [one_entry(t, allow_big=False) for _ in range(cnt)]
            ops.append({"op": "fault", "site": site, "nth": nth, "bad": True})
            if r.random() < 0.7:
                ops.append({"op": "batch", "t": t, "es": es, "bad": True, "maybe": True})
            else:
                ops.append({"op": "append", "t": t, "id": es[0][0], "size": es[0][1], "bad": True, "maybe": True})
            ops.append({"op": "clear_fault", "bad": True})
            if r.random() < 0.5:
                # a successful append of exactly the failed call's first entry size lands on the slot the cleanup
                # invalidated: nothing of the failed call may come back, now or after a restart
                e2 = [ids.next(), es[0][1]]
                ops.append({"op": "append", "t": t, "id": e2[0], "size": e2[1]})
                m.note(t, e2[1])
                appended[t].append(e2[1])
                if r.random() < 0.6:
                    ops.append({"op": "reopen", "i": 0, "proc": r.choice(["same", "new"]), "ro": True})
        elif k == "reopen":
            o = {"op": "reopen", "i": 0, "proc": r.choice(["same", "same", "new"]), "ro": True}
            if profile == "marker":
                o["delay_ms"] = r.choice([0, 0, 1, 20])
            if o["proc"] == "new" and r.random() < 0.5:
                o["clock"] = r.choice([-100000, -1, 0, 1, 5000])
            ops.append(o)
        elif k == "mark":
            ops.append({"op": "mark", "t": t, "v": r.random() < 0.6})
        elif k == "is_clean":
            ops.append({"op": "is_clean", "t": t})
    # drain every topic at the end so that nothing is left unexamined
    for t in topics:
        for _ in range(3):
            ops.append({"op": "bread", "t": t, "budget": -1, "ckpt": True, "off": -1})
        ops.append({"op": "read", "t": t, "ckpt": True})
        if profile in ("restart", "marker"):
            ops.append({"op": "is_clean", "t": t})
    c = dict(cfg)
    c["topics"] = topics
    c["proj"] = True
    return {"id": bid, "cfg": c, "ops": ops}


CFGS_ALL = [
    {"backend": "fd", "mode": "strict", "pe": 1},
    {"backend": "mmap", "mode": "strict", "pe": 1},
    {"backend": "fd", "mode": "alo", "pe": 1},
    {"backend": "fd", "mode": "alo", "pe": 3},
    {"backend": "mmap", "mode": "alo", "pe": 3},
]


def corpus(profile, geom, n, seed, cfgs=None, prefix="r", safe_first=False, length=None):
    r = random.Random("%s/%s/%d" % (profile, geom, seed))
    cfgs = cfgs or CFGS_ALL
    out = []
    for i in range(n):
        cfg = cfgs[i % len(cfgs)]
        if profile == "oreclaim":
            out.append(oreclaim_behaviour(r, geom, "%s%d" % (prefix, i), cfg))
            continue
        if profile == "freclaim":
            out.append(file_boundary_reclaim_behaviour(r, geom, "%s%d" % (prefix, i), cfg))
            continue
        if profile == "latep":
            out.append(late_persister_behaviour(r, geom, "%s%d" % (prefix, i), cfg))
            continue
        out.append(gen_behaviour(r, profile, geom, "%s%d" % (prefix, i), cfg, safe_first=safe_first,
                                 length=(r.randint(*length) if length else None)))
    return out


def file_boundary_reclaim_behaviour(r, geom, bid, cfg):
    """Scenario family for C12: a topic's first block is the block that OPENS a new WAL file (the previous file
    was handed out completely by other topics), the rest of that file is filled, sealed and consumed by another
    topic, while the first block stays unconsumed: the file must not be reclaimed before that topic is consumed
    too. Also the mirror image: the unconsumed block is the LAST block of the previous file."""
    g = GEOM[geom]
    ids = IdGen()
    blk, bpf = g["block"], g["bpf"]
    full = blk - PREFIX
    big, small, third = r.choice([("a", "b", "c"), ("b", "a", "c"), ("c", "a", "b")])
    ops = []
    if r.random() < 0.4:
        # variant: a fresh topic's FIRST operation is a batch of block-filling entries that starts in the last
        # blocks of file 1 and ends in file 2; `big` holds the other blocks of file 1 and is consumed
        nb = r.choice([1, 2])                       # blocks of file 1 taken by `big` before the batch
        for _ in range(nb):
            ops.append({"op": "append", "t": big, "id": ids.next(), "size": full - r.choice([0, 0, 1, 9])})
        k = (bpf - nb) + r.choice([1, 1, 2])        # the batch crosses the file end
        ops.append({"op": "batch", "t": third, "es": [[ids.next(), full - r.choice([0, 0, 7])] for _ in range(k)]})
        # `big` rotates out of its last block of file 1 (sealed, unlocked) and is consumed completely
        ops.append({"op": "append", "t": big, "id": ids.next(), "size": full})
        if r.random() < 0.3:
            ops.append({"op": "reopen", "i": 0, "proc": "same", "ro": True, "delay_ms": 0})
        for _ in range(nb + 3):
            ops.append(r.choice([{"op": "read", "t": big, "ckpt": True},
                                 {"op": "bread", "t": big, "budget": r.choice([-1, 0, blk]), "ckpt": True, "off": -1}]))
        ops.append({"op": "read", "t": big, "ckpt": True})
        ops.append({"op": "read", "t": third, "ckpt": False})
        for _ in range(k + 2):
            ops.append(r.choice([{"op": "read", "t": third, "ckpt": True},
                                 {"op": "bread", "t": third, "budget": r.choice([-1, blk]), "ckpt": True, "off": -1}]))
        ops.append({"op": "read", "t": third, "ckpt": True})
        c = dict(cfg)
        c["topics"] = ["a", "b", "c"]
        c["proj"] = True
        return {"id": bid, "cfg": c, "ops": ops}
    # file 1: bpf-1 blocks of `big`, last block taken by `small`
    for _ in range(bpf - 1):
        ops.append({"op": "append", "t": big, "id": ids.next(), "size": full - r.choice([0, 0, 1, 9])})
    ops.append({"op": "append", "t": small, "id": ids.next(), "size": r.choice([8, 100, 300])})
    # file 2: opened by `third`
    ops.append({"op": "append", "t": third, "id": ids.next(), "size": r.choice([8, 100, 300])})
    # `big` takes the remaining blocks of file 2 and one block of file 3 (file 2 is fully handed out)
    for _ in range(bpf):
        ops.append({"op": "append", "t": big, "id": ids.next(), "size": full - r.choice([0, 0, 1, 9])})
    # the small blocks are sealed by rotation (so nothing of files 1 and 2 is locked)
    for t in r.sample([small, third], 2):
        ops.append({"op": "append", "t": t, "id": ids.next(), "size": full})
    if r.random() < 0.3:
        ops.append({"op": "reopen", "i": 0, "proc": "same", "ro": True, "delay_ms": 0})
    # consume `big` completely, and one of the two small topics
    def drain(t):
        out = []
        for _ in range(2 * bpf + 2):
            out.append(r.choice([{"op": "read", "t": t, "ckpt": True},
                                 {"op": "bread", "t": t, "budget": r.choice([-1, 0, blk]), "ckpt": True, "off": -1}]))
        out.append({"op": "read", "t": t, "ckpt": True})
        return out
    ops += drain(big)
    first = r.choice([small, third])
    ops += drain(first)
    # peeks and empty polls on the unconsumed topic must not help either
    other = third if first == small else small
    ops.append({"op": "read", "t": other, "ckpt": False})
    ops.append({"op": "bread", "t": other, "budget": 0, "ckpt": False, "off": -1})
    ops += drain(other)
    c = dict(cfg)
    c["topics"] = ["a", "b", "c"]
    c["proj"] = True
    return {"id": bid, "cfg": c, "ops": ops}


def late_persister_behaviour(r, geom, bid, cfg):
    """Scenario family for C17: the marker persister thread of an instance is held (cfg gate
    `tc_before_persist`) after it took its snapshot, the instance is shut down cleanly, a successor
    instance changes the marker and is shut down cleanly, then the old persister runs: the state
    reported after the next reopen must be the successor's."""
    ids = IdGen()
    t = r.choice(["a", "b"])
    ops = [{"op": "append", "t": t, "id": ids.next(), "size": r.choice([8, 100, 300])}]
    if r.random() < 0.5:
        ops.append({"op": "sleep", "ms": r.choice([1, 10, 25])})
    first_clean = r.random() < 0.7
    if not first_clean:
        ops.append({"op": "mark", "t": t, "v": True})
        ops.append({"op": "sleep", "ms": 12})
    ops.append({"op": "hold_persister"})
    ops.append({"op": "mark", "t": t, "v": first_clean})            # state change -> persister wakes and is held
    ops.append({"op": "await_persister", "ms": 300})
    ops.append({"op": "reopen", "i": 0, "proc": "same", "ro": True, "delay_ms": r.choice([0, 0, 1])})
    # successor: change the marker the other way (an append makes it dirty, a mark sets it)
    if first_clean:
        ops.append(r.choice([{"op": "append", "t": t, "id": ids.next(), "size": r.choice([8, 100, 500])},
                             {"op": "mark", "t": t, "v": False}]))
    else:
        ops.append({"op": "mark", "t": t, "v": True})
    if r.random() < 0.5:
        ops.append({"op": "is_clean", "t": t})
    ops.append({"op": "reopen", "i": 0, "proc": "same", "ro": True, "delay_ms": r.choice([0, 1, 20]), "release_persister": True})
    ops.append({"op": "is_clean", "t": t})
    ops.append({"op": "release_persister"})
    for _ in range(2):
        ops.append({"op": "bread", "t": t, "budget": -1, "ckpt": True, "off": -1})
    ops.append({"op": "is_clean", "t": t})
    c = dict(cfg)
    c["topics"] = ["a", "b"]
    return {"id": bid, "cfg": c, "ops": ops}


def oreclaim_behaviour(r, geom, bid, cfg):
    """Scenario family for "non-consuming reads must not make data reclaimable" (C02/C12): one topic's
    block with only small entries stays unconsumed while every other block of the (fully allocated) file
    is consumed by another topic; then peeks and offset reads at block boundaries are issued."""
    g = GEOM[geom]
    ids = IdGen()
    blk = g["block"]
    ops = []
    first, other = r.choice([("a", "b"), ("b", "a")])
    nsmall = r.randint(1, 5)
    smalls = [r.choice([8, 9, 64, 100, 127]) for _ in range(nsmall)]
    for sz in smalls:
        ops.append({"op": "append", "t": first, "id": ids.next(), "size": sz})
    nfill = g["bpf"] - 1 if geom == "tiny" else 3
    for _ in range(nfill):
        ops.append({"op": "append", "t": other, "id": ids.next(), "size": blk - PREFIX - r.choice([0, 0, 1, 7])})
    # seal the small block (rotation of `first`) and the last block of `other`
    ops.append({"op": "append", "t": first, "id": ids.next(), "size": blk - PREFIX - r.choice([0, 3])})
    ops.append({"op": "append", "t": other, "id": ids.next(), "size": r.choice([100, 300])})
    for _ in range(nfill):
        ops.append(r.choice([{"op": "read", "t": other, "ckpt": True},
                             {"op": "bread", "t": other, "budget": r.choice([-1, 100, blk]), "ckpt": True, "off": -1}]))
    ops.append({"op": "read", "t": other, "ckpt": True})
    used = sum(PREFIX + x for x in smalls)
    for _ in range(r.randint(2, 5)):
        k = r.random()
        if k < 0.5:
            off = r.choice([0, 0, used, used, used + 1, PREFIX, used - 1])
            ops.append({"op": "bread", "t": first, "budget": r.choice([-1, 0, 100, 600]), "ckpt": r.random() < 0.5,
                        "off": max(0, off), "nc": True})
        elif k < 0.8:
            ops.append({"op": "bread", "t": first, "budget": r.choice([-1, 0, 100]), "ckpt": False, "off": -1, "nc": True})
        else:
            ops.append({"op": "read", "t": first, "ckpt": False, "nc": True})
    for t in (first, other):
        for _ in range(3):
            ops.append({"op": "bread", "t": t, "budget": -1, "ckpt": True, "off": -1})
        ops.append({"op": "read", "t": t, "ckpt": True})
    c = dict(cfg)
    c["topics"] = ["a", "b"]
    c["proj"] = True
    return {"id": bid, "cfg": c, "ops": ops}


def multi_instance(r, geom, bid, cfg, n_inst=2):
    """Interleaved operations on 2-3 live instances (C13). Instance i uses topics 'a','b'
    (compound names '1a', ... in traces). Same data dir with distinct keys, or distinct dirs."""
    g = GEOM[geom]
    ids = IdGen()
    layout = r.choice(["keys", "keys", "dirs", "mixed", "samekey", "samebase", "nested"])
    insts = []
    # key pools: ordinary keys, keys differing only in kept punctuation, and keys that consist only of
    # replaced characters (they fall back to a hashed directory name and must still be distinct)
    pools = [["k0", "k1", "k2"], ["a.b", "a_b", "a-b"], ["@@@", "###", "$$$"], ["\u6771\u4eac", "\u5927\u962a", "\u4eac\u90fd"],
             [" ", "/", "\\"], ["__", "??", "!!"], ["tenant-1", "tenant_1", "tenant.1"]]
    pool = r.choice(pools)
    r.shuffle(pool)
    for i in range(n_inst):
        if layout == "keys":
            insts.append({"dir": "d0", "key": pool[i % len(pool)] if n_inst <= len(pool) else "k%d" % i})
        elif layout == "dirs":
            insts.append({"dir": "d%d" % i, "key": None})
        elif layout == "nested":
            # an unkeyed instance and keyed instances in the SAME data directory: the keyed roots are
            # subdirectories of the unkeyed root; all-digit keys look like WAL file names there
            if i == 0:
                nested_keys = r.sample(["18446744073709551615", "9999999999999999", "7", "k1", "0042"], 4)
            insts.append({"dir": "d0", "key": None} if i == 0 else {"dir": "d0", "key": nested_keys[i - 1]})   # distinct keys
        elif layout == "samekey":
            # the same key under different data directories: the instance roots share their last path component
            insts.append({"dir": "d%d" % i, "key": pool[0]})
        elif layout == "samebase":
            # different data directories with the same base name
            insts.append({"dir": "p%d/data" % i, "key": None})
        else:
            insts.append({"dir": "d%d" % (i % 2), "key": "k%d" % i})
    ops = []
    n = r.randint(20, 70)
    # one instance tends to produce, another to consume: reclamation bookkeeping of one
    # instance must not be driven by the other's consumption
    bias = [r.choice([0.2, 0.5, 0.8]) for _ in range(n_inst)]
    for _ in range(n):
        i = r.randrange(n_inst)
        t = r.choice(["a", "a", "a", "b"])
        x = r.random()
        x = x * 0.45 / bias[i] if x < bias[i] else 0.45 + (x - bias[i]) * 0.55 / (1 - bias[i])
        if x < 0.45:
            sz = r.choice([g["block"] - PREFIX, g["block"] - PREFIX - 1, g["block"] - PREFIX - 7, 300, g["block"] // 2 + 10])
            ops.append({"op": "append", "i": i, "t": t, "id": ids.next(), "size": sz})
        elif x < 0.55:
            ops.append({"op": "batch", "i": i, "t": t, "es": [[ids.next(), r.choice([100, 700, 1500])] for _ in range(r.choice([2, 3]))]})
        elif x < 0.70:
            ops.append({"op": "read", "i": i, "t": t, "ckpt": True})
        elif x < 0.88:
            ops.append({"op": "bread", "i": i, "t": t, "budget": r.choice([-1, 600, 5000]), "ckpt": True, "off": -1})
        elif x < 0.93:
            ops.append({"op": "mark", "i": i, "t": t, "v": r.random() < 0.5})
            ops.append({"op": "is_clean", "i": r.randrange(n_inst), "t": t})
        else:
            ops.append({"op": "reopen", "i": i, "proc": "same"})
    for i in range(n_inst):
        for t in ("a", "b"):
            for _ in range(3):
                ops.append({"op": "bread", "i": i, "t": t, "budget": -1, "ckpt": True, "off": -1})
            ops.append({"op": "read", "i": i, "t": t, "ckpt": True})
            ops.append({"op": "is_clean", "i": i, "t": t})
    c = dict(cfg)
    c["insts"] = insts
    c["topics"] = ["a", "b"]
    c["proj"] = False
    return {"id": bid, "cfg": c, "ops": ops}


def strip_ops(beh, flag, suffix):
    """Twin behaviour without the ops carrying `flag`."""
    b = {"id": beh["id"] + suffix, "cfg": dict(beh["cfg"]), "ops": [o for o in beh["ops"] if not o.get(flag)]}
    return b
