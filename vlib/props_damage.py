"""C11 (semantic half, exploration): opening damaged WAL state never panics/aborts/hangs and never
returns a payload that was not appended to that topic."""
import json
import os
import random
import re
import shutil
import struct
import time

from . import common as C
from . import engine as E

WORKLOADS = [
    {"id": "dw1", "topics": ["a"], "ops": [
        {"op": "append", "t": "a", "id": 1, "size": 300}, {"op": "append", "t": "a", "id": 2, "size": 100},
        {"op": "append", "t": "a", "id": 3, "size": 700}, {"op": "append", "t": "a", "id": 4, "size": 200},
        {"op": "read", "t": "a", "ckpt": True}, {"op": "mark", "t": "a", "v": True}]},
    {"id": "dw2", "topics": ["a", "b"], "ops": [
        {"op": "append", "t": "a", "id": 1, "size": 1500}, {"op": "append", "t": "b", "id": 2, "size": 300},
        {"op": "append", "t": "a", "id": 3, "size": 1500}, {"op": "append", "t": "a", "id": 4, "size": 3000},
        {"op": "append", "t": "b", "id": 5, "size": 900},
        {"op": "bread", "t": "a", "budget": 1600, "ckpt": True, "off": -1},
        {"op": "reopen", "i": 0, "proc": "same"}, {"op": "read", "t": "a", "ckpt": True},
        {"op": "append", "t": "b", "id": 6, "size": 64}]},
    {"id": "dw3", "topics": ["a", "b"], "ops": [
        {"op": "batch", "t": "a", "es": [[1, 700], [2, 700], [3, 700], [4, 500]]},
        {"op": "append", "t": "b", "id": 5, "size": 1792}, {"op": "append", "t": "b", "id": 6, "size": 1792},
        {"op": "append", "t": "b", "id": 7, "size": 1792}, {"op": "append", "t": "b", "id": 8, "size": 10},
        {"op": "bread", "t": "b", "budget": -1, "ckpt": True, "off": -1},
        {"op": "read", "t": "a", "ckpt": True}]},
]


def _cases():
    spec = os.path.join(C.SPEC, "MC_WalrusDamage.tla")
    cfg = os.path.join(C.SPEC, "MC_WalrusDamage.cfg")
    rc, out, wall = C.tlc(spec, cfg, os.path.join(C.BUILD, "runs", "mc_dmg_%d" % os.getpid()), workers=2, timeout=300)
    gen, dist = C.tlc_stats(out)
    cases, seen = [], set()
    for m in re.finditer(r'<<"CASE", "(.*)">>', out):
        js = m.group(1).encode().decode("unicode_escape")
        if js not in seen:
            seen.add(js)
            cases.append(json.loads(js))
    if "Error" in out or not cases:
        raise C.ToolError("MC_WalrusDamage failed:\n" + out[-1500:])
    return cases, {"states": dist, "transitions": gen}


def _wal_files(d):
    return sorted(f for f in os.listdir(d) if f.isdigit() and os.path.isfile(os.path.join(d, f)))


def _locate(d, entry_id):
    """(file, header offset, payload offset) of the entry whose payload starts with its id (LE u64)."""
    pat = struct.pack("<Q", entry_id)
    for f in _wal_files(d):
        data = open(os.path.join(d, f), "rb").read()
        p = data.find(pat)
        while p >= 0:
            if p >= 256 and (p - 256) % 4 == 0:
                return f, p - 256, p
            p = data.find(pat, p + 1)
    return None


def apply_damage(d, case, sizes, rnd):
    """Mutates directory d according to the case. Returns a short description or None if the
    case does not apply to this directory."""
    kind, region, f = case["kind"], case["region"], case["file"]

    def patch(path, off, data):
        with open(path, "r+b") as fh:
            fh.seek(off)
            fh.write(data)

    def cur(path, off, n=1):
        with open(path, "rb") as fh:
            fh.seek(off)
            return fh.read(n)

    if f == "wal":
        wals = _wal_files(d)
        if not wals:
            return None
        e = case["entry"] or 1
        loc = _locate(d, e) if e in sizes else None
        if region in ("metalen", "body", "body8", "payload", "header", "entry_start", "mid_header", "mid_payload", "entry_end", "probe") and not loc:
            return None
        if region == "probe":
            fn, hdr, pay = loc
            path = os.path.join(d, fn)
            unit = (hdr // 2048) * 2048
            off = unit + case["pos"]
            patch(path, off, b"\x00" * 8 if kind == "zero" else bytes([cur(path, off)[0] ^ 0x5A]))
            return "probe of unit at %d in %s" % (unit, fn)
        if region == "metalen":
            fn, hdr, pay = loc
            patch(os.path.join(d, fn), hdr, struct.pack("<H", case["val"]))
            return "meta_len of entry %d := %d" % (e, case["val"])
        if region == "body":
            fn, hdr, pay = loc
            path = os.path.join(d, fn)
            off = hdr + case["pos"]
            b = cur(path, off)[0]
            patch(path, off, bytes([b ^ 0x5A if kind == "flip" else (0 if kind == "zero" else 0xFF)]))
            return "header byte %d of entry %d %s" % (case["pos"], e, kind)
        if region == "body8":
            fn, hdr, pay = loc
            patch(os.path.join(d, fn), hdr + case["pos"], (b"\x00" if kind == "zero" else b"\xff") * 8)
            return "header bytes %d..%d of entry %d %s" % (case["pos"], case["pos"] + 7, e, kind)
        if region == "payload":
            fn, hdr, pay = loc
            if sizes[e] <= case["pos"]:
                return None
            path = os.path.join(d, fn)
            off = pay + case["pos"]
            b = cur(path, off)[0]
            patch(path, off, bytes([b ^ 0x5A if kind == "flip" else 0]))
            return "payload byte %d of entry %d %s" % (case["pos"], e, kind)
        if region == "header":
            fn, hdr, pay = loc
            patch(os.path.join(d, fn), hdr, b"\x00" * 256)
            return "header of entry %d zeroed" % e
        if region == "unit" and kind == "garbage_unit":
            path = os.path.join(d, wals[0])
            patch(path, case["pos"] * 2048, bytes(rnd.getrandbits(8) for _ in range(2048)))
            return "unit %d of %s filled with garbage" % (case["pos"], wals[0])
        if kind == "truncate":
            if region == "unit":
                path, at = os.path.join(d, wals[0]), case["pos"] * 2048
            elif region == "odd":
                path, at = os.path.join(d, wals[-1] if len(wals) > 1 else wals[0]), case["pos"]
            else:
                fn, hdr, pay = loc
                path = os.path.join(d, fn)
                at = {"entry_start": hdr, "mid_header": hdr + 100, "mid_payload": pay + sizes[e] // 2,
                      "entry_end": pay + sizes[e]}[region]
            with open(path, "r+b") as fh:
                fh.truncate(at)
            return "%s truncated at %d" % (os.path.basename(path), at)
        return None
    if f in ("index", "marker"):
        path = os.path.join(d, "read_offset_idx_index.db" if f == "index" else "topic_clean_index.db")
        if not os.path.exists(path):
            return None
        n = os.path.getsize(path)
        if kind == "empty":
            open(path, "wb").close()
        elif kind == "truncate_half":
            with open(path, "r+b") as fh:
                fh.truncate(n // 2)
        elif kind == "truncate_1":
            with open(path, "r+b") as fh:
                fh.truncate(max(0, n - 1))
        elif kind == "garbage":
            open(path, "wb").write(bytes(rnd.getrandbits(8) for _ in range(max(n, 16))))
        elif kind == "zero":
            open(path, "wb").write(b"\x00" * n)
        elif kind == "delete":
            os.remove(path)
        elif kind in ("flip", "ff"):
            if case["pos"] >= n:
                return None
            b = cur(path, case["pos"])[0]
            patch(path, case["pos"], bytes([b ^ 0x5A if kind == "flip" else 0xFF]))
        return "%s file: %s at %d (len %d)" % (f, kind, case.get("pos", 0), n)
    if f == "stray":
        if kind == "tmp_index":
            open(os.path.join(d, "read_offset_idx_index.db.tmp"), "wb").write(b"\x01\x02\x03partial")
        elif kind == "tmp_marker":
            open(os.path.join(d, "topic_clean_index.db.tmp"), "wb").write(bytes(rnd.getrandbits(8) for _ in range(40)))
        elif kind == "random_name":
            open(os.path.join(d, "foo.bar"), "wb").write(bytes(rnd.getrandbits(8) for _ in range(100)))
        elif kind == "digit_short":
            open(os.path.join(d, "1234567890123"), "wb").write(b"0123456789")
        elif kind == "digit_empty":
            open(os.path.join(d, "1000000000001"), "wb").close()
        elif kind == "digit_dir":
            os.makedirs(os.path.join(d, "1000000000002"), exist_ok=True)
        elif kind == "subdir":
            os.makedirs(os.path.join(d, "sub"), exist_ok=True)
            open(os.path.join(d, "sub", "x"), "wb").write(b"x")
        elif kind == "digit_garbage_full":
            open(os.path.join(d, "1000000000000"), "wb").write(bytes(rnd.getrandbits(8) for _ in range(8192)))
        return "stray: " + kind
    return None


def c11(tier):
    t0 = time.time()
    cases, mc = _cases()
    binp = C.build_engine("tiny")
    root = C.ensure_dir(os.path.join(C.BUILD, "runs", "c11-%d" % os.getpid()))
    rnd = random.Random(C.seed())
    backends = ["fd", "mmap"]
    # 1) produce valid directories with the real engine
    prepared = {}
    for w in WORKLOADS:
        for be in backends:
            beh = {"id": "%s_%s" % (w["id"], be), "cfg": {"backend": be, "mode": "strict", "pe": 1, "topics": w["topics"],
                                                       "keep_dir": True, "proj": False}, "ops": w["ops"]}
            d = C.ensure_dir(os.path.join(root, beh["id"]))
            inp, out = os.path.join(d, "in.ndjson"), os.path.join(d, "out.ndjson")
            open(inp, "w").write(json.dumps(beh) + "\n")
            rc, o = C.sh([binp, "run", "--in", inp, "--out", out, "--dir", os.path.join(d, "data")], timeout=120,
                         env={"WALRUS_QUIET": "1"})
            if rc != 0:
                raise C.ToolError("workload run failed: %s" % o[-500:])
            evs = [json.loads(l) for l in open(out) if l.strip()]
            sizes = {}
            for op in w["ops"]:
                if op["op"] == "append":
                    sizes[op["id"]] = op["size"]
                elif op["op"] == "batch":
                    for e in op["es"]:
                        sizes[e[0]] = e[1]
            time.sleep(0.05)   # let the marker persister finish
            prepared[beh["id"]] = (beh, os.path.join(d, "data", "b0"), evs, sizes)
    # 2) damage + open
    todo = []
    sample = cases if tier == "thorough" else [c for i, c in enumerate(cases) if c["region"] not in ("body", "body8") or c["pos"] % 3 == (C.seed() % 3)]
    for bid, (beh, base, evs, sizes) in prepared.items():
        for ci, case in enumerate(sample):
            todo.append((bid, ci, case))
    if tier == "thorough":
        # pairs: a WAL damage together with an index damage
        wal = [c for c in cases if c["file"] == "wal"]
        small = [c for c in cases if c["file"] in ("index", "marker")]
        for bid in prepared:
            for k in range(150):
                todo.append((bid, 100000 + k, [rnd.choice(wal), rnd.choice(small)]))

    def job(item):
        bid, ci, case = item
        beh, base, evs, sizes = prepared[bid]
        d = os.path.join(root, "x_%s_%d" % (bid, ci))
        shutil.copytree(base, d)
        r = random.Random("%d/%s/%d" % (C.seed(), bid, ci))
        descs = []
        for cse in (case if isinstance(case, list) else [case]):
            desc = apply_damage(os.path.join(d, "d0"), cse, sizes, r)
            if desc:
                descs.append(desc)
        if not descs:
            shutil.rmtree(d, ignore_errors=True)
            return None
        spec = os.path.join(d, "beh.json")
        open(spec, "w").write(json.dumps(beh))
        out = os.path.join(d, "rec.ndjson")
        rc, o = C.sh([binp, "crash", "child-recover", "--beh", spec, "--dir", d, "--out", out, "--dmg"], timeout=120,
                     env={"WALRUS_QUIET": "1"})
        revs = []
        if os.path.exists(out):
            revs = [json.loads(l) for l in open(out) if l.strip()]
        shutil.rmtree(d, ignore_errors=True)
        return {"bid": bid, "ci": ci, "case": case, "desc": descs, "rc": rc, "events": revs}

    results = [x for x in C.parallel_map(job, todo, workers=12) if x]
    # 3) oracle: process outcome + contract clause TDamagedRead
    groups = {}
    for x in results:
        beh, base, evs, sizes = prepared[x["bid"]]
        gid = "%s#%d" % (x["bid"], x["ci"])
        pre = [e for e in evs if e.get("ev") in ("reset", "append", "batch")]
        pre[0] = dict(pre[0], g=gid)
        groups[gid] = pre + [e for e in x["events"] if e.get("ev") in ("read", "bread", "note")]
    verd, stats = E.validate(groups, tag="c11v", drop=("counts", "reclaim"))
    findings = C.load_findings()
    violations, known = [], {}
    kinds = {}
    for x in results:
        gid = "%s#%d" % (x["bid"], x["ci"])
        opened = next((e for e in x["events"] if e.get("what") == "damaged_open"), None)
        bad = None
        if x["rc"] == 88:
            bad = "hang"
        elif x["rc"] != 0:
            bad = "process_died_rc_%s" % x["rc"]
        elif opened is None:
            bad = "no_open_event"
        elif opened["res"] == "panic":
            bad = "open_panic"
        elif any(e.get("st") == "panic" for e in x["events"]):
            bad = "read_panic"
        elif not verd[gid]["ok"]:
            bad = "foreign_payload"
        c0 = x["case"][0] if isinstance(x["case"], list) else x["case"]
        kinds[(c0["file"], c0["kind"])] = kinds.get((c0["file"], c0["kind"]), 0) + 1
        if bad:
            div = {"kind": bad, "file": c0["file"], "damage": c0["kind"], "region": c0["region"],
                   "backend": prepared[x["bid"]][0]["cfg"]["backend"], "pair": isinstance(x["case"], list)}
            f = C.match_finding(findings, "C11", div)
            if f:
                known.setdefault(f["id"], [f, 0])[1] += 1
            else:
                violations.append((div, x))
    shutil.rmtree(root, ignore_errors=True)
    for fid, (f, n) in known.items():
        print("KNOWN-FINDING: property=C11 %s [%s, seen %d time(s)]" % (f["what_fails"], fid, n))
    for div, x in violations[:20]:
        path = C.save_replay("C11", "C11_%s_%s" % (x["bid"], x["ci"]), {"property": "C11", "divergence": div, "case": x["case"],
                                                                    "description": x["desc"], "exit_code": x["rc"],
                                                                    "events_after_open": x["events"][:20],
                                                                    "workload": prepared[x["bid"]][0]})
        print("VIOLATION property=C11 replay=%s" % path)
        C.log("  %s %s" % (json.dumps(div), x["desc"]))
    cov = {
        "evaluations": len(results), "distinct_nontrivial": len(set(json.dumps(x["case"], sort_keys=True) for x in results)),
        "rule": "TLC enumerates the damage cases of spec WalrusDamage (class x locus: probe/meta_len/every header byte/payload/"
                "zeroed header/garbage unit, truncation at unit/entry/mid-header/mid-payload/odd offsets, index and marker file "
                "empty/truncated/garbage/zero/deleted/byte flips, stray files incl. leftover *.tmp and digit-named ones); each "
                "applicable case is applied to copies of directories produced by the real engine (3 workloads x fd/mmap), the copy is "
                "opened in a fresh process and every topic drained; non-trivial = distinct applicable cases; thorough adds pairs",
        "samples": [{"case": x["case"], "what": x["desc"], "exit": x["rc"],
                     "open": next((e.get("res") for e in x["events"] if e.get("what") == "damaged_open"), None)} for x in results[:3]],
        "damage_case_space": mc, "cases_by_kind": {"%s/%s" % k: v for k, v in sorted(kinds.items())},
        "trace_tlc_states": stats["states_distinct"], "known_findings_seen": {k: v[1] for k, v in known.items()},
    }
    C.write_evidence("C11", tier, "exploration", cov, time.time() - t0, assumptions=[
        "semantic half only: undefined behaviour that does not crash the process or change a returned payload is not observable here",
        "damage is applied to closed directories; byte patterns per class are seeded samples, not all byte values"],
        violations=len(violations))
    return C.EXIT_VIOLATION if violations else C.EXIT_OK


REGISTRY = {"C11": c11}
