"""Shared plumbing for the /verif checks: paths, builds, TLC runs, evidence, known findings."""
import fcntl
import hashlib
import json
import os
import re
import shutil
import subprocess
import sys
import time
from concurrent.futures import ThreadPoolExecutor

VERIF = os.path.dirname(os.path.dirname(os.path.abspath(__file__)))
REPO = os.environ.get("VERIF_REPO", "/repo")
BUILD = os.path.join(VERIF, "build")
SPEC = os.path.join(VERIF, "spec")
EVID = os.path.join(VERIF, "evidence")
FINDINGS = os.path.join(VERIF, "findings", "known_findings.jsonl")
TLA_CP = "/opt/veriftools/tla/tla2tools.jar:/opt/veriftools/tla/CommunityModules-deps.jar"

EXIT_OK, EXIT_VIOLATION, EXIT_TOOL = 0, 1, 2


class ToolError(Exception):
    pass


def log(*a):
    print(*a, file=sys.stderr, flush=True)


def seed():
    try:
        return int(os.environ.get("VERIF_SEED", "1"))
    except ValueError:
        return 1


def ensure_dir(p):
    os.makedirs(p, exist_ok=True)
    return p


def sh(cmd, timeout=None, env=None, cwd=None, check=False):
    e = dict(os.environ)
    if env:
        e.update(env)
    p = subprocess.run(cmd, stdout=subprocess.PIPE, stderr=subprocess.STDOUT, timeout=timeout,
                       env=e, cwd=cwd, text=True, errors="replace")
    if check and p.returncode != 0:
        raise ToolError("command failed (%d): %s\n%s" % (p.returncode, " ".join(cmd), p.stdout[-4000:]))
    return p.returncode, p.stdout


# ------------------------------------------------------------------------------------------------
# hashing of inputs (cache keys never span different source trees)

def hash_files(paths):
    h = hashlib.sha256()
    for p in sorted(paths):
        h.update(p.encode())
        try:
            with open(p, "rb") as f:
                h.update(f.read())
        except OSError:
            h.update(b"<missing>")
    return h.hexdigest()[:16]


def tree_files(root, exts=(".rs", ".toml", ".lock")):
    out = []
    for d, dirs, files in os.walk(root):
        dirs[:] = [x for x in dirs if x not in ("target", ".git", "wal_files")]
        for f in files:
            if f.endswith(exts):
                out.append(os.path.join(d, f))
    return out


def engine_src_hash():
    files = tree_files(os.path.join(REPO, "src")) + [os.path.join(REPO, "Cargo.toml")]
    files += tree_files(os.path.join(VERIF, "harness", "engine", "src"))
    return hash_files(files)


# ------------------------------------------------------------------------------------------------
# builds

class FileLock:
    def __init__(self, path):
        self.path = path

    def __enter__(self):
        ensure_dir(os.path.dirname(self.path))
        self.f = open(self.path, "w")
        fcntl.flock(self.f, fcntl.LOCK_EX)
        return self

    def __exit__(self, *a):
        fcntl.flock(self.f, fcntl.LOCK_UN)
        self.f.close()


def build_engine(geom="tiny"):
    """Builds engine-driver from /repo's working tree with hooks on. Returns the binary path."""
    assert geom in ("tiny", "real")
    crate = os.path.join(VERIF, "harness", "engine")
    target = os.path.join(BUILD, "target-" + geom)
    flags = "--cfg walrus_verif" + (" --cfg walrus_verif_tiny" if geom == "tiny" else "")
    lock_src = os.path.join(REPO, "Cargo.lock")
    with FileLock(os.path.join(BUILD, "cargo-%s.lock" % geom)):
        lock_dst = os.path.join(crate, "Cargo.lock")
        if not os.path.exists(lock_dst) and os.path.exists(lock_src):
            shutil.copy(lock_src, lock_dst)
        t0 = time.time()
        rc, out = sh(["cargo", "build", "--offline", "--quiet"], cwd=crate,
                     env={"RUSTFLAGS": flags, "CARGO_TARGET_DIR": target, "CARGO_NET_OFFLINE": "true"},
                     timeout=1800)
        if rc != 0:
            raise ToolError("engine-driver build failed (%s):\n%s" % (geom, out[-6000:]))
        log("[build] engine-driver %s ok (%.0fs)" % (geom, time.time() - t0))
    return os.path.join(target, "debug", "engine-driver")


# ------------------------------------------------------------------------------------------------
# TLC

def tlc(spec, cfg, workdir, env=None, workers=1, extra=None, timeout=900, heap="4g", deque=False):
    ensure_dir(workdir)
    jopts = "-Xss1g"
    if deque:
        jopts += " -Dtlc2.tool.queue.IStateQueue=StateDeque"
    jtmp = ensure_dir(os.path.join(workdir, "jtmp"))
    cmd = ["timeout", str(timeout), "java", "-XX:+UseParallelGC", "-Xmx" + heap, "-Xss1g", "-Djava.io.tmpdir=" + jtmp]
    if deque:
        cmd.append("-Dtlc2.tool.queue.IStateQueue=StateDeque")
    cmd += ["-cp", TLA_CP, "tlc2.TLC", "-workers", str(workers), "-metadir", os.path.join(workdir, "meta"),
            "-cleanup", "-noGenerateSpecTE", "-config", cfg]
    if extra:
        cmd += extra
    cmd.append(spec)
    e = {"JAVA_TOOL_OPTIONS": ""}
    if env:
        e.update(env)
    t0 = time.time()
    rc, out = sh(cmd, env=e, cwd=os.path.dirname(spec))
    shutil.rmtree(jtmp, ignore_errors=True)
    shutil.rmtree(os.path.join(workdir, "meta"), ignore_errors=True)
    return rc, out, time.time() - t0


def tlc_stats(out):
    """(generated, distinct) from TLC's summary line."""
    m = re.findall(r"(\d+) states generated, (\d+) distinct states found", out)
    if not m:
        return 0, 0
    g, d = m[-1]
    return int(g), int(d)


def tlc_coverage(out):
    """Per-action counts from -coverage output: {action: (distinct, total)}"""
    cov = {}
    for m in re.finditer(r"<(\w+) line \d+, col \d+ to line \d+, col \d+ of module (\w+)(?: \([\d ]+\))?>: (\d+):(\d+)", out):
        cov[m.group(1)] = (int(m.group(3)), int(m.group(4)))
    return cov


# ------------------------------------------------------------------------------------------------
# evidence

def write_evidence(pid, tier, level, coverage, wall_s, assumptions=None, violations=0, extra=None):
    ensure_dir(EVID)
    ev = {
        "property_id": pid,
        "tier": tier,
        "seed": seed(),
        "level": level,
        "coverage": coverage,
        "assumptions": assumptions or [],
        "wall_s": round(wall_s, 2),
        "violations": violations,
    }
    if extra:
        ev.update(extra)
    path = os.path.join(EVID, pid + ".json")
    tmp = path + ".tmp"
    with open(tmp, "w") as f:
        json.dump(ev, f, indent=1, sort_keys=True)
    os.replace(tmp, path)
    return path


# ------------------------------------------------------------------------------------------------
# known findings

def load_findings():
    out = []
    if os.path.exists(FINDINGS):
        with open(FINDINGS) as f:
            for line in f:
                line = line.strip()
                if not line or line.startswith("#"):
                    continue
                out.append(json.loads(line))
    return out


def match_finding(findings, pid, div):
    """div: dict of divergence attributes. A finding matches when every key of its matcher equals
    (or, for list values, contains) the divergence's attribute."""
    for f in findings:
        if f.get("status") == "fixed":
            continue  # fixed entries suppress nothing
        if pid not in f.get("properties", [f.get("property")]):
            continue
        m = f.get("matcher", {})
        ok = True
        for k, want in m.items():
            got = div.get(k)
            if isinstance(want, list):
                if got not in want:
                    ok = False
                    break
            elif got != want:
                ok = False
                break
        if ok:
            return f
    return None


def save_replay(pid, name, obj):
    d = ensure_dir(os.path.join(BUILD, "replay", pid))
    path = os.path.join(d, name + ".json")
    with open(path, "w") as f:
        json.dump(obj, f, indent=1)
    return path


def parallel_map(fn, items, workers=8):
    if not items:
        return []
    with ThreadPoolExecutor(max_workers=workers) as ex:
        return list(ex.map(fn, items))
