"""C14: a namespace key always maps to a private directory strictly inside the data dir."""
import json
import os
import random
import re
import shutil
import time

from . import common as C


def _mc(cfgname, expect_violation=False):
    spec = os.path.join(C.SPEC, "MC_Namespace.tla")
    cfg = os.path.join(C.SPEC, cfgname)
    rc, out, wall = C.tlc(spec, cfg, os.path.join(C.BUILD, "runs", "mc_ns_%d" % os.getpid()), workers=4, timeout=600)
    gen, dist = C.tlc_stats(out)
    violated = "is violated" in out
    if expect_violation:
        return violated, out
    if violated or "Error" in out or dist == 0:
        raise C.ToolError("MC_Namespace (%s) failed:\n%s" % (cfgname, out[-2000:]))
    keys = []
    for m in re.finditer(r'<<"NS", "(.*)">>', out):
        keys.append(json.loads(m.group(1).encode().decode("unicode_escape")))
    return {"states": dist, "transitions": gen, "wall_s": round(wall, 1)}, keys


def c14(tier):
    t0 = time.time()
    # vacuity guard: the model without the dot fix must violate StrictlyInside
    viol, _ = _mc("MC_Namespace_ascode_before_fix.cfg", expect_violation=True)
    if not viol:
        raise C.ToolError("Namespace model cannot express the dot-key escape any more (vacuous)")
    mc, keys = _mc("MC_Namespace_fixed.cfg")
    # distinct keys only (TLC prints each initial state once per invariant evaluation round)
    seen, uniq = set(), []
    for k in keys:
        s = json.dumps(k["k"])
        if s not in seen:
            seen.add(s)
            uniq.append(k)
    r = random.Random(C.seed())
    interesting = [k for k in uniq if len(k["k"]) <= 2 or set(k["k"]) <= {".", "_", "/"}]
    for k in interesting:
        k["all"] = True
    extra = []
    if tier == "thorough":
        # long random keys over the same classes
        for _ in range(3000):
            n = r.randint(5, 60)
            ks = [r.choice(["a", "-", "_", ".", "/", "s", "0", "u"]) for _ in range(n)]
            d = [c if c in ("a", "-", "_", ".") else "_" for c in ks]
            if all(c == "_" for c in d):
                d = ["HASH"]
            extra.append({"k": ks, "d": d, "all": r.random() < 0.2})
    if tier != "thorough":
        # quick: every key of length <= 3 and a seeded sample of the length-4 keys
        long4 = [k for k in uniq if len(k["k"]) == 4 and not k.get("all")]
        r.shuffle(long4)
        uniq = [k for k in uniq if len(k["k"]) < 4 or k.get("all")] + long4[:500]
    # every short key with a replaced character is also tried with each look-alike of '/', '.', '\\' (fullwidth forms,
    # division slash, one dot leader): a sanitizer that folds such characters must not produce path syntax
    for k in list(uniq):
        if "u" in k["k"] and len(k["k"]) <= 3:
            for j in range(3, 9):
                extra.append(dict(k, uvar=j))
    # names around the file-name length limit (255 bytes) with dot tails
    for n in (253, 254, 255, 256, 510):
        for tail in ([".", "."], ["."], ["a", ".", "."], [".", ".", "a"], [".", ".", "/", "a"]):
            ks = ["a"] * n + tail
            d = [c if c in ("a", "-", "_", ".") else "_" for c in ks]
            extra.append({"k": ks, "d": d, "all": True})
    cases = uniq + extra
    binp = C.build_engine("tiny")
    root = C.ensure_dir(os.path.join(C.BUILD, "runs", "c14-%d" % os.getpid()))
    chunks = [cases[i:i + 80] for i in range(0, len(cases), 80)]

    def job(ix):
        d = C.ensure_dir(os.path.join(root, "j%d" % ix))
        inp, out = os.path.join(d, "in.ndjson"), os.path.join(d, "out.ndjson")
        with open(inp, "w") as f:
            for k in chunks[ix]:
                f.write(json.dumps(k) + "\n")
        rc, o = C.sh([binp, "ns", "--in", inp, "--out", out, "--dir", d, "--variant", str(C.seed() + ix)],
                     timeout=900, env={"WALRUS_QUIET": "1"})
        res = []
        if os.path.exists(out):
            with open(out) as f:
                res = [json.loads(l) for l in f if l.strip()]
        if rc != 0 and not res:
            raise C.ToolError("ns driver failed: rc=%d %s" % (rc, o[-500:]))
        shutil.rmtree(d, ignore_errors=True)
        return res

    results = []
    for res in C.parallel_map(job, list(range(len(chunks))), workers=10):
        results += res
    shutil.rmtree(root, ignore_errors=True)
    findings = C.load_findings()
    violations, known, drift = [], {}, 0
    for rec in results:
        bad = None
        if rec["st"] == "panic":
            bad = "panic"
        elif rec["st"] == "ok" and not rec["inside"]:
            bad = "escaped_directory"
        elif rec["stray_in_datadir"] or rec["stray_outside"]:
            bad = "files_outside_private_directory"
        if rec["st"] == "ok" and rec["inside"] and not rec["name_ok"]:
            drift += 1   # sanitisation differs from the model but the property holds
        if bad:
            div = {"kind": bad, "key_classes": "".join(rec["k"]), "ctor": rec["ctor"]}
            f = C.match_finding(findings, "C14", div)
            if f:
                known.setdefault(f["id"], [f, 0])[1] += 1
            else:
                violations.append((div, rec))
    for fid, (f, n) in known.items():
        print("KNOWN-FINDING: property=C14 %s [%s, seen %d time(s)]" % (f["what_fails"], fid, n))
    if drift:
        print("MODEL-DRIFT: %d keys map to a directory name other than the Namespace model predicts (still inside the data dir)" % drift)
    for div, rec in violations[:20]:
        path = C.save_replay("C14", "C14_%s_ctor%d" % (div["key_classes"].replace("/", "S").replace(".", "D")[:40], rec["ctor"]),
                             {"property": "C14", "divergence": div, "record": rec})
        print("VIOLATION property=C14 replay=%s" % path)
    errs = sum(1 for x in results if x["st"] == "err")
    cov = {
        "states": mc["states"], "transitions": mc["transitions"],
        "traces_validated_against_impl": len(results),
        "samples": [{"key_classes": x["k"], "ctor": x["ctor"], "dir_name": x.get("name"), "inside": x.get("inside")} for x in results[:4]],
        "evaluations": len(results), "distinct_nontrivial": len(cases),
        "exhaustive": tier == "thorough",
        "rule": "TLC enumerates every key of length <=4 over 8 character classes (alnum, '-', '_', '.', '/', white space, NUL, "
                "non-ASCII) and checks StrictlyInside on the transcription of sanitize_namespace + path push; every enumerated key "
                "is instantiated with concrete characters and passed to a real constructor (builder with/without data_dir, "
                "new_for_key, with_consistency_and_schedule_for_key, WALRUS_INSTANCE_KEY default; all five for short and dot/slash-only "
                "keys), an entry is appended, and the instance's root plus a listing of the data dir and its parent are checked",
        "constructor_errors": errs, "drift": drift, "known_findings_seen": {k: v[1] for k, v in known.items()},
    }
    C.write_evidence("C14", tier, "model_checking", cov, time.time() - t0,
                     assumptions=["character classes stand for all characters of the class; concrete representatives vary with the seed",
                                  "the harness observes the directory through Walrus::__verif_root (cfg hook) and by listing the sandbox"],
                     violations=len(violations))
    return C.EXIT_VIOLATION if violations else C.EXIT_OK


REGISTRY = {"C14": c14}
