"""`./check <ID> --replay <path>`: re-runs the execution stored in a replay file on the real code."""
import json

from . import common as C


def replay(pid, path):
    with open(path) as f:
        r = json.load(f)
    # shim-world properties: the module that wrote the file replays it
    try:
        from . import props_dist as PD
        if pid in PD.REPLAY and (pid != "C20" or r.get("half") == "adapter"):
            return PD.REPLAY[pid](path)
    except ImportError:
        pass
    for modname in ("props_pure", "props_cluster", "props_conc"):
        try:
            mod = __import__("vlib." + modname, fromlist=["REGISTRY"])
        except ImportError:
            continue
        if (pid in getattr(mod, "REGISTRY", {}) or pid in getattr(mod, "PARTIAL", {})) and hasattr(mod, "replay"):
            return mod.replay(pid, path)
    # engine properties: the stored behaviour is executed again and validated against WalrusAPI
    if "behaviour" not in r:
        raise C.ToolError("replay file %s has no 'behaviour' and no module claims property %s" % (path, pid))
    from . import engine as E
    beh = r["behaviour"]
    traces = E.run_behaviours([beh], r.get("geom", "tiny"), tag="replay")
    if beh["id"] not in traces:
        raise C.ToolError("replay: the driver produced no trace for %s" % beh["id"])
    verd, _ = E.validate(traces, batch_atomic=bool(r.get("batch_atomic", False)), tag="replayv",
                         drop=tuple(r.get("drop", ("reclaim",))))
    v = verd[beh["id"]]
    if v["ok"]:
        print("replay %s: accepted by the contract (%d events)" % (beh["id"], v["matched"]))
        return C.EXIT_OK
    print("VIOLATION property=%s replay=%s" % (pid, path))
    C.log("  first unmatched event %d: %s" % (v["index"], json.dumps({k: x for k, x in v["first_unmatched"].items() if k != "proj"})))
    return C.EXIT_VIOLATION
